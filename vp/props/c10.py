"""C10 — diagnostics are deterministic and independent of prior checks.

Monitor: differential observation under perturbation.  Every program P of a corpus is checked by the real pyanalyze
many times and the *renderings* (list of (code, line, col, full message incl. detail and context; module-name
tokens normalised; the attribute checker's late diagnostics included)) are compared for equality across

  repeat     : consecutive runs in ONE process on ONE Checker that the first WARM_RUNS runs have warmed (junk
               allocations between the runs),
  layout     : fresh interpreters with the SAME PYTHONHASHSEED but another heap layout (ASLR, junk allocations before
               import / before parse, PYTHONMALLOC=malloc, gc off),
  hashseed   : fresh interpreters with different PYTHONHASHSEED (confirmed by a second interpreter with that seed),
  history    : a Checker that has already checked other programs (among them P's respelled twin: the same program with
               the members of its Union/Optional/Literal annotations written in another order) vs. a fresh one: in this
               process (candidates) and,
               because pyanalyze keeps state in shared Value objects that outlive a Checker, confirmed in fresh
               interpreters: [P] vs [H..., P]; every shard also runs its list in reverse order after a warm-up program;
               and, for state that belongs to the interpreter rather than to pyanalyze (sys.modules, attributes of package
               objects), generated pairs (P, H) - P never executes its import of a standard-library submodule that nothing
               else loads, H loads that submodule in another way - checked as [P] and [H, P] in two images of one
               interpreter that has imported pyanalyze, built its Checker and checked nothing; in the same way [P] vs
               [twin, P] vs [twin, typing caches emptied, P] for P's respelled twin,
  file-order : the CLI on a directory vs. the same files one at a time / with --parallel.

Mechanism key (DESIGN Appendix A): axis | code of the differing diagnostic | what differs [| message class].
 * what differs: order-of-diagnostics (equal multisets) / union-member-order (equal after sorting the members of every
   `A | B` and Literal[...] list, or the per-member detail lines) / listed-names-order (equal after sorting comma-separated
   names) / content.
 * the code is `*` where the message is only the carrier of a Value's text (union order, protocol member lists, reprs):
   the defect is in how the value is built or printed, and every code whose message embeds it shows it.
 * the message class (first differing line, names and numbers abstracted) is added for listed-names-order and content,
   because one code has several message builders.  unused_variable and unused_assignment come out of one loop and share
   one key.  `module 'a' has no attribute 'b'` is classed by the program text: the program imports a.b (the checker did not
   load what the program asks for) / it never does (the answer mirrors what earlier code loaded into the package
   object); other differences on the same line (revealed type Any, ...) are consequences and are not reported again.
 * attribution experiments replace the key where a difference is shown to come from the checked program's own objects:
   `via:set-object-of-the-checked-program` (hash-seed axis; vanishes when the program's sets become tuples) and
   `history|*|content|via:submodule-that-the-checked-program-never-imports` (history axis; vanishes when the program is
   made to import the submodules it reaches through a package object) and
   `history|*|union-member-order|via:typing-module-cache-of-generic-aliases` (history axis; [H, P] shows it, [H, typing
   caches emptied, P] does not: the spelling came through typing's cache of equal generic aliases, not through pyanalyze).
 * every differing diagnostic of a pair is classified (not only the first), so one unstable message cannot hide another.
An observation made on a coarse axis is first re-tried on the finer ones (repeat < layout < hashseed < history <
file-order), so that e.g. a set ordered by id() is reported once, as `repeat`, whichever environment pair exposed it.
Excused (counted): addresses inside the repr of a runtime object of the checked program (a fresh object per import);
programs whose own module-level values change from import to import (clock etc.) are dropped from the corpus.
"""
from __future__ import annotations

import ast
import collections
import json
import os
import random
import re
import subprocess
import sys

from vp import c10_corpus as corpus
from vp import harness
from vp.core import HERE, digest

ID = "C10"
LEVEL = "exploration"
TECHNIQUE = "differential observation under perturbation (hash seed, heap layout, repetition, checker history, CLI file grouping)"
RULE = (
    "case = one program P checked under every environment of its shard: R in-process runs on one fresh Checker (3 warm-up + "
    "5-6 compared), self/prefix/warm-up+reversed/related histories on shared Checkers, one fresh interpreter per environment "
    "(base; 3-6 heap layouts with the base seed; 5-14 other PYTHONHASHSEEDs, 2-4 of them twice with another layout; the list in "
    "reverse order after a warm-up program), and for a sample the CLI on a directory vs single file vs --parallel. A second "
    "kind of case = one pair (P, H) of the import plan: P imports one of 26 standard-library submodules that neither pyanalyze "
    "nor its dependencies load (checked per run: `import_pairs_submodule_not_preloaded`) in one of 6 forms (import a.b / "
    "import a.b as c / from a import b / from a.b import x [as y] / import a.b, p.q) at one of 7 places (def body, if "
    "TYPE_CHECKING, try in def, nested def, class body in def, if in def; module level as the executed control) and uses the "
    "submodule it imported, a sibling submodule it never imports, or a submodule of a package it imports alone; H is an "
    "unrelated program that gets the same submodule loaded in one of 8 ways (module-level / in-function import, aliased or "
    "not, from-imports, importlib) or does not (2 controls); every (form of P, form of H) combination occurs in each run; "
    "[P] and [H, P] run in two forked images of one interpreter that has only imported pyanalyze and built its Checker. "
    "3-12 programs per shard (those with unions inside generics first) are also checked after their respelled twin (members "
    "of every Union/Optional/Literal/`|` annotation rotated) in such images: [P], [twin, P], [twin, typing caches emptied, P]. "
    "Corpus: 30 targeted families (never-executed imports and import-loading programs as above; List/Dict/Tuple/Set/Deque "
    "specialised with 2-3 of 4 atoms in random order and either spelling, read back through Sequence[T]/Iterable[T]/iteration; "
    "classes whose body conflicts with the "
    "same attribute/method defined on 2-4 bases - side by side, parent+grandparent chain, diamond, mixed -, 1-3 attributes and "
    "0-2 methods per class body; 3-5 unimplemented abstract methods, protocol members supplied by different bases in both MRO "
    "orders; reveal_locals() after 3-6 names first bound inside if/else/elif/try/for; "
    "or-chains of 3-5 narrowing conditions, assignments in try/with bodies, 3-6 unused variables, 2-5 "
    "unexpected keywords, protocols with 3-6 members, %(k)s/{k} templates with missing/unused keys, unions of >=10 literals, "
    "TypedDict, overloads, constrained TypeVars, match or-patterns, set/dict displays, bad context managers, bad calls of "
    "builtins (typeshed signatures in the message), narrowing-predicate values, ...), vp.illtyped programs, vp.proggen modules "
    "with reveal_type appended, and the bodies of @assert_passes/@assert_fails tests of /repo that import standalone. "
    "Non-trivial = P has >= 2 diagnostics or a message listing >= 2 items (import pair: the submodule was not loaded before "
    "the check); distinct by source digest; the evidence lists how "
    "many environments each program was observed under and how many distinct renderings were seen."
)
ASSUMPTIONS = [
    "equality of renderings is the oracle; module-name tokens (random per make_module) are normalised by harness.normalise_text",
    "a child interpreter started with PYTHONHASHSEED=s / PYTHONMALLOC / junk allocations realises that environment; ASLR is on, "
    "so two children with identical settings still differ in heap layout (counted under `layout`)",
    "programs whose own top-level code fails to import standalone, or computes different module-level values on two imports, "
    "are dropped from the corpus (counted); an address inside the repr of a runtime object of the checked program is excused",
    "axis attribution is empirical: an observation is attributed to the finest axis on which it could be reproduced within "
    "30 warm in-process repeats / the shard's interpreters; probabilistic defects can be missed by a single run",
]
FLOORS = {
    "quick": {"distinct_nontrivial": 180, "programs": 200, "environments_compared": 3400, "child_environments": 120,
              "inproc_repeat_runs": 1600, "histories": 1000, "cli_invocations": 6,
              "import_pairs": 48, "import_pairs_submodule_not_preloaded": 40, "twin_histories": 24},
    "thorough": {"distinct_nontrivial": 900, "programs": 1000, "environments_compared": 25000, "child_environments": 220,
                 "inproc_repeat_runs": 9000, "histories": 6000, "cli_invocations": 40,
                 "import_pairs": 240, "import_pairs_submodule_not_preloaded": 200, "twin_histories": 90},
}
NSHARDS = 16
WATCHDOG_S = {"quick": 1800, "thorough": 10800}

BASE_SEED = "0"
AXES = ["repeat", "layout", "hashseed", "history", "file-order"]
WARM_RUNS = 3
ESCALATE_REPEATS = 30
REPLAY_ATTEMPTS = 40

# ---------------------------------------------------------------------------
# renderings and their comparison


def render(result) -> list:
    from vp.c10_child import render as _render

    return _render(result)


def _tup(r) -> tuple:
    return tuple(tuple(d) for d in r)


_OPEN, _CLOSE = "[({", "])}"


def _parse(s: str) -> list:
    stack: list = [[]]
    opens: list = []
    buf: list = []
    for ch in s:
        if ch in _OPEN:
            if buf:
                stack[-1].append("".join(buf))
                buf = []
            stack.append([])
            opens.append(ch)
        elif ch in _CLOSE:
            if not opens or _OPEN[_CLOSE.index(ch)] != opens[-1]:
                raise ValueError("unbalanced")
            if buf:
                stack[-1].append("".join(buf))
                buf = []
            children = stack.pop()
            stack[-1].append((opens.pop(), children, ch))
        else:
            buf.append(ch)
    if opens:
        raise ValueError("unbalanced")
    if buf:
        stack[-1].append("".join(buf))
    return stack[0]


def split_top(s: str, sep: str) -> list:
    out, cur, depth, i = [], [], 0, 0
    while i < len(s):
        ch = s[i]
        if ch in _OPEN:
            depth += 1
        elif ch in _CLOSE:
            depth -= 1
        if depth == 0 and s.startswith(sep, i):
            out.append("".join(cur))
            cur = []
            i += len(sep)
            continue
        cur.append(ch)
        i += 1
    out.append("".join(cur))
    return out


def _sort_bars(s: str) -> str:
    if " | " not in s:
        return s
    toks = split_top(s, " ")
    out = []
    i = 0
    while i < len(toks):
        if i + 2 < len(toks) and toks[i + 1] == "|":
            run = [toks[i]]
            j = i + 1
            while j + 1 < len(toks) and toks[j] == "|":
                run.append(toks[j + 1])
                j += 2
            lead, run[0] = re.match(r"^(['\"(]*)(.*)$", run[0], re.S).groups()
            run[-1], trail = re.match(r"^(.*?)(['\")\.,:;]*)$", run[-1], re.S).groups()
            out.append(lead + " | ".join(sorted(run)) + trail)
            i = j
        else:
            out.append(toks[i])
            i += 1
    return " ".join(out)


def _canon_items(items: list) -> str:
    out = ""
    for it in items:
        if isinstance(it, str):
            out += it
        else:
            o, children, c = it
            inner = _canon_items(children)
            if o == "[" and re.search(r"(Literal|Union|Optional)$", out):
                inner = ", ".join(sorted(split_top(inner, ", ")))
            out += o + inner + c
    return _sort_bars(out)


def _protect_angles(line: str, table: dict) -> str:
    """Replace every outermost `<...>` group (`<dict containing {...}>`, `<Color.RED: 1>`, `<+x predicate ...>`) by an
    atomic, content-derived token, so that the spaces, commas and bars inside do not take part in splitting."""
    stack: list = []
    pairs: list = []
    for i, ch in enumerate(line):
        if ch == "<" and i + 1 < len(line) and (line[i + 1].isalpha() or line[i + 1] in "+-_<"):
            stack.append(i)
        elif ch == ">" and stack and i > 0 and line[i - 1] not in "- ":
            j = stack.pop()
            if not stack:
                pairs.append((j, i))
    if not pairs:
        return line
    out, pos = [], 0
    for j, i in pairs:
        inner = "<" + _canon_line(line[j + 1 : i]) + ">"
        token = "\x00" + digest(inner) + "\x00"
        table[token] = inner
        out.append(line[pos:j])
        out.append(token)
        pos = i + 1
    out.append(line[pos:])
    return "".join(out)


def _canon_line(line: str) -> str:
    table: dict = {}
    prot = _protect_angles(line, table)
    try:
        out = _canon_items(_parse(prot))
    except (ValueError, AttributeError):
        out = prot
    for token, text in table.items():
        out = out.replace(token, text)
    return out


def canon_union(msg: str) -> str:
    """Sort the members of every `A | B | C` and `Literal[...]`/`Union[...]` list (line by line)."""
    return "\n".join(_canon_line(line) for line in msg.split("\n"))


_ITEM = r"(?:[bBrRuU]{0,2}'[^'\n]*'|[bBrRuU]{0,2}\"[^\"\n]*\"|[\w.<>-]+)"
_RUN_RE = re.compile(rf"{_ITEM}(?:, {_ITEM})+")
_ADDR_RE = re.compile(r"\b0x[0-9a-fA-F]{6,}\b")
_NOATTR_RE = re.compile(r"^(\s*.* has no attribute )'[^']+'$")
_PROTO_RE = re.compile(r" \(Protocol with members [^)]*\)")


def canon_names(msg: str) -> str:
    """Sort every comma-separated run of quoted names / bare words."""
    return _RUN_RE.sub(lambda m: ", ".join(sorted(m.group(0).split(", "))), msg)


def _abstract(line: str) -> str:
    s = line.strip()
    s = re.sub(r" \(code: \w+\)$", "", s)
    if s.startswith("Revealed type is"):
        return "Revealed type is"
    s = re.sub(r"^In call to [^:]*: ", "", s)
    # message builders that embed a bare identifier of the checked program
    s = re.sub(r"^(Value of|Variable|Undefined name:|Incompatible argument type for|Missing required argument|Cannot import name) [\w.]+", r"\1 N", s)
    s = re.sub(r"\((?:[^()]|\([^()]*\))*\) -> \S.*$", "(SIG)", s)
    s = re.sub(r"^.*?(?= has no attribute | is not a )", "T", s)
    s = re.sub(r"[bBrRuU]{0,2}'[^']*'|[bBrRuU]{0,2}\"[^\"]*\"", "N", s)
    s = re.sub(r"<M>\.[\w.]+|\b[A-Za-z_]\w*\.\w+[\w.]*", "Q", s)
    s = _RUN_RE.sub("N*", s)
    s = re.sub(r"\d+", "#", s)
    return s[:80].strip()


def msg_class(da, db=None) -> str:
    """First line on which the two messages differ (or the headline), names and numbers abstracted: the message
    builder, not the instance."""
    if da is None:
        da, db = db, None
    if da is None:
        return "-"
    la = [l for l in str(da[3]).split("\n") if l.strip()]
    if db is not None:
        lb = [l for l in str(db[3]).split("\n") if l.strip()]
        for x, y in zip(la, lb):
            if x != y:
                return _abstract(x)
    return _abstract(la[0]) if la else ""


def _is_pseudo(r) -> bool:
    return len(r) == 1 and str(r[0][0]).startswith("<")


def _crash_class(d) -> str:
    text = str(d[3])
    if "FrozenInstanceError" in text:
        # the failures themselves (Error is a frozen dataclass with __slots__) could not be unpickled in the parent
        return "parallel worker's failures cannot be unpickled: FrozenInstanceError"
    if re.search(r"[Pp]ickl|BrokenProcessPool|concurrent\.futures|__init__\(\) takes \d+ positional arguments", text):
        # One mechanism, many faces: check_file_in_worker returns the worker's whole ClassAttributeChecker - its
        # visitors (NameCheckVisitor.__reduce_ex__ no longer matches __init__), and Values holding run-time TypeVars,
        # functions, descriptors ... - through pickle.  Which object trips first depends on the files.
        return "parallel worker's attribute-checker state cannot be transferred between processes"
    m = re.match(r"\s*((?:\w+\.)*\w+)", text)
    return (m.group(1) if m else "?")[:60]


EXCUSED = "excused"


def classify_all(ra, rb, keep_excused: bool = False, src=None) -> list:
    """[] if equal, else one (code, kind, message-class-or-'', da, db) per differing diagnostic (distinct suffixes only;
    in emission order of `ra`).  `src` (the checked program, when the caller has it) lets a diagnostic that exists in
    only one of the runs be classed by what it is about (see one_sided_class)."""
    A, B = [tuple(d) for d in ra], [tuple(d) for d in rb]
    if A == B:
        return []
    if _is_pseudo(A) or _is_pseudo(B):
        # one side is not a list of diagnostics at all (crash of the CLI / exception escaping the checker)
        crash = A[0] if _is_pseudo(A) else B[0]
        other = (B[0] if B else None) if _is_pseudo(A) else (A[0] if A else None)
        da, db = (crash, other) if _is_pseudo(A) else (other, crash)
        return [(crash[0], "content", _crash_class(crash), da, db)]
    ca, cb = collections.Counter(A), collections.Counter(B)
    if ca == cb:
        i = next(i for i in range(len(A)) if A[i] != B[i])
        return [(A[i][0], "order-of-diagnostics", "", A[i], B[i])]
    only_a = [d for d in A if ca[d] > cb[d]]
    only_b = [d for d in B if cb[d] > ca[d]]
    out, seen, used_b = [], set(), set()
    for da in only_a:
        j = next((j for j, d in enumerate(only_b) if j not in used_b and d[:3] == da[:3]), None)
        if j is not None:
            used_b.add(j)
        c = _classify_pair(da, only_b[j] if j is not None else None, src)
        if suffix_of(c) not in seen:
            seen.add(suffix_of(c))
            out.append(c)
    for j, db in enumerate(only_b):
        if j not in used_b:
            c = (db[0], "content", one_sided_class(db, src), None, db)
            if suffix_of(c) not in seen:
                seen.add(suffix_of(c))
                out.append(c)
    # a name that resolves in only one of the runs changes whatever else is said about its line (the revealed type
    # becomes Any, ...): consequences of the missing-module-attribute difference, which is reported itself
    anchor_lines = {d[1] for d in only_a + only_b if _MODATTR_RE.search(_headline(d))}
    if anchor_lines:
        out = [c for c in out if module_attr_class(c[3] or c[4], src)
               or not any(d is not None and d[1] in anchor_lines for d in (c[3], c[4]))]
    if not keep_excused:
        out = [c for c in out if c[1] != EXCUSED]
    return out


def classify(ra, rb):
    """None if equal, else the classification of the first differing diagnostic."""
    cs = classify_all(ra, rb)
    return cs[0] if cs else None


ONE_SIDED = "diagnostic present in only one of the runs"
_MODATTR_RE = re.compile(r"module '([\w.]+)' has no attribute '(\w+)'")


def imported_names(src: str) -> set:
    """Every dotted name that an import statement of the program (executed or not) asks for, with all its prefixes:
    `import a.b.c` -> a, a.b, a.b.c;  `from a.b import c` -> a, a.b, a.b.c."""
    out: set = set()
    try:
        tree = ast.parse(src)
    except SyntaxError:
        return out
    for node in ast.walk(tree):
        names = []
        if isinstance(node, ast.Import):
            names = [a.name for a in node.names]
        elif isinstance(node, ast.ImportFrom) and node.module and not node.level:
            names = [node.module] + [f"{node.module}.{a.name}" for a in node.names]
        for nm in names:
            parts = nm.split(".")
            out.update(".".join(parts[: i + 1]) for i in range(len(parts)))
    return out


def _headline(d) -> str:
    return next((l for l in str(d[3]).split("\n") if l.strip()), "") if d is not None else ""


def module_attr_class(d, src):
    """`module 'a' has no attribute 'b'` is two different things, told apart by the program text: the program imports
    that very submodule (then the checker failed to load what the program asks for), or it never imports it (then the
    answer merely mirrors which submodules some earlier code happened to load into the shared package object).
    None if `d` is not such a diagnostic."""
    m = _MODATTR_RE.search(_headline(d))
    if not m:
        return None
    if src is not None and f"{m.group(1)}.{m.group(2)}" in imported_names(src):
        return "missing attribute of a package is a submodule that the program imports"
    if src is not None:
        return "missing attribute of a package, the program never imports such a submodule"
    return "missing attribute of a package"


def one_sided_class(d, src=None) -> str:
    """Class of a diagnostic that one run has and the other has not."""
    return module_attr_class(d, src) or ONE_SIDED


def _classify_pair(da, db, src=None):
    if db is None:
        return da[0], "content", one_sided_class(da, src), da, None
    ma, mb = str(da[3]), str(db[3])
    if module_attr_class(da, src) and module_attr_class(db, src):
        # the same attribute chain a.b.c fails at another link
        return da[0], "content", module_attr_class(da, src), da, db
    if _ADDR_RE.sub("0xADDR", ma) == _ADDR_RE.sub("0xADDR", mb):
        m = _ADDR_RE.search(ma)
        internal = text_inside_internal_repr(ma, m.start())
        if not internal:
            # repr() of a runtime object of the checked program (a fresh object on every import): the message shows a
            # value that the program itself computes differently on each run - not the checker's doing
            return "*", EXCUSED, "address in the repr of an object of the checked program", da, db
        return "*", "content", "object address in message text, repr of a pyanalyze-internal object", da, db
    ma, mb = _ADDR_RE.sub("0xADDR", ma), _ADDR_RE.sub("0xADDR", mb)
    if len(_PROTO_RE.findall(ma)) != len(_PROTO_RE.findall(mb)) and _PROTO_RE.sub("", ma) == _PROTO_RE.sub("", mb):
        # TypedValue.__str__ prints the member list only when the Value object's lazily-filled type object is there
        return "*", "content", "protocol member list shown or hidden", da, db
    if "(Protocol with members " in ma:
        # TypeObject.__str__ / the protocol check iterate the set TypeObject.protocol_members: whatever message embeds
        # a protocol type shows it
        pa, pb = _PROTO_RE.sub(_sort_proto, ma), _PROTO_RE.sub(_sort_proto, mb)
        if pa == pb:
            return "*", "listed-names-order", "protocol member list", da, db
        ha, hb = [next((l for l in x.split("\n") if l.strip()), "") for x in (pa, pb)]
        if ha == hb and "(Protocol with members " in ha:
            return "*", "content", "protocol member reported as the failing one", da, db
    la, lb = ma.split("\n"), mb.split("\n")
    if len(la) == len(lb):
        pairs = [(x, y) for x, y in zip(la, lb) if x != y]
        if pairs and all(_NOATTR_RE.match(x) and _NOATTR_RE.match(y) and _NOATTR_RE.match(x).group(1) == _NOATTR_RE.match(y).group(1)
                         for x, y in pairs):
            # the protocol check names the first member (in set order) that the value lacks
            return "*", "content", "protocol member reported as the failing one", da, db
    ha, hb = [next((l for l in x.split("\n") if l.strip()), "") for x in (ma, mb)]
    if ha == hb and ha.startswith("Revealed local types are") and sorted(la) == sorted(lb):
        # reveal_locals(): one `name: type` line per local, same lines in another order
        return da[0], "listed-names-order", "Revealed local types are: one line per name", da, db
    if ha != hb and canon_union(ha) == canon_union(hb):
        # the headline shows the same union in another order; the detail then names another member first
        return "*", "union-member-order", "", da, db
    ma, mb = canon_union(ma), canon_union(mb)
    if ma == mb or sorted(ma.split("\n")) == sorted(mb.split("\n")):
        # (members of a union, or the per-member detail lines of a message about a union)
        return "*", "union-member-order", "", da, db
    if ma != mb and _SET_RE.sub(_sort_set, ma) == _SET_RE.sub(_sort_set, mb):
        # repr() of a set / frozenset object of the checked program: CPython's own order, which depends on the hash seed
        # when members are str/bytes.  (A dict display keeps insertion order and is not touched here.)
        return "*", "listed-names-order", "repr of a set object", da, db
    if canon_names(ma) == canon_names(mb):
        return da[0], "listed-names-order", msg_class(da, db), da, db
    return da[0], "content", msg_class(da, db), da, db


_SET_RE = re.compile(r"\{[^{}\n]*\}")


def _sort_set(m) -> str:
    inner = m.group(0)[1:-1]
    items = split_top(inner, ", ")
    if any(re.search(r"^(?:[^'\"]|'[^']*'|\"[^\"]*\")*: ", it) for it in items):
        return m.group(0)  # a dict display
    return "{" + ", ".join(sorted(items)) + "}"


def _sort_proto(m) -> str:
    inner = m.group(0)[len(" (Protocol with members "):-1]
    return " (Protocol with members " + ", ".join(sorted(inner.split(", "))) + ")"


def text_inside_internal_repr(text: str, pos: int) -> bool:
    i = text.rfind("<pyanalyze.", 0, pos)
    return i >= 0 and text.rfind(">", i, pos) < 0


# codes emitted by one and the same loop are one mechanism (NameCheckVisitor._check_function_unused_vars)
CODE_GROUPS = {"unused_variable": "unused_variable/unused_assignment", "unused_assignment": "unused_variable/unused_assignment"}


def same_wrt(c, r_first, r_other, src=None) -> bool:
    """Do two renderings agree as far as the difference `c` is concerned (other nondeterminism in the same program
    must not confound the attribution of this one)?"""
    if c[1] == "order-of-diagnostics" or (c[3] is None and c[4] is None):
        return all(suffix_of(c2) != suffix_of(c) for c2 in classify_all(r_first, r_other, src=src))
    for d in (c[3], c[4]):
        if d is not None and (tuple(d) in {tuple(x) for x in r_first}) != (tuple(d) in {tuple(x) for x in r_other}):
            return False
    return True


def suffix_of(c) -> str:
    code, kind, cls = c[0], c[1], c[2]
    code = CODE_GROUPS.get(code, code)
    return f"{code}|{kind}" + (f"|{cls}" if cls else "")


def short_diag(d) -> str:
    if d is None:
        return "<absent>"
    lines = [l for l in str(d[3]).split("\n") if l.strip()]
    return f"{d[0]}@{d[1]}:{d[2]}: {(lines[0] if lines else '')[:220]}"


# ---------------------------------------------------------------------------
# environments


def env_desc(env: dict) -> str:
    return (f"seed={env['hashseed']},malloc={env.get('malloc') or 'default'},gc={'on' if env.get('gc', True) else 'off'},"
            f"junk={env.get('junk_import', 0)}/{env.get('junk_parse', 0)}")


def base_env() -> dict:
    return {"hashseed": BASE_SEED, "malloc": None, "gc": True, "junk_import": 0, "junk_parse": 0, "junk_seed": 0}


def layout_envs(rng: random.Random, n: int) -> list:
    out = []
    for i in range(n):
        e = base_env()
        e["junk_seed"] = rng.randrange(1 << 30)
        if i % 3 == 0:
            e.update(malloc="malloc", gc=False, junk_import=rng.randrange(1000, 200000), junk_parse=rng.randrange(100, 5000))
        elif i % 3 == 1:
            e.update(junk_import=rng.randrange(1000, 200000), junk_parse=rng.randrange(100, 5000))
        else:
            pass  # identical settings: ASLR alone
        if i >= 3 and i % 3 == 2:
            e.update(gc=False, junk_parse=rng.randrange(100, 5000))
        out.append(e)
    return out


def seed_envs(rng: random.Random, n: int) -> list:
    seeds = ["1", "2", "3"][:n]
    while len(seeds) < n:
        s = str(rng.randrange(4, 1 << 32))
        if s not in seeds:
            seeds.append(s)
    out = []
    for s in seeds:
        e = base_env()
        e["hashseed"] = s
        out.append(e)
    return out


class ChildFailed(Exception):
    pass


def run_child(env: dict, programs: list, repeat: int = 1, timeout: float = 3000.0) -> list:
    """programs: [{'src':..., 'mode':...}] -> per program a list of `repeat` renderings (tuples)."""
    return run_child_full(env, programs, repeat, timeout)["renderings"]


def run_child_groups(env: dict, groups: list, probe_modules=(), timeout: float = 3000.0):
    """groups: lists of programs, each list checked in order on one Checker in its own image of one interpreter (forked
    after importing pyanalyze, before anything is checked) -> (per group the list of renderings or None, preloaded)."""
    data = run_child_full(env, [], 1, timeout, groups=groups, probe_modules=list(probe_modules))
    return data["group_renderings"], data["preloaded"]


def run_child_full(env: dict, programs: list, repeat: int = 1, timeout: float = 3000.0, groups=None, probe_modules=None) -> dict:
    e = dict(os.environ)
    e["PYTHONHASHSEED"] = str(env["hashseed"])
    e["PYTHONPATH"] = f"{harness.REPO}:{HERE}"
    e["VERIF_REPO"] = harness.REPO
    e["PYTHONDONTWRITEBYTECODE"] = "1"
    e.pop("PYTHONMALLOC", None)
    if env.get("malloc"):
        e["PYTHONMALLOC"] = env["malloc"]
    job = {"junk_import": env.get("junk_import", 0), "junk_parse": env.get("junk_parse", 0), "gc": env.get("gc", True),
           "junk_seed": env.get("junk_seed", 0), "programs": programs, "repeat": repeat,
           "groups": groups or [], "probe_modules": probe_modules or []}
    try:
        p = subprocess.run([harness.PYTHON, "-m", "vp.c10_child"], input=json.dumps(job), cwd=HERE, env=e,
                           capture_output=True, text=True, timeout=timeout)
    except subprocess.TimeoutExpired:
        raise ChildFailed(f"timeout after {timeout}s")
    line = next((l for l in reversed(p.stdout.split("\n")) if l.startswith("C10RESULT ")), None)
    if line is None:
        raise ChildFailed(f"rc={p.returncode} no result; stderr tail: {p.stderr[-800:]}")
    data = json.loads(line[len("C10RESULT "):])
    assert data["hashseed"] == str(env["hashseed"]), data
    return {"renderings": [[_tup(r) for r in rs] for rs in data["renderings"]],
            "group_renderings": [None if g is None else [_tup(r) for r in g] for g in data.get("group_renderings", [])],
            "preloaded": data.get("preloaded", [])}


# ---------------------------------------------------------------------------
# in-process observation

_JUNK: list = []


def _junk(rng: random.Random) -> None:
    from vp.c10_child import make_junk

    _JUNK.append(make_junk(rng, rng.randrange(0, 3000)))
    if len(_JUNK) > 6:
        del _JUNK[rng.randrange(len(_JUNK))]


def check_inproc(src: str, mode: str, kw: dict):
    """One check with the given constructor kwargs (i.e. the given Checker). Raises if P itself fails to import."""
    return _tup(render(harness.run(src, kwargs=kw)))


def fresh_kwargs(mode: str) -> dict:
    return harness.constructor_kwargs(mode, fresh=True)


def inproc_repeats(src: str, mode: str, n: int, rng: random.Random, kw=None) -> list:
    kw = kw or fresh_kwargs(mode)
    out = []
    for _ in range(n):
        _junk(rng)
        out.append(check_inproc(src, mode, kw))
    return out


def repeat_diffs(rs: list, src=None) -> list:
    """Differences among runs on a WARM Checker. The first WARM_RUNS runs fill the fresh Checker's caches and the lazily
    filled fields of shared Value objects: a difference between rs[0] and rs[1] or rs[2] is an effect of the Checker's
    state (axis `history`, with P itself as the history), not of repetition as such."""
    out = []
    warm = rs[WARM_RUNS:]
    for r in warm[1:]:
        out.extend(classify_all(warm[0], r, src=src))
    return out


def reproduces_inproc(src: str, mode: str, suffix: str, n: int, rng: random.Random):
    """Try to see the difference `suffix` between two runs on ONE warm Checker in this process."""
    for c in repeat_diffs(inproc_repeats(src, mode, n, rng), src):
        if suffix_of(c) == suffix:
            return c
    return None


# ---------------------------------------------------------------------------
# the CLI


_ANSI = re.compile(r"\x1b\[[0-9;]*m")


def cli_run(cwd: str, args: list, names: list, tag: str) -> dict:
    """-> {file name: rendering}; a crashed invocation gives every file the rendering [<cli-crash>]."""
    out_json = os.path.join(cwd, f"out-{tag}.json")
    if os.path.exists(out_json):
        os.remove(out_json)
    p = harness.run_cli(["--json-output", out_json, *args], cwd=cwd, timeout=3000.0)
    err = _ANSI.sub("", p.stderr or "")
    if p.returncode not in (0, 1) or "Traceback (most recent call last)" in err:
        m = re.search(r"^((?:\w+\.)*\w*(?:Error|Exception|BrokenProcessPool)\b[^\n]*)", err, re.M)
        what = m.group(1).strip() if m else f"exit status {p.returncode}"
        crash = (("<cli-crash>", None, None, "\n" + what[:200]),)
        return {n: crash for n in names}
    per: dict = {n: [] for n in names}
    if os.path.exists(out_json):
        with open(out_json) as f:
            for fail in json.load(f):
                base = os.path.basename(str(fail.get("filename", "")))
                msg = str(fail.get("message", "")).replace(str(fail.get("filename", "\0")), base)
                per.setdefault(base, []).append((fail.get("code"), fail.get("lineno"), fail.get("col_offset"), msg))
    return {n: _tup(per.get(n, [])) for n in per}


def cli_compare(files: dict, workdir: str, singles: list):
    """files: name -> source. Returns list of (name, variant, classification, (argvA, argvB)); and #invocations."""
    os.makedirs(workdir, exist_ok=True)
    for name, src in files.items():
        with open(os.path.join(workdir, name), "w") as f:
            f.write(src)
    names = sorted(files)
    base = cli_run(workdir, ["."], names, "dir")
    n = 1
    diffs = []
    variants = [("parallel", ["--parallel", "."], names)] + [(f"single", [nm], [nm]) for nm in singles]
    for vname, args, vnames in variants:
        got = cli_run(workdir, args, vnames, vname + str(n))
        n += 1
        for nm in vnames:
            for c in classify_all(base.get(nm, ()), got.get(nm, ()), src=files.get(nm)):
                diffs.append((nm, vname, c, (["."], args)))
    return diffs, n


# ---------------------------------------------------------------------------
# corpus of one shard


class Prog:
    __slots__ = ("src", "family", "source", "mode", "rep", "hist", "child", "found", "ndiags")

    def __init__(self, src, family, source, mode="tests"):
        self.src, self.family, self.source, self.mode = src, family, source, mode
        self.rep: list = []
        self.hist: list = []   # (description, history sources, rendering)
        self.child: dict = {}  # env index -> rendering
        self.found: dict = {}  # suffix -> (axis, classification, extra witness fields)
        self.ndiags = 0


def build_corpus(ctx) -> list:
    from vp import illtyped, proggen

    rng = ctx.rng
    n_t, n_i, n_p, n_s = ctx.pick((16, 3, 3, 4), (56, 14, 14, 999))
    progs = []
    # every family at least once per 16 shards x ... : round-robin start, then weighted
    fams = [f[0] for f in corpus.FAMILIES]
    for k in range(n_t):
        if k < ctx.pick(5, 18):
            fam = fams[(ctx.shard * 5 + k + ctx.seed) % len(fams)]
            src = corpus.gen_family(fam, rng)
        else:
            fam, src = corpus.gen_targeted(rng)
        progs.append(Prog(src, fam, "targeted"))
    for _ in range(n_i):
        progs.append(Prog(illtyped.gen_program(rng), "illtyped", "illtyped"))
    for _ in range(n_p):
        src, _funcs, _prods = proggen.gen_module(rng)
        progs.append(Prog(corpus.with_reveals(src, rng), "proggen", "proggen"))
    snippets = corpus.extract_test_snippets(harness.REPO)
    mine = [s for i, s in enumerate(snippets) if ctx.mine(i)]
    if len(mine) > n_s:
        mine = rng.sample(mine, n_s)
    for origin, src in mine:
        progs.append(Prog(src, "snippet:" + origin.split(":")[0], "test-snippet"))
    # a few programs are checked with every code enabled
    for p in progs:
        if p.source in ("targeted", "illtyped") and rng.random() < 0.15:
            p.mode = "all"
    return progs


def module_state(src: str) -> dict:
    """repr of every module-level value after importing `src` (addresses normalised; one level into classes)."""
    mod = harness.make_module(src)
    try:
        out = {}
        for name, val in list(mod.__dict__.items()):
            if name.startswith("__"):
                continue
            if isinstance(val, type) and getattr(val, "__module__", None) == mod.__name__:
                for k, v in list(vars(val).items()):
                    if not k.startswith("__"):
                        out[f"{name}.{k}"] = _ADDR_RE.sub("0xADDR", harness.normalise_text(repr(v)))[:300]
            else:
                out[name] = _ADDR_RE.sub("0xADDR", harness.normalise_text(repr(val)))[:300]
        return out
    finally:
        harness.forget_module(mod)


def self_deterministic(src: str) -> bool:
    """Does the program compute the same module-level values on two imports (no clock, pid, random numbers ...)?"""
    try:
        return module_state(src) == module_state(src)
    except BaseException as e:  # noqa: BLE001
        if isinstance(e, (KeyboardInterrupt, SystemExit, MemoryError)):
            raise
        return True  # import failures are handled (and counted) by the caller


def lists_items(r) -> bool:
    return any(re.search(r"'\w+', '\w+'|\w+ \| \w+|Literal\[[^\]]*, ", str(d[3]).split("\nIn ")[0]) for d in r)


# ---------------------------------------------------------------------------
# the shard


def plan_envs(ctx, rng) -> list:
    """E0 (base seed, untouched layout); layouts with the base seed; other seeds; and for the first two other seeds a
    second interpreter with another layout (so that seed-determined and layout-determined can be told apart)."""
    seeds = seed_envs(rng, ctx.pick(5, 14))
    dups = []
    for e, lay in zip(seeds[: ctx.pick(2, 4)], layout_envs(rng, ctx.pick(2, 4))):
        d = dict(lay)
        d["hashseed"] = e["hashseed"]
        if not d.get("junk_import"):
            d.update(junk_import=rng.randrange(1000, 100000), junk_parse=rng.randrange(100, 3000))
        dups.append(d)
    return [base_env()] + layout_envs(rng, ctx.pick(3, 6)) + seeds + dups


def shard(ctx) -> None:
    rng = ctx.rng
    R = ctx.pick(8, 9)
    progs = []
    # (c) repeated runs on one fresh Checker; also validates that the program imports standalone
    for p in build_corpus(ctx):
        if p.source == "test-snippet" and not self_deterministic(p.src):
            # e.g. datetime.now() at module level: the program's own values change from import to import
            ctx.count("programs_rejected_own_nondeterminism")
            continue
        try:
            p.rep = inproc_repeats(p.src, p.mode, R, rng)
        except BaseException as e:  # noqa: BLE001  the program's own import failed
            if isinstance(e, (KeyboardInterrupt, SystemExit, MemoryError)):
                raise
            ctx.count("programs_rejected_import")
            ctx.histo("rejected_by_source", p.source)
            continue
        progs.append(p)
        ctx.count("inproc_repeat_runs", R)
    for pi, p in enumerate(progs):
        p.ndiags = len(p.rep[0])
        for c in repeat_diffs(p.rep, p.src):
            p.found.setdefault(suffix_of(c), ("repeat", c, {"attempts": R}))
        if any(c[1] == EXCUSED for r in p.rep[WARM_RUNS + 1:] for c in classify_all(p.rep[WARM_RUNS], r, keep_excused=True)):
            ctx.count("programs_with_excused_repr_of_own_runtime_object")
        # first run on the fresh Checker vs later runs: the history is P itself
        for k in range(1, WARM_RUNS):
            p.hist.append((f"self-{k}", [pi] * k, p.rep[k]))
            ctx.count("histories")

    # (d) histories: prefix order / warm-up + reverse order on one shared Checker each; plus related-program histories
    by_mode: dict = {}
    for i, p in enumerate(progs):
        by_mode.setdefault(p.mode, []).append(i)
    for mode, idxs in by_mode.items():
        for direction, order in (("prefix", idxs), ("warmup+reversed", idxs[::-1])):
            kw = fresh_kwargs(mode)
            done: list = []
            if direction != "prefix":
                # a well-typed program that uses the builtins / typeshed classes the corpus uses: fills the Checker's
                # caches (type objects, argspecs, protocol cache) and the lazily-filled fields of shared Value objects
                check_inproc(corpus.WARMUP, mode, kw)
                done.append(-1)
            for i in order:
                p = progs[i]
                _junk(rng)
                r = check_inproc(p.src, p.mode, kw)
                if done:
                    p.hist.append((f"{direction}-{len(done)}", list(done), r))
                    ctx.count("histories")
                done.append(i)
                ctx.count("history_programs_checked")
    n_rel = ctx.pick(3, 25)
    hlen = ctx.pick(5, 20)
    for i in rng.sample(range(len(progs)), min(n_rel, len(progs))):
        p = progs[i]
        same = [j for j in range(len(progs)) if j != i and progs[j].family == p.family and progs[j].mode == p.mode]
        others = [j for j in range(len(progs)) if j != i and progs[j].mode == p.mode and j not in same]
        H = (same + rng.sample(others, min(len(others), hlen)))[:hlen]
        rng.shuffle(H)
        kw = fresh_kwargs(p.mode)
        for j in H:
            check_inproc(progs[j].src, p.mode, kw)
            ctx.count("history_programs_checked")
        p.hist.append((f"related-{len(H)}", H, check_inproc(p.src, p.mode, kw)))
        ctx.count("histories")
        ctx.count("related_histories")

    # (a)/(b) fresh interpreters: one child per environment, each checking the whole list in the same order
    envs = plan_envs(ctx, rng)
    jobs = [{"src": p.src, "mode": p.mode} for p in progs]
    ok_envs = []
    for k, env in enumerate(envs):
        try:
            rs = run_child(env, jobs)
        except ChildFailed as e:
            ctx.count("child_failures")
            ctx.note(f"child {env_desc(env)} failed: {e}")
            continue
        ctx.count("child_environments")
        ctx.histo("child_env_kinds", f"seed={'base' if env['hashseed'] == BASE_SEED else 'other'}:malloc={env.get('malloc') or 'default'}:gc={env.get('gc', True)}:junk={'yes' if env.get('junk_import') else 'no'}")
        ok_envs.append(k)
        for p, r in zip(progs, rs):
            p.child[k] = r[0]
    groups: dict = {}
    for k in ok_envs:
        groups.setdefault(envs[k]["hashseed"], []).append(k)
    # one more interpreter with the base environment: warm-up program first, then the list in reverse order
    rev = None
    try:
        warm_jobs = [{"src": corpus.WARMUP, "mode": m} for m in sorted({p.mode for p in progs})]
        rs = run_child(base_env(), warm_jobs + jobs[::-1])
        rev = [r[0] for r in rs[len(warm_jobs):]][::-1]
        ctx.count("child_environments")
        ctx.count("histories", len(progs))
        for p, r in zip(progs, rev):
            p.child["rev"] = r
    except ChildFailed as e:
        ctx.count("child_failures")
        ctx.note(f"reversed-order child failed: {e}")

    def escalate(p, suf, first_seen):
        got = reproduces_inproc(p.src, p.mode, suf, ESCALATE_REPEATS, rng)
        ctx.count("inproc_repeat_runs", ESCALATE_REPEATS)
        ctx.count("escalations")
        if got is not None:
            p.found[suf] = ("repeat", got, {"attempts": ESCALATE_REPEATS, "first_seen": first_seen})
            return True
        return False

    # layout: interpreters with the same seed disagree
    for seed, ks in groups.items():
        for p in progs:
            for k in ks[1:]:
                for c in classify_all(p.child[ks[0]], p.child[k], src=p.src):
                    if suffix_of(c) in p.found:
                        continue
                    if not escalate(p, suffix_of(c), "layout"):
                        p.found[suffix_of(c)] = ("layout", c, {"envs": [envs[ks[0]], envs[k]]})
    # hashseed: interpreters with different seeds disagree (and those with the same seed agree)
    need_confirm: dict = {}
    if BASE_SEED in groups:
        k0 = groups[BASE_SEED][0]
        for seed, ks in groups.items():
            if seed == BASE_SEED:
                continue
            for pi, p in enumerate(progs):
                for c in classify_all(p.child[k0], p.child[ks[0]], src=p.src):
                    suf = suffix_of(c)
                    if suf in p.found or escalate(p, suf, "hashseed"):
                        continue
                    extra = {"envs": [envs[k0], envs[ks[0]]]}
                    if len(ks) > 1:
                        stable = all(same_wrt(c, p.child[ks[0]], p.child[k], p.src) for k in ks[1:])
                        p.found[suf] = ("hashseed" if stable else "layout", c, extra)
                    else:
                        p.found[suf] = ("hashseed", c, extra)
                        need_confirm.setdefault(ks[0], []).append((pi, suf))
        # seeds observed once only: one more interpreter with that seed, same program list (same histories)
        for k, items in sorted(need_confirm.items())[: ctx.pick(2, 4)]:
            env2 = dict(envs[k], junk_import=rng.randrange(1000, 100000), junk_parse=rng.randrange(100, 3000), junk_seed=rng.randrange(1 << 30))
            try:
                again = run_child(env2, jobs)
                ctx.count("child_environments")
                ctx.count("confirmation_children")
            except ChildFailed as e:
                ctx.note(f"confirmation child failed: {e}")
                continue
            for pi, suf in items:
                p = progs[pi]
                _, c, extra = p.found[suf]
                if not same_wrt(c, p.child[k], again[pi][0], p.src):
                    p.found[suf] = ("layout", c, extra)

    # history attribution. Candidates: (1) this process: first run on a fresh Checker vs the run after a history;
    # (2) fresh interpreters with the base environment: forward order vs warm-up + reversed order.
    confirmed_per_suffix: dict = {}

    def history_candidate(p, c, hsrcs, first_seen):
        suf = suffix_of(c)
        if suf in p.found:
            return
        if escalate(p, suf, first_seen):
            return
        if confirmed_per_suffix.get(suf, 0) >= ctx.pick(1, 3):
            ctx.count("history_candidates_not_confirmed_individually")
            return
        c2, hmin, n = history_experiment(p.src, p.mode, hsrcs, suf, minimise=True)
        ctx.count("child_environments", n)
        ctx.count("history_confirmation_children", n)
        if c2 is not None:
            confirmed_per_suffix[suf] = confirmed_per_suffix.get(suf, 0) + 1
            p.found[suf] = ("history", c2, {"history": hmin, "first_seen": first_seen})
        else:
            p.found[suf] = ("history", c, {"history": hsrcs[-6:], "first_seen": first_seen, "unconfirmed": True,
                                           "note": "seen in a used process after this history; not reproduced by [P] vs [H, P] in fresh interpreters nor by 30 warm repeats"})

    for pi, p in enumerate(progs):
        for desc, H, r in p.hist:
            for c in classify_all(p.rep[0], r, src=p.src):
                history_candidate(p, c, [j if isinstance(j, str) else corpus.WARMUP if j == -1 else progs[j].src for j in H], "history:" + desc.split("-")[0])
    if rev is not None and BASE_SEED in groups and groups[BASE_SEED][0] == 0:
        for pi, p in enumerate(progs):
            # history of P in the reversed interpreter: warm-up, then the programs after P in reverse order
            hs = [corpus.WARMUP] + [progs[j].src for j in range(len(progs) - 1, pi, -1) if progs[j].mode == p.mode]
            for c in classify_all(p.child[0], rev[pi], src=p.src):
                history_candidate(p, c, hs, "history:reversed-interpreter")

    # (d') histories whose leaked state would be the interpreter's own: never-executed imports
    isolated_history_experiments(ctx, rng, progs)

    # (e) the CLI, sampled
    if ctx.pick(ctx.shard % 4 == 0, True):
        scratch = os.environ.get("VERIF_SCRATCH") or os.path.join(HERE, "evidence-scratch")
        for g in range(ctx.pick(1, 2)):
            cands = [i for i, p in enumerate(progs) if p.source in ("targeted", "illtyped", "proggen")]
            chosen = rng.sample(cands, min(ctx.pick(4, 6), len(cands)))
            if g == 1:
                # a group without any diagnostic: the only case in which --parallel can be compared at all while its
                # workers cannot return failures
                files = {f"c10m_{ctx.shard}_{g}_{j}.py": f"def f{j}(x: int) -> int:\n    return x + {j}\n" for j in range(3)}
                owner: dict = {}
            else:
                files = {f"c10m_{ctx.shard}_{g}_{j}.py": progs[i].src for j, i in enumerate(chosen)}
                owner = {f"c10m_{ctx.shard}_{g}_{j}.py": i for j, i in enumerate(chosen)}
            # the LAST file (sorted order) has the longest history inside the directory run
            singles = sorted(files)[::-1][: ctx.pick(1, 2)]
            diffs, n = cli_compare(files, os.path.join(scratch, f"c10cli-{ctx.shard}-{g}"), singles)
            crash_culprit = None
            ctx.count("cli_invocations", n)
            ctx.count("cli_groups")
            ctx.count("cli_files", len(files))
            for nm, variant, c, argvs in diffs:
                suf = suffix_of(c)
                p = progs[owner[nm]] if nm in owner else None
                ctx.histo("cli_differences", f"{variant}:{suf}"[:120])
                if p is not None and suf in p.found and p.found[suf][0] != "file-order":
                    continue
                if p is not None and c[0] != "<cli-crash>":
                    if escalate(p, suf, "file-order"):
                        continue
                    before = [files[x] for x in sorted(files) if x < nm]
                    c2, hmin, n2 = history_experiment(p.src, "default", before, suf, minimise=True)
                    ctx.count("child_environments", n2)
                    if c2 is not None:
                        p.found[suf] = ("history", c2, {"history": hmin, "mode": "default", "first_seen": "file-order"})
                        continue
                wit_files = files
                if c[0] == "<cli-crash>":
                    # the invocation crashed as a whole: look for one file that crashes it on its own
                    if crash_culprit is None:
                        crash_culprit = {}
                    ck = (variant, suf)
                    if ck not in crash_culprit:
                        crash_culprit[ck] = files
                        for one in sorted(files):
                            d1, n1 = cli_compare({one: files[one]}, os.path.join(scratch, f"c10cli-{ctx.shard}-{g}-min-{one[:-3]}"), [])
                            ctx.count("cli_invocations", n1)
                            if any(suffix_of(x[2]) == suf for x in d1):
                                crash_culprit[ck] = {one: files[one]}
                                break
                    wit_files = crash_culprit[ck]
                    if nm not in wit_files:
                        continue  # reported once, with the file that causes it
                report(ctx, "file-order", c, {"files": wit_files, "cli": list(argvs), "variant": variant, "file": nm},
                       family=(p.family if p else "clean"), src=files[nm], mode="default")

    # report + evidence
    for p in progs:
        fam = p.family if p.source != "test-snippet" else "test-snippet"
        ctx.count("evaluations")
        ctx.count("programs")
        ctx.histo("programs_by_source", p.source)
        ctx.histo("programs_by_family", fam)
        ctx.histo("mode", p.mode)
        ctx.histo("diagnostics_per_program", str(min(p.ndiags, 10)) + ("+" if p.ndiags >= 10 else ""))
        for d in p.rep[0]:
            ctx.histo("codes_seen", str(d[0]))
        all_r = list(p.rep) + [h[2] for h in p.hist] + list(p.child.values())
        n_env = len(p.child) + 1 + len(p.hist)  # child interpreters + this process (fresh Checker) + histories
        ctx.count("environments_compared", n_env)
        ctx.count("renderings_obtained", len(all_r))
        nd = len(set(all_r))
        ctx.count("distinct_renderings", nd)
        ctx.histo("distinct_renderings_per_program", str(min(nd, 12)))
        ctx.histo("environments_per_program", str(n_env))
        if p.ndiags >= 2 or lists_items(p.rep[0]):
            ctx.nontrivial(p.src)
        if nd > 1:
            ctx.count("unstable_programs")
            ctx.histo("unstable_by_family", fam)
            if not p.found:
                # the only renderings that are not compared with each other are this process's and the child
                # interpreters' (this process has an unrecorded history: pyanalyze keeps state outside the Checker)
                ctx.count("programs_differing_only_between_this_process_and_children")
        else:
            ctx.count("stable_programs")
        for suf, (axis, c, extra) in sorted(p.found.items()):
            ctx.histo("findings_by_axis_family", f"{axis}|{suf.split('|')[1]}:{fam}")
            report(ctx, axis, c, extra, family=p.family, src=p.src, mode=extra.get("mode", p.mode))
        if len(ctx.samples) < 2 and p.ndiags >= 2:
            ctx.sample({"family": p.family, "source": p.src[:600], "environments": n_env, "distinct_renderings": nd})


CLEAR_TYPING = {"op": "clear-typing-caches"}


def isolated_history_experiments(ctx, rng, progs) -> None:
    """History experiments whose leaked state may belong to the interpreter (sys.modules, attributes of package objects,
    the caches of the typing module) rather than to a Checker: neither a fresh Checker nor this used process is a
    baseline for them, so every history is checked in its own image of ONE interpreter that has imported pyanalyze,
    built its Checker and checked nothing (c10_child.run_group_forked).

    (1) import pairs (P, H): P imports a standard-library submodule that nothing else has loaded, in a place that P's
        own top-level code never executes (only the checker resolves it), and uses it; H is an unrelated program that
        gets the same submodule loaded in its own way.  Images [P] and [H, P]; for a P that reaches a submodule without
        importing it also the attribution pair [P'] / [H, P'] (see via_unimported_submodule).
    (2) respelled twins: H = P itself with the members of every Union/Optional/Literal/`|` annotation written in another
        order (values that compare equal but print differently: whatever is cached under such a value leaks the spelling
        of whoever came first).  Images [P], [twin, P] and [twin, <typing caches emptied>, P]: a difference that the
        third image still shows is held by pyanalyze; one that only the second shows came through the typing module's
        cache of generic aliases (see via_typing_cache).
    A difference is re-tried as `repeat` (once per kind of difference and shard) before it is reported as `history`."""
    n = ctx.pick(6, 30)
    mode = "tests"
    pairs = [corpus.gen_import_pair(rng, ctx.shard * n + k, ctx.seed) for k in range(n)]
    groups = []
    alts: dict = {}
    for k, (P, H, _target, _desc) in enumerate(pairs):
        groups.append([{"src": P, "mode": mode}])
        groups.append([{"src": H, "mode": mode}, {"src": P, "mode": mode}])
    for k, (P, H, _target, _desc) in enumerate(pairs):
        alt = importing_variant(P)
        if alt is not None:
            alts[k] = (len(groups), alt)
            groups.append([{"src": alt, "mode": mode}])
            groups.append([{"src": H, "mode": mode}, {"src": alt, "mode": mode}])
    prio = {"generic-union-spelling": 0, "literal-union": 1, "proggen": 1, "illtyped": 1, "typevar": 2, "or-isinstance": 2}
    order = sorted(range(len(progs)), key=lambda i: (prio.get(progs[i].family, 3), rng.random()))
    twins = []
    for i in order:
        if len(twins) >= ctx.pick(3, 12):
            break
        twin = corpus.respelled_twin(progs[i].src)
        if twin is not None:
            p = progs[i]
            P, T = {"src": p.src, "mode": p.mode}, {"src": twin, "mode": p.mode}
            twins.append((i, twin, len(groups)))
            groups += [[P], [T, P], [T, CLEAR_TYPING, P]]
    try:
        res, preloaded = run_child_groups(base_env(), groups, probe_modules=sorted({t for _, _, t, _ in pairs}))
    except ChildFailed as e:
        ctx.count("child_failures")
        ctx.note(f"isolated-history interpreter failed: {e}")
        return
    ctx.count("child_environments")
    done: dict = {}

    def attribute_and_report(c, src, pmode, family, extra) -> None:
        """`c` was seen between two images; try the finer axis once per kind of difference, then report."""
        suf = suffix_of(c)
        # one budget per mechanism: whatever diagnostic carries an attributed difference, it is reported under one key
        tag = "via-typing-cache" if extra.get("via_typing_cache") else "via-unimported" if extra.get("via_unimported") else suf
        if done.get(tag, 0) >= ctx.pick(1, 2):
            # the same difference has been attributed and reported for another case of this shard
            ctx.count("isolated_differences_not_reported_individually")
            return
        got = reproduces_inproc(src, pmode, suf, ESCALATE_REPEATS, rng)
        ctx.count("inproc_repeat_runs", ESCALATE_REPEATS)
        ctx.count("escalations")
        if got is not None:
            report(ctx, "repeat", got, {"attempts": ESCALATE_REPEATS, "first_seen": extra.get("first_seen")}, family=family, src=src, mode=pmode)
            return
        # the two images ARE the clean experiment [P] vs [H, P]; replay() repeats it in separately started interpreters
        done[tag] = done.get(tag, 0) + 1
        report(ctx, "history", c, extra, family=family, src=src, mode=pmode)

    for k, (P, H, target, desc) in enumerate(pairs):
        a, b = res[2 * k], res[2 * k + 1]
        if a is None or b is None:
            ctx.count("isolated_images_died")
            continue
        rA, rB = a[-1], b[-1]
        ctx.count("evaluations")
        ctx.count("import_pairs")
        ctx.count("interpreter_images", 2)
        ctx.count("histories")
        ctx.count("environments_compared", 2)
        form, rest = desc.split("/", 1)
        ctx.histo("import_pair_program_form", form)
        ctx.histo("import_pair_place_shape", rest.split(" after ")[0])
        ctx.histo("import_pair_history_form", desc.split(" after ")[1])
        ctx.histo("import_pair_submodule", target)
        ctx.histo("import_pair_diagnostics_alone", str(min(len(rA), 5)))
        if _is_pseudo(b[0]):
            ctx.count("import_pair_history_program_failed")
        if target not in preloaded:
            ctx.count("import_pairs_submodule_not_preloaded")
            ctx.nontrivial(P + "\0" + H)
        for c in classify_all(rA, rB, src=P):
            ctx.histo("import_pair_differences", f"{desc}: {suffix_of(c)}"[:160])
            extra = {"history": [H], "first_seen": "import-pair: " + desc, "submodule": target, "via_typing_cache": False}
            if k in alts:
                g, alt = alts[k]
                ctx.count("interpreter_images", 2)
                if res[g] is not None and res[g + 1] is not None and not _is_pseudo(res[g][-1]):
                    extra["via_unimported"] = not classify_all(res[g][-1], res[g + 1][-1], src=alt)
                    ctx.histo("import_pair_attribution_experiment", "difference vanishes when the program imports what it uses" if extra["via_unimported"] else "difference stays")
            attribute_and_report(c, P, mode, "never-executed-import", extra)

    for i, twin, g in twins:
        p = progs[i]
        if any(res[g + x] is None for x in range(3)):
            ctx.count("isolated_images_died")
            continue
        rA, rB, rC = res[g][-1], res[g + 1][-1], res[g + 2][-1]
        if _is_pseudo(rA) or _is_pseudo(res[g + 1][0]):
            ctx.count("twins_rejected_import")
            continue
        ctx.count("twin_histories")
        ctx.count("histories", 2)
        ctx.count("interpreter_images", 3)
        ctx.count("environments_compared", 3)
        fam = p.family if p.source != "test-snippet" else "test-snippet"
        ctx.histo("twin_histories_by_family", fam)
        held = classify_all(rA, rC, src=p.src)
        for c in held:
            ctx.histo("twin_differences", f"{fam}: {suffix_of(c)} (typing caches emptied)"[:160])
            attribute_and_report(c, p.src, p.mode, p.family, {"history": [twin], "first_seen": "respelled twin, typing caches emptied before P",
                                                               "via_typing_cache": False, "via_unimported": False, "clear_typing_caches": True})
        held_sufs = {suffix_of(c) for c in held}
        for c in classify_all(rA, rB, src=p.src):
            if suffix_of(c) in held_sufs:
                continue
            ctx.histo("twin_differences", f"{fam}: {suffix_of(c)} (gone when typing caches are emptied)"[:160])
            attribute_and_report(c, p.src, p.mode, p.family, {"history": [twin], "first_seen": "respelled twin", "via_typing_cache": True, "via_unimported": False})


def history_experiment(src: str, mode: str, hsrcs: list, suffix, minimise: bool = False, budget: int = 4):
    """Clean experiment in fresh interpreters (pyanalyze keeps state in shared Value objects that outlive a Checker, so a
    `fresh Checker` inside a used process is not a clean baseline):  interpreter A checks [P];  interpreter B checks
    [H..., P] on one Checker.  Returns (classification or None, history used, #interpreters)."""
    P = {"src": src, "mode": mode}
    n = 0
    try:
        rA = run_child(base_env(), [P])[0][0]
        n += 1
    except ChildFailed:
        return None, hsrcs, n
    cands: list = []
    if minimise:
        twin = corpus.respelled_twin(src)
        if twin is not None:
            # the most related history there is: the program itself, unions written in another member order
            cands.append([twin])
        if corpus.WARMUP in hsrcs:
            cands.append([corpus.WARMUP])
        for h in hsrcs[::-1][:2]:
            if [h] not in cands:
                cands.append([h])
    if list(hsrcs) not in cands:
        cands = cands[: budget - 1] + [list(hsrcs)]
    for Hc in cands[:budget]:
        try:
            rB = run_child(base_env(), [{"src": h, "mode": mode} for h in Hc] + [P])[-1][0]
            n += 1
        except ChildFailed:
            continue
        for c in classify_all(rA, rB, src=src):
            if suffix is None or suffix_of(c) == suffix:
                return c, Hc, n
    return None, hsrcs, n


class _SetsToTuples(ast.NodeTransformer):
    """every set display / set(...) / frozenset(...) call of the program becomes a tuple display / tuple(...) call"""

    def visit_Set(self, node):
        self.generic_visit(node)
        return ast.copy_location(ast.Tuple(elts=node.elts, ctx=ast.Load()), node)

    def visit_Call(self, node):
        self.generic_visit(node)
        if isinstance(node.func, ast.Name) and node.func.id in ("set", "frozenset"):
            node.func = ast.copy_location(ast.Name(id="tuple", ctx=ast.Load()), node.func)
        return node


def _without_sets(src: str):
    try:
        tree = ast.parse(src)
        new = ast.unparse(ast.fix_missing_locations(_SetsToTuples().visit(tree))) + "\n"
        return new if new != ast.unparse(ast.parse(src)) + "\n" else None
    except Exception:  # noqa: BLE001
        return None


def via_set_object(src: str, mode: str, c, envs) -> bool:
    """Attribution experiment for a hash-seed dependent difference: does it vanish (same two environments) when the
    checked program's own set objects are replaced by tuples?  Then pyanalyze merely iterated a set OBJECT OF THE
    CHECKED PROGRAM (CPython's order for it depends on the seed) - a different mechanism from pyanalyze building a
    set of its own."""
    alt = _without_sets(src)
    if alt is None or not envs or len(envs) < 2:
        return False
    try:
        ra = run_child(envs[0], [{"src": alt, "mode": mode}])[0][0]
        rb = run_child(envs[1], [{"src": alt, "mode": mode}])[0][0]
    except (ChildFailed, Exception):  # noqa: BLE001
        return False
    return all(x[1] != c[1] for x in classify_all(ra, rb, src=src))


def _is_module_path(dotted: str) -> bool:
    import importlib.util

    try:
        return importlib.util.find_spec(dotted) is not None
    except Exception:  # noqa: BLE001  (parent is not a package, broken finder ...)
        return False


def unimported_submodule_uses(src: str) -> list:
    """Dotted module paths a.b[.c] that the program reaches by attribute access through a package name bound by a plain
    `import a[.x]` statement, without ever importing a.b[.c] itself."""
    try:
        tree = ast.parse(src)
    except SyntaxError:
        return []
    imported = imported_names(src)
    roots = {a.name.split(".")[0] for n in ast.walk(tree) if isinstance(n, ast.Import) for a in n.names if a.asname is None}
    out: set = set()
    for node in ast.walk(tree):
        parts: list = []
        cur = node
        while isinstance(cur, ast.Attribute):
            parts.append(cur.attr)
            cur = cur.value
        if not parts or not isinstance(cur, ast.Name) or cur.id not in roots:
            continue
        parts = [cur.id] + parts[::-1]
        for i in range(2, len(parts) + 1):
            prefix = ".".join(parts[:i])
            if prefix in imported:
                continue
            if prefix in out or _is_module_path(prefix):
                out.add(prefix)
            else:
                break
    return sorted(out)


def importing_variant(src: str):
    """The program plus module-level imports (appended at the end: no position changes) of every submodule that it
    reaches through a package object without importing it; None if there is none."""
    mods = unimported_submodule_uses(src)
    if not mods:
        return None
    return src + ("" if src.endswith("\n") else "\n") + "".join(f"import {m}\n" for m in mods)


def via_unimported_submodule(src: str, mode: str, c, history) -> bool:
    """Attribution experiment for a history-dependent difference: does it vanish when the program is made to import,
    itself, every submodule that it reaches through a package object without importing it (module-level imports appended
    at the end: no position changes)?  Then the diagnostics merely mirrored whether EARLIER code had loaded those
    submodules into the shared package objects - one mechanism whatever diagnostic carries it (undefined_attribute on
    the package, or a silent Any where the package has a module-level __getattr__)."""
    alt = importing_variant(src)
    if alt is None or not history:
        return False
    P = {"src": alt, "mode": mode}
    try:
        res, _ = run_child_groups(base_env(), [[P], [{"src": h, "mode": mode} for h in history] + [P]])
    except (ChildFailed, Exception):  # noqa: BLE001
        return False
    if res[0] is None or res[1] is None or _is_pseudo(res[0][-1]):
        return False
    return not classify_all(res[0][-1], res[1][-1], src=alt)


VIA_UNIMPORTED = "history|*|content|via:submodule-that-the-checked-program-never-imports"
VIA_TYPING = "history|*|union-member-order|via:typing-module-cache-of-generic-aliases"


def via_typing_cache(src: str, mode: str, c, history) -> bool:
    """Attribution experiment for a history-dependent difference of a program that writes unions inside typing generics:
    [P] vs [H, P] shows it, [H, <typing caches emptied>, P] does not.  Then no state of pyanalyze is involved: typing's
    `List[X]`, `Tuple[X, ...]`, `Union[X, Y]` return the alias object created for the first EQUAL argument list
    (`int | str == str | int`), so P's own annotation objects carry the spelling of whoever evaluated an equal
    annotation first in this interpreter, and pyanalyze (which evaluates annotations through these run-time objects)
    prints that spelling."""
    if not history or corpus.respelled_twin(src) is None:
        return False
    P = {"src": src, "mode": mode}
    H = [{"src": h, "mode": mode} for h in history]
    try:
        res, _ = run_child_groups(base_env(), [[P], H + [P], H + [CLEAR_TYPING, P]])
    except (ChildFailed, Exception):  # noqa: BLE001
        return False
    if any(r is None for r in res) or _is_pseudo(res[0][-1]):
        return False
    suf = suffix_of(c)
    shows = any(suffix_of(x) == suf for x in classify_all(res[0][-1], res[1][-1], src=src))
    return shows and not classify_all(res[0][-1], res[2][-1], src=src)


def report(ctx, axis: str, c, extra: dict, family: str, src: str, mode: str = "tests") -> None:
    code, kind, cls, da, db = c
    key = f"{axis}|{suffix_of(c)}"
    if axis == "history" and kind == "content":
        via = extra.get("via_unimported")
        if via is None:
            via = via_unimported_submodule(src, mode, c, extra.get("history"))
        if via:
            key = VIA_UNIMPORTED
    if axis == "history" and key != VIA_UNIMPORTED and not extra.get("clear_typing_caches"):
        via = extra.get("via_typing_cache")
        if via is None:
            via = via_typing_cache(src, mode, c, extra.get("history"))
        if via:
            key = VIA_TYPING
    if axis == "hashseed" and kind in ("union-member-order", "listed-names-order", "order-of-diagnostics") \
            and cls != "repr of a set object" and via_set_object(src, mode, c, extra.get("envs")):
        key += "|via:set-object-of-the-checked-program"
    wit = {"axis": axis, "source": src, "mode": mode, "family": family, "expect": suffix_of(c),
           "first_diff": [list(da) if da else None, list(db) if db else None]}
    wit.update(extra)
    where = {"repeat": "two consecutive runs in one process on one Checker",
             "layout": "two fresh interpreters with the same PYTHONHASHSEED", "hashseed": "two PYTHONHASHSEED values",
             "history": "fresh Checker vs Checker that had checked other programs", "file-order": "CLI on the directory vs " + str(extra.get("variant"))}[axis]
    envs = extra.get("envs")
    what = (f"{where}{' (' + env_desc(envs[0]) + ' vs ' + env_desc(envs[1]) + ')' if envs else ''}: {kind}; "
            f"{short_diag(da)}  <>  {short_diag(db)}  [family {family}]")
    ctx.violation(key, what, wit)


# ---------------------------------------------------------------------------
# replay


def replay(witness):
    """Re-run the witness under up to REPLAY_ATTEMPTS attempts/environments; the finer axes are tried first so that the
    key is the one `shard` would give."""
    src = witness["source"]
    mode = witness.get("mode", "tests")
    want = witness.get("expect")
    axis = witness.get("axis", "repeat")
    rng = random.Random(digest(src))
    found: dict = {}

    def add(ax, c, extra):
        found.setdefault(suffix_of(c), (ax, c, extra))

    def result():
        if not found:
            return None
        suf = want if want in found else sorted(found)[0]
        ax, c, extra = found[suf]
        from vp.core import Ctx

        out = Ctx(ID, "quick", 0, 0, 1)
        report(out, ax, c, extra, family=witness.get("family", "?"), src=src, mode=mode)
        for key, lst in out.violations.items():
            return key, lst[0]["what"]

    if axis == "file-order":
        import shutil

        files = witness["files"]
        workdir = os.path.join(os.environ.get("VERIF_SCRATCH") or os.path.join(HERE, "evidence-scratch"), f"c10replay-{digest(files)}-{os.getpid()}")
        try:
            diffs, _ = cli_compare(files, workdir, sorted(files)[::-1][:2])
        finally:
            shutil.rmtree(workdir, ignore_errors=True)
        for nm, variant, c, argvs in diffs:
            if c[0] != "<cli-crash>":
                got = reproduces_inproc(files[nm], "default", suffix_of(c), ESCALATE_REPEATS, rng)
                if got is not None:
                    add("repeat", got, {"attempts": ESCALATE_REPEATS})
                    continue
                c2, hmin, _n = history_experiment(files[nm], "default", [files[x] for x in sorted(files) if x < nm], suffix_of(c))
                if c2 is not None:
                    add("history", c2, {"history": hmin})
                    continue
            add("file-order", c, {"files": files, "cli": list(argvs), "variant": variant, "file": nm})
        return result()

    # repeat: always tried first
    try:
        rs = inproc_repeats(src, mode, REPLAY_ATTEMPTS, rng)
    except Exception:  # noqa: BLE001
        return None
    for c in repeat_diffs(rs, src):
        add("repeat", c, {"attempts": REPLAY_ATTEMPTS})
    if axis == "repeat" or (want in found):
        return result()
    if axis == "history":
        for _ in range(3):
            c, hmin, _n = history_experiment(src, mode, witness.get("history", []), want)
            if c is not None:
                add("history", c, {"history": hmin})
                break
        return result()
    # layout / hashseed: the two recorded environments, then more layouts with the first seed, then more seeds
    envs = [dict(e) for e in witness.get("envs", [])] or [base_env()]
    b = envs[0]
    lay = [dict(e, hashseed=b["hashseed"]) for e in layout_envs(rng, 3)]
    more_seeds = [dict(b, hashseed=e["hashseed"]) for e in seed_envs(rng, 5) if e["hashseed"] not in {x["hashseed"] for x in envs}]
    job = [{"src": src, "mode": mode}]

    def child(e):
        try:
            return run_child(e, job)[0][0]
        except ChildFailed:
            return None

    r0 = child(b)
    if r0 is None:
        return None
    for e in lay:
        r = child(e)
        for c in (classify_all(r0, r, src=src) if r is not None else []):
            if suffix_of(c) not in found:
                add("layout", c, {"envs": [b, e]})
    if want in found:
        return result()
    for e in envs[1:] + more_seeds:
        r = child(e)
        r2 = None
        for c in (classify_all(r0, r, src=src) if r is not None else []):
            if suffix_of(c) in found:
                continue
            if e["hashseed"] == b["hashseed"]:
                add("layout", c, {"envs": [b, e]})
                continue
            if r2 is None:
                r2 = child(dict(e, junk_import=5000, junk_parse=500, junk_seed=7)) or r
            add("hashseed" if same_wrt(c, r, r2, src) else "layout", c, {"envs": [b, e]})
        if want in found:
            break
    return result()
