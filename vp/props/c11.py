"""C11 — suppression and enabling are a pure projection of the diagnostics.

Monitor (differential observation under perturbation, judged by set algebra only — no model of pyanalyze):

  D(P)            diagnostics of an ill-typed generated program, a multiset of (code, line, col, description)
  disabling       D(P | disable S)  ==  {d in D(P): code(d) not in S}          for S subset of codes(P), through
                    settings (what --disable builds), [tool.pyanalyze] `code = false`, a [[tool.pyanalyze.overrides]]
                    section matching the module, disable_all + re-enable in each of the three, and the real CLI
  ignore comment  D(P + comment)    ==  map(D(P)) minus exactly the targeted diagnostics
                                        + unused_ignore iff nothing was suppressed + bare_ignore iff bare
  interaction     the same disabling law with EVERY error code enabled in the baseline, for every single code c
                    (whether or not D(P) has a diagnostic of c) and small subsets, over a corpus of functions whose local
                    is mentioned only inside string literals with braces / formatted strings / string annotations /
                    del / global / decorators / closures ...: one check's bookkeeping feeding another check's verdict

Mechanism keys (DESIGN Appendix A):
  disable|<route>|<direction>                              direction: under-suppressed / over-suppressed / new-diagnostic
  disable-any|<direction>|culprit:<code(s)>                a diagnostic of ANOTHER code appeared / disappeared when <code> was
                                                           disabled (S reduced to the single code that suffices)
  disable-any|<route>|under-suppressed                     a diagnostic of the disabled code survived
  comment|<form>|<sel>|<position>|<direction>
      form      trailing / own-line / file-level
      sel       the "coded?" feature expressed as what it means for the failing diagnostic: `sel` = the comment is bare
                or names the diagnostic's code, `unsel` = the comment names a different code, `-` = not about one diagnostic
                (so the one defect seen through a bare and through a coded comment is one key, while a defect of the
                code filter itself is another)
      position  of the affected diagnostic relative to the comment line: same / next / prev / wraps-to-last-line
                (comment on the last line, diagnostic on line 1) / other / file / -
      direction over-suppressed / under-suppressed / new-diagnostic / unused-reported-though-it-suppressed /
                unused-not-reported-though-nothing-suppressed / bare-ignore-missing / bare-ignore-spurious /
                stray-ignore-report
  header|<placement>|<sel>|<direction>                     a generated file header (1-3 ignore markers + ordinary lines) in
                                                           front of P; the clause that failed is named by the marker it is about
      placement file-level:only / file-level:first / file-level:later (ordinal of the marker among the markers of the
                leading comment block) / own-line-after-block (a marker line below the line that ended the block) /
                out-of-scope (the affected diagnostic is in no marker's scope) / -
      sel       sel = the marker is bare or names the diagnostic's code, unsel = the diagnostic's line is in the
                marker's scope but the marker names other codes, - = not about one diagnostic
      direction as above, plus duplicate-ignore-report
  comment|post-check-diagnostic|<direction>                command-line route; the clause failed on a diagnostic that is not
                                                           among those NameCheckVisitor.check() returns (it is produced when the
                                                           whole run is over): one mechanism whatever the comment form
"""
from __future__ import annotations

import gc
import io
import itertools
import json
import linecache
import os
import random
import re
import sys
import tokenize
import types
from collections import Counter
from pathlib import Path
from typing import Optional

from vp import harness
from vp.core import digest
from vp.illtyped import gen_program_info

from pyanalyze.error_code import DISABLED_IN_TESTS, ErrorCode
from pyanalyze.name_check_visitor import NameCheckVisitor

ID = "C11"
LEVEL = "exploration"
TECHNIQUE = "differential observation under perturbation (disable routes, ignore-comment placements); set-algebra oracle"
RULE = (
    "program = vp.illtyped.gen_program (3-12 diagnostics, >=3 codes, diagnostics on line 1 / last line / several per "
    "line / inside multi-line constructs), kept only if pyanalyze really reports 3-12 diagnostics of >=3 codes. "
    "Disable cases = (program, S, route): every S subset of codes(P) (|codes|<=6, else 64 random) through a matching "
    "[[overrides]] section (exact and prefix module match) and through an overrides section with disable_all + re-enable; "
    "every singleton plus random subsets through settings (--disable), top-level `code = false`, --disable-all + --enable, "
    "top-level disable_all + `code = true`; a few through the real CLI. Comment cases = (program, physical line, "
    "trailing | own-line-before, bare | [each code on the target line] | [a code elsewhere in P] | [a code not in P]) "
    "for every line where tokenize shows the insertion leaves the token stream unchanged, plus an own-line comment "
    "after the last line, plus leading (file-level) placements. File headers = (program, header) with header = "
    "g0 m1 g1 [m2 g2 [m3 g3]] put in front of P: the marker sequence m1..mk walks through ALL 84 sequences of length 1-3 "
    "over {bare, [a code of D(P), a different one per marker], [a code not in D(P)], [two codes]} (every order; 42 per "
    "program, rotating), the gaps g are drawn from {nothing, comment, '#' + comment, blank line, blank + comment, "
    "docstring} and g0 also from {shebang, coding line, shebang + coding, shebang + comments, comment + blank}: markers "
    "in the leading comment block (whole-file scope) in first / later position, markers below a blank line or a "
    "docstring that ended the block (own-line scope: the next physical line, which is P's first line, another marker "
    "or a comment), ordinary comment / shebang / coding lines that do not end the block. Post-check diagnostics = P + a "
    "class whose method reads an attribute nothing sets (reported by the attribute checker when the whole run is over, "
    "so only the command line shows it), comment aimed at that read: trailing / own-line / file-level x bare / its code / "
    "another code, on the real command line (4 shards x 3 forms in quick). Non-trivial = disable case with {} != S != codes(P); "
    "comment case whose target line carries a diagnostic or which is a boundary placement (line 1, last line, EOF, line "
    "after a multi-diagnostic line, leading); header case with >= 2 markers or a marker whose scope holds a diagnostic. "
    "Distinct by (program digest, route, S) / (program digest, form, line, comment) / (program digest, header lines). "
    "Per program also 2 singletons of codes WITHOUT a diagnostic in D(P) through the override routes. Interaction corpus: "
    "functions = (15 ways to bind a local: assignment, annotated, reassigned, in a branch, maybe-unbound, unpacking, for, "
    "with, import, walrus, augmented, nested def, parameter, global) x (50 ways to mention it without reading it: inside "
    "the braces of a plain string - returned, passed, stored, with conversion / attribute / subscript / expression, next "
    "to an unknown name, doubled braces, .format(keyword / **locals()) / format_map, template call with and without the "
    "keyword, expression statement, bytes, implicit concatenation, triple-quoted, literal part of an f-string, "
    "%-formatting - string annotations of variables / parameters / returns, cast('name'), del, decorator, locals(), "
    "eval, closure, lambda, class body, comprehension, assert message, dict key, default argument, comment, plus "
    "controls: no mention, a real read, a real f-string) x (def, async def, method, staticmethod, nested def), as a "
    "Latin-square grid of 15 parts of 50 functions (quick: 3 parts chosen by the seed; thorough: all). Every code is "
    "enabled in the baseline; S = {c} for EVERY error code c through settings (all parts) and through top-level "
    "`c = false` / an [[overrides]] section (alternating), random 2-4-subsets of all codes, the complement of codes(P), "
    "and --enable-all -d c on the real command line. Non-trivial: every such case (D(P) non-empty, S != {})."
)
ASSUMPTIONS = [
    "diagnostics are compared as multisets of (code, lineno, col_offset, description); message/context text is not compared",
    "the module name is abstracted out of descriptions (the override route needs per-subset module names)",
    "one Checker per configuration is shared by the runs that use that configuration (a fresh module object per run); "
    "history effects of sharing are C10's subject",
    "statement: trailing comment -> diagnostics on its own physical line; own-line comment -> diagnostics on the next "
    "physical line; an own-line comment preceded only by '#' lines is a leading file-level comment: it suppresses the "
    "whole file, of the named code or of all codes when bare (the scope is the whole file, the code filter is the one "
    "the statement gives every ignore comment); bare_ignore on a bare file-level comment is observed, not judged "
    "(documented as allowed)",
    "file headers with several markers: every diagnostic in the scope of a bare / single-code marker must be gone and "
    "nothing else; 'suppressed nothing' for one marker is decided only where it does not depend on how a diagnostic "
    "covered by several markers is attributed: a marker none of whose in-scope diagnostics disappeared must be "
    "reported unused, and for a diagnostic that disappeared at least one of the markers covering it must not be "
    "reported unused; a marker naming several codes ('[a, b]') is not a form the statement defines: what it suppresses "
    "itself (nothing, or diagnostics of its codes in its scope) is observed, everything else in such a file is judged; "
    "under a bare file-level marker (whole file suppressed) unused_ignore / bare_ignore reports about the OTHER markers "
    "are observed, not judged (they are diagnostics of the suppressed file)",
    "'suppressed nothing' is decided on what was observed: no diagnostic of D(P) is missing from D(P + comment)",
    "diagnostics produced after check() returns (ClassAttributeChecker) are not observable through harness.run; they are "
    "judged on the CLI route only, for the one appended class (a diagnostic counts as 'post-check' when the command line "
    "reports it and NameCheckVisitor.check() on the same text does not)",
    "interaction corpus: base run and disabled run happen in one process (same hash seed), so an iteration-order "
    "dependent verdict of pyanalyze (a set of names walked with all()) is the same in both",
]
FLOORS = {   # ~50 % of what the unchanged tree yields (quick: 160 programs, thorough: 1600)
    "quick": {"distinct_nontrivial": 14000, "programs": 80, "disable_cases": 7300, "disable_cases_nontrivial": 6900,
              "comment_cases": 10300, "comment_cases_target_has_diag": 1900, "comment_suppressed_something": 2150,
              "eof_own_line_cases": 240, "file_level_bare_cases": 90, "fresh_checker_configs": 400, "cli_runs": 16,
              "disable_cases_foreign_code": 320, "interaction_cases": 200, "interaction_cases_code_not_in_D(P)": 160,
              "interaction_functions": 75, "interaction_functions_mention_counts_as_use": 28,
              "interaction_functions_brace_mention_counts_as_use": 15, "interaction_cli_cases": 4,
              "header_cases": 3300, "header_cases_2plus_markers_in_block": 1900,
              "header_cases_diag_covered_only_by_later_marker": 900, "header_cases_bare_marker_after_another_in_block": 700,
              "header_cases_marker_after_block_end": 1600, "header_cases_own_line_marker_hits_first_line_of_P": 150,
              "header_suppressed_proper_part": 850, "header_reported_unused": 2000,
              "post_check_cases": 6, "post_check_cases_aimed_at_late_diagnostic": 5},
    "thorough": {"distinct_nontrivial": 135000, "programs": 800, "disable_cases": 75000, "disable_cases_nontrivial": 72000,
                 "comment_cases": 105000, "comment_cases_target_has_diag": 19000, "comment_suppressed_something": 21500,
                 "eof_own_line_cases": 2400, "file_level_bare_cases": 880, "fresh_checker_configs": 4800, "cli_runs": 72,
                 "disable_cases_foreign_code": 3200, "interaction_cases": 850, "interaction_cases_code_not_in_D(P)": 650,
                 "interaction_functions": 375, "interaction_functions_mention_counts_as_use": 140,
                 "interaction_functions_brace_mention_counts_as_use": 70, "interaction_cli_cases": 16,
                 "header_cases": 33000, "header_cases_2plus_markers_in_block": 19000,
                 "header_cases_diag_covered_only_by_later_marker": 9000, "header_cases_bare_marker_after_another_in_block": 7000,
                 "header_cases_marker_after_block_end": 16000, "header_cases_own_line_marker_hits_first_line_of_P": 1500,
                 "header_suppressed_proper_part": 8500, "header_reported_unused": 20000,
                 "post_check_cases": 48, "post_check_cases_aimed_at_late_diagnostic": 40},
}
LEVEL_TEXT = (
    "held-on-explored: every (program, S, route) and every admissible comment placement of the generated programs was "
    "executed through the real checker and judged by multiset algebra on its own output; nothing is claimed about "
    "programs, routes or placements outside the rule (comments inside strings, several comments in the body of a file, "
    "diagnostics of the ClassAttributeChecker other than the one appended never-set attribute read); on the interaction corpus every single code was disabled, larger "
    "subsets only sampled"
)
NSHARDS = 16
WATCHDOG_S = {"quick": 3600, "thorough": 14400}   # safety net only (never a verdict); generous because sibling checks share the machine

IGNORE = "# static analysis: ignore"
SPECIAL = ("unused_ignore", "bare_ignore")
ALL_CODES = sorted(c.name for c in ErrorCode)
BASE_ENABLED = {c.name: (c not in DISABLED_IN_TESTS) for c in ErrorCode}
BASE_ENABLED["unused_ignore"] = True
BASE_ENABLED["bare_ignore"] = True

# ---------------------------------------------------------------------------
# running pyanalyze


class _Loader:
    def __init__(self, source: str):
        self.source = source

    def get_source(self, name: object) -> str:
        return self.source


_counter = itertools.count()


def build_module(source: str, name: str) -> types.ModuleType:
    """analysis_lib.make_module with a module name we control (the override route matches on it)."""
    filename = f"vpc11file_{next(_counter)}.py"
    mod = types.ModuleType(name)
    scope = mod.__dict__
    scope["__file__"] = filename
    scope["__loader__"] = _Loader(source)
    linecache.lazycache(filename, scope)
    exec(compile(source, filename, "exec"), scope)
    sys.modules[name] = mod
    return mod


class Undecided(Exception):
    pass


def run_diags(source: str, kw: dict, modname: str = "vpc11.plain.m") -> Counter:
    try:
        mod = build_module(source, modname)
    except Exception as e:  # noqa: BLE001
        raise Undecided(f"module does not import: {e!r}")
    try:
        r = harness.run(source, kwargs=kw, module=mod)
    finally:
        sys.modules.pop(modname, None)
        linecache.cache.pop(mod.__dict__.get("__file__"), None)
    if r.exception is not None:
        raise Undecided(f"check raised {r.exception!r}")
    out: Counter = Counter()
    for d in r.diags:
        out[(d.code, d.lineno, d.col, d.description.replace(modname, "<M>"))] += 1
    return out


def scratch_dir() -> str:
    d = os.environ.get("VERIF_SCRATCH")
    if not d:
        import tempfile

        d = tempfile.mkdtemp(prefix="verif-C11-adhoc-")
        os.environ["VERIF_SCRATCH"] = d
    os.makedirs(d, exist_ok=True)
    return d


def _write(name: str, text: str) -> str:
    p = os.path.join(scratch_dir(), f"{os.getpid()}_{name}")
    with open(p, "w") as f:
        f.write(text)
    return p


def _toml_codes(values: dict) -> str:
    return "".join(f"{k} = {'true' if v else 'false'}\n" for k, v in sorted(values.items()))


def kw_from_config(text: str) -> dict:
    path = _write(f"cfg_{next(_counter)}.toml", text)
    return dict(NameCheckVisitor.prepare_constructor_kwargs({"config_file": Path(path)}))


def kw_settings(disabled=(), *, disable_all_enable=None) -> dict:
    if disable_all_enable is not None:
        # --disable-all -e X -e Y : every code False, the listed ones True
        return harness.constructor_kwargs("none", {c: True for c in disable_all_enable}, fresh=True)
    s = {getattr(ErrorCode, n): v for n, v in BASE_ENABLED.items()}
    for c in disabled:
        s[getattr(ErrorCode, c)] = False
    return dict(NameCheckVisitor.prepare_constructor_kwargs({"settings": s}))


def top_level_config(disabled=(), *, disable_all_enable=None) -> str:
    if disable_all_enable is not None:
        return "[tool.pyanalyze]\ndisable_all = true\n" + _toml_codes({c: True for c in disable_all_enable})
    vals = dict(BASE_ENABLED)
    for c in disabled:
        vals[c] = False
    return "[tool.pyanalyze]\n" + _toml_codes(vals)


def override_config(subsets, codes) -> str:
    out = ["[tool.pyanalyze]\n", _toml_codes(BASE_ENABLED)]
    for j, S in enumerate(subsets):
        out.append(f'\n[[tool.pyanalyze.overrides]]\nmodule = "vpc11.s{j}"\n')
        out.append(_toml_codes({c: False for c in S}))
        out.append(f'\n[[tool.pyanalyze.overrides]]\nmodule = "vpc11.d{j}"\ndisable_all = true\n')
        out.append(_toml_codes({c: True for c in codes if c not in S}))
    return "".join(out)


def override_modname(kind: str, j: int) -> str:
    # even j: the module *is* the override path; odd j: a submodule of it (prefix match)
    return f"vpc11.{kind}{j}" if j % 2 == 0 else f"vpc11.{kind}{j}.sub.m"


# ---------------------------------------------------------------------------
# disable oracle


def judge_disable(base: Counter, got: Counter, S) -> Optional[tuple]:
    """-> (direction, diagnostic) of the first broken clause, or None."""
    S = set(S)
    expected = Counter({d: n for d, n in base.items() if d[0] not in S})
    if got == expected:
        return None
    under = sorted(d for d in (got - expected) if d[0] in S)
    if under:
        return "under-suppressed", under[0]
    over = sorted((expected - got).elements(), key=repr)
    if over:
        return "over-suppressed", over[0]
    new = sorted((got - expected).elements(), key=repr)
    return "new-diagnostic", new[0]


def short(d) -> str:
    return f"{d[0]}@{d[1]}:{d[2]}: {d[3][:80]}"


def disable_case(route: str, source: str, S, codes, kws: Optional[dict] = None):
    """Re-executes one (program, S, route) from scratch. -> (key, what) or None. Used by replay and the minimiser."""
    S = sorted(S)
    if route in ("override", "override-disable-all"):
        kw = kw_from_config(override_config([S], codes))
        base = run_diags(source, kw, "vpc11.base.m")
        kind = "s" if route == "override" else "d"
        got = run_diags(source, kw, override_modname(kind, 0))
    elif route == "settings":
        base = run_diags(source, kw_settings())
        got = run_diags(source, kw_settings(S))
    elif route == "settings-disable-all":
        base = run_diags(source, kw_settings())
        got = run_diags(source, kw_settings(disable_all_enable=[c for c in codes if c not in S]))
    elif route == "toplevel":
        base = run_diags(source, kw_from_config(top_level_config()))
        got = run_diags(source, kw_from_config(top_level_config(S)))
    elif route == "toplevel-disable-all":
        base = run_diags(source, kw_from_config(top_level_config()))
        got = run_diags(source, kw_from_config(top_level_config(disable_all_enable=[c for c in codes if c not in S])))
    elif route == "cli":
        base = cli_diags(source, [])
        got = cli_diags(source, [a for c in S for a in ("-d", c)])
    elif route == "cli-disable-all":
        base = cli_diags(source, [])
        got = cli_diags(source, ["--disable-all"] + [a for c in codes if c not in S for a in ("-e", c)])
    else:
        raise ValueError(route)
    v = judge_disable(base, got, S)
    if v is None:
        return None
    return f"disable|{route}|{v[0]}", f"disable {S} via {route}: {v[0]}: {short(v[1])}"


def cli_diags(source: str, args) -> Counter:
    n = next(_counter)
    stem = f"vpc11cli_{os.getpid()}_{n}"
    d = os.path.join(scratch_dir(), stem + "_dir")
    os.makedirs(d, exist_ok=True)
    src = os.path.join(d, stem + ".py")
    with open(src, "w") as f:
        f.write(source)
    cfg = os.path.join(d, "cfg.toml")
    with open(cfg, "w") as f:
        f.write(top_level_config())
    out = os.path.join(d, "out.json")
    p = harness.run_cli(["--config-file", cfg, "--json-output", out, *args, src], cwd=d)
    if p.returncode not in (0, 1):
        raise Undecided(f"cli rc={p.returncode}: {p.stderr[-300:]}")
    res: Counter = Counter()
    if os.path.exists(out):
        with open(out) as f:
            for fl in json.load(f):
                desc = str(fl.get("description", "")).replace(stem, "<M>")
                res[(str(fl.get("code")), fl.get("lineno"), fl.get("col_offset"), desc)] += 1
    return res


# ---------------------------------------------------------------------------
# interaction corpus: programs in which the checks of DIFFERENT codes meet on one name.
#
# A function binds a local (BINDINGS) and then mentions it only in a way that is not an ordinary read (REFS): inside
# the braces of a plain string, a .format()ed / %-formatted string, a string annotation, del, global, a decorator,
# locals()/eval, a closure, a class body ...  Whether such a mention counts as a use is decided by one check and
# consumed by another (unused_variable / unused_assignment / possibly_undefined_name / missing_f / use_fstrings /
# bad_format_string / undefined_name ...).  The projection law is then demanded for EVERY error code c (whether or not
# D(P) contains a diagnostic of c) with every code enabled in the baseline, and for small subsets.

VAR = "VAR"

BINDINGS = [   # (name, statements binding the local VAR, extra parameters)
    ("assign", ["VAR = 1"], ""),
    ("annassign", ["VAR: int = 1"], ""),
    ("str-assign", ["VAR = 'hello ' + str(flag)"], ""),
    ("reassign", ["VAR = 1", "print(VAR)", "VAR = 2"], ""),
    ("branch", ["if flag:", "    VAR = 1", "else:", "    VAR = 2"], ""),
    ("maybe", ["if flag:", "    VAR = 1"], ""),
    ("unpack", ["VAR, other = 1, 2", "print(other)"], ""),
    ("for", ["for VAR in range(3):", "    pass"], ""),
    ("with", ["with open('f') as VAR:", "    pass"], ""),
    ("import", ["import os as VAR"], ""),
    ("walrus", ["if (VAR := flag):", "    pass"], ""),
    ("augassign", ["VAR = 1", "VAR += 1"], ""),
    ("nested-def", ["def VAR():", "    return 1"], ""),
    ("param", [], ", VAR"),
    ("global-assign", ["global VAR", "VAR = 1"], ""),
]

REFS = [   # (name, statements that mention VAR)
    ("none", ["return None"]),
    ("read", ["return VAR"]),
    ("brace-return", ['return "{VAR}"']),
    ("brace-arg", ['print("{VAR}")']),
    ("brace-local", ['s = "{VAR}"', "return s"]),
    ("brace-conversion", ['return "{VAR!r:>10}"']),
    ("brace-attribute", ['return "{VAR.real}"']),
    ("brace-subscript", ['return "{VAR[0]}"']),
    ("brace-expression", ['return "{VAR + 1}"']),
    ("brace-two-names", ['return "{VAR} and {flag}"']),
    ("brace-with-unknown-name", ['return "{VAR} and {no_such_name}"']),
    ("brace-doubled", ['return "{{VAR}}"']),
    ("brace-positional", ['return "{} {VAR}"']),
    ("brace-not-an-expression", ['return "{VAR"']),
    ("brace-format-keyword", ['return "{VAR}".format(VAR=3)']),
    ("brace-format-locals", ['return "{VAR}".format(**locals())']),
    ("brace-format-map", ['return "{VAR}".format_map(locals())']),
    ("brace-template-call", ['return _t("{VAR}", VAR=3)']),
    ("brace-template-call-other-keyword", ['return _t("{VAR}", other=3)']),
    ("brace-expression-statement", ['"{VAR}"', "return None"]),
    ("brace-bytes", ['return b"{VAR}"']),
    ("brace-implicit-concatenation", ['return "a" "{VAR}"']),
    ("brace-triple-quoted", ['return """', "    {VAR}", '"""']),
    ("brace-in-fstring-literal-part", ['return f"{flag} {{VAR}}"']),
    ("fstring", ['return f"{VAR}"']),
    ("percent-locals", ['return "%(VAR)s" % locals()']),
    ("percent-dict", ['return "%(VAR)s" % {"VAR": 1}']),
    ("percent-tuple-brace", ['return "%s {VAR}" % (flag,)']),
    ("string-annotation", ['y: "VAR" = flag', "return y"]),
    ("string-annotation-parameter", ['def inner(a: "VAR"):', "    return a", "return inner"]),
    ("string-annotation-return", ['def inner() -> "VAR":', "    return None", "return inner"]),
    ("cast-string", ['return cast("VAR", flag)']),
    ("del", ["del VAR"]),
    ("decorator", ["@VAR", "def inner():", "    pass", "return inner"]),
    ("locals-call", ["return locals()"]),
    ("eval", ['return eval("VAR")']),
    ("closure-read", ["def inner():", "    return VAR", "return inner"]),
    ("closure-brace", ["def inner():", '    return "{VAR}"', "return inner"]),
    ("lambda-brace", ['return lambda: "{VAR}"']),
    ("class-body-brace", ["class K:", '    s = "{VAR}"', "return K"]),
    ("comprehension-brace", ['return ["{VAR}" for _ in range(2)]']),
    ("assert-message-brace", ['assert flag, "{VAR}"']),
    ("dict-key-brace", ['return {"{VAR}": 1}']),
    ("default-argument-brace", ['def inner(a="{VAR}"):', "    return a", "return inner"]),
    ("comment", ["# VAR {VAR}", "return None"]),
    ("name-as-string", ['return "VAR"']),
    ("getattr-string", ['return getattr(flag, "VAR", None)']),
    ("augmented-only", ["VAR += 1"]),
    ("write-only-attribute", ["VAR.attr = 1"]),
    ("condition-only", ["if VAR:", "    pass"]),
]

CONTEXTS = ["def", "async", "method", "nested", "staticmethod"]

INTERACTION_PREAMBLE = [
    "from typing import cast",
    "",
    "",
    "def _t(s, **kw):",
    "    return s",
]
N_PARTS = len(BINDINGS)          # part p pairs ref r with binding (r + p) mod |BINDINGS|: all parts = the full grid


def assemble(triples):
    """Module text for a list of (binding index, ref index, context name) + the list of
    (binding, ref, context, first line, last line) per function."""
    lines = list(INTERACTION_PREAMBLE)
    units = []
    for k, (bi, r, cname) in enumerate(triples):
        bname, bind, params = BINDINGS[bi]
        rname, ref = REFS[r]
        v = f"v{k}"
        body = [ln.replace(VAR, v) for ln in bind + ref]
        params = params.replace(VAR, v)
        lines += ["", ""]
        start = len(lines) + 1
        if cname == "def":
            lines += [f"def f{k}(flag{params}):"] + ["    " + ln for ln in body]
        elif cname == "async":
            lines += [f"async def f{k}(flag{params}):"] + ["    " + ln for ln in body]
        elif cname == "method":
            lines += [f"class C{k}:", f"    def m(self, flag{params}):"] + ["        " + ln for ln in body]
        elif cname == "staticmethod":
            lines += [f"class C{k}:", "    @staticmethod", f"    def m(flag{params}):"] + ["        " + ln for ln in body]
        else:
            lines += [f"def f{k}(outer):", f"    def g(flag{params}):"] + ["        " + ln for ln in body] + ["    return g"]
        units.append((bname, rname, cname, start, len(lines)))
    return "\n".join(lines) + "\n", units


def interaction_program(part: int, rot: int = 0):
    """One part of the grid: ref r is paired with binding (r + part) mod |BINDINGS|; `rot` rotates the contexts."""
    return assemble([((r + part) % len(BINDINGS), r, CONTEXTS[(r + part // 2 + rot) % len(CONTEXTS)])
                     for r in range(len(REFS))])


def control_program():
    """Every binding with no mention at all: which bindings does pyanalyze report as unused when nothing refers to them?"""
    return assemble([(bi, 0, "def") for bi in range(len(BINDINGS))])


def unit_at(units, lineno) -> tuple:
    for bname, rname, cname, a, b in units:
        if lineno is not None and a <= lineno <= b:
            return bname, rname, cname
    return ("-", "-", "-")


def extract_unit(source: str, units, lineno) -> str:
    """The preamble plus the one function that contains `lineno` (witness minimisation by construction)."""
    lines = source.split("\n")
    for _, _, _, a, b in units:
        if lineno is not None and a <= lineno <= b:
            return "\n".join(INTERACTION_PREAMBLE + ["", ""] + lines[a - 1:b]) + "\n"
    return source


ALL_REAL_CODES = sorted(c.name for c in ErrorCode)


def kw_all(disabled=()) -> dict:
    """Every error code enabled except `disabled`, through the settings dictionary --enable-all / --disable build."""
    s = {c: (c.name not in disabled) for c in ErrorCode}
    return dict(NameCheckVisitor.prepare_constructor_kwargs({"settings": s}))


def all_config(disabled=(), *, override_for: Optional[str] = None) -> str:
    """TOML: every code `true` at top level; `disabled` set to false at top level or in an override for one module."""
    vals = {c: True for c in ALL_REAL_CODES}
    if override_for is None:
        for c in disabled:
            vals[c] = False
        return "[tool.pyanalyze]\n" + _toml_codes(vals)
    return ("[tool.pyanalyze]\n" + _toml_codes(vals) + f'\n[[tool.pyanalyze.overrides]]\nmodule = "{override_for}"\n'
            + _toml_codes({c: False for c in disabled}))


def cli_all_diags(source: str, args) -> Counter:
    n = next(_counter)
    stem = f"vpc11cli_{os.getpid()}_{n}"
    d = os.path.join(scratch_dir(), stem + "_dir")
    os.makedirs(d, exist_ok=True)
    src = os.path.join(d, stem + ".py")
    with open(src, "w") as f:
        f.write(source)
    cfg = os.path.join(d, "cfg.toml")
    with open(cfg, "w") as f:
        f.write("[tool.pyanalyze]\n")
    out = os.path.join(d, "out.json")
    p = harness.run_cli(["--config-file", cfg, "--enable-all", "--json-output", out, *args, src], cwd=d)
    if p.returncode not in (0, 1):
        raise Undecided(f"cli rc={p.returncode}: {p.stderr[-300:]}")
    res: Counter = Counter()
    if os.path.exists(out):
        with open(out) as f:
            for fl in json.load(f):
                desc = str(fl.get("description", "")).replace(stem, "<M>")
                res[(str(fl.get("code")), fl.get("lineno"), fl.get("col_offset"), desc)] += 1
    return res


INTERACTION_MOD = "vpc11.inter.m"


def interaction_runs(route: str, source: str, S):
    """-> (D(P) under the all-enabled baseline of the route, D(P | disable S) through the route)."""
    S = sorted(S)
    if route == "all-settings":
        return run_diags(source, kw_all()), run_diags(source, kw_all(S))
    if route == "all-toplevel":
        return run_diags(source, kw_from_config(all_config())), run_diags(source, kw_from_config(all_config(S)))
    if route == "all-override":
        kw = kw_from_config(all_config(S, override_for="vpc11.inter"))
        return run_diags(source, kw, "vpc11.base.m"), run_diags(source, kw, INTERACTION_MOD)
    if route == "all-cli":
        return cli_all_diags(source, []), cli_all_diags(source, [a for c in S for a in ("-d", c)])
    raise ValueError(route)


def interaction_key(route: str, direction: str, S, d) -> str:
    """A diagnostic of a code outside S changed (appeared / disappeared): `disable-any|<direction>|culprit:<S>` -- the
    hidden dependency on the disabled code is the mechanism, whichever route, program or affected code shows it (the
    shard reduces S to the single code that suffices).  A diagnostic of a code in S survived: the route did not
    disable it: `disable-any|<route>|under-suppressed`."""
    if direction == "under-suppressed":
        return f"disable-any|{route}|under-suppressed"
    return f"disable-any|{direction}|culprit:{'+'.join(sorted(S))}"


def interaction_case(route: str, source: str, S):
    base, got = interaction_runs(route, source, S)
    v = judge_disable(base, got, S)
    if v is None:
        return None
    return (interaction_key(route, v[0], S, v[1]),
            f"every code enabled, disable {sorted(S)} via {route}: {v[0]}: {short(v[1])}")


# ---------------------------------------------------------------------------
# comment placements


def line_facts(source: str):
    """tokenize-derived facts per physical line (1-based): ends at a NEWLINE/NL token? carries a COMMENT token?"""
    ends, comment = set(), set()
    for tok in tokenize.generate_tokens(io.StringIO(source).readline):
        if tok.type in (tokenize.NEWLINE, tokenize.NL):
            ends.add(tok.start[0])
        elif tok.type == tokenize.COMMENT:
            comment.add(tok.start[0])
    return ends, comment


def significant_tokens(source: str):
    out = []
    for tok in tokenize.generate_tokens(io.StringIO(source).readline):
        if tok.type in (tokenize.COMMENT, tokenize.NL):
            continue
        out.append((tok.type, "" if tok.type in (tokenize.NEWLINE, tokenize.ENDMARKER) else tok.string))
    return out


def comment_text(code: Optional[str]) -> str:
    return IGNORE if code is None else f"{IGNORE}[{code}]"


def apply_placement(source: str, form: str, line: int, code: Optional[str], indent: str = ""):
    """-> (new_source, comment_line, target_line or None, leading?)   all line numbers in the new file.
    form 'trailing': comment appended to physical line `line`; 'own-line': a comment line inserted before `line`
    (`line` == nlines+1 means after the last line)."""
    lines = source.split("\n")
    ends_nl = source.endswith("\n")
    if ends_nl:
        lines.pop()
    n = len(lines)
    text = comment_text(code)
    if form == "trailing":
        lines[line - 1] = lines[line - 1].rstrip() + "  " + text
        cl, tl, leading = line, line, False
    else:
        leading = all(ln.startswith("#") for ln in lines[: line - 1]) and line <= n and indent == ""
        lines.insert(line - 1, indent + text)
        cl = line
        tl = line + 1 if line <= n else None
    new = "\n".join(lines) + ("\n" if ends_nl else "")
    return new, cl, tl, leading


def shift(base: Counter, form: str, line: int) -> Counter:
    if form == "trailing":
        return Counter(base)
    return Counter({(c, (ln + 1 if ln is not None and ln >= line else ln), col, desc): k for (c, ln, col, desc), k in base.items()})


def rel_position(cl: int, dl, nlines_new: int) -> str:
    if dl is None:
        return "other"
    if dl == cl:
        return "same"
    if dl == cl + 1:
        return "next"
    if cl == nlines_new and dl == 1:
        return "wraps-to-last-line"
    if dl == cl - 1:
        return "prev"
    return "other"


def judge_comment(base: Counter, got: Counter, form: str, line: int, code: Optional[str], cl: int, tl, leading: bool,
                  nlines_new: int):
    """Pure set algebra. -> (verdict or None, info) where verdict = (form, sel, position, direction, diagnostic)."""
    mapped = shift(base, form, line)
    special = Counter({d: k for d, k in got.items() if d[0] in SPECIAL})
    rest = got - special
    removed = mapped - rest            # diagnostics of D(P) that are gone
    new = rest - mapped                # diagnostics that D(P) does not have
    bare = code is None
    form_name = "file-level" if leading else form
    info = {"removed": sum(removed.values()), "leading": leading}

    def covers(d) -> bool:
        return bare or d[0] == code

    judged_suppression = True
    if leading:
        if bare:
            targeted = Counter(mapped)
        else:
            # coded file-level form: whole-file scope, the named code (what it did is also histogrammed)
            whole = Counter({d: k for d, k in mapped.items() if d[0] == code})
            targeted = Counter(whole)
            nxt = Counter({d: k for d, k in mapped.items() if d[0] == code and d[1] == tl})
            info["coded_file_level"] = (
                "nothing-to-suppress" if not whole else
                "suppresses-code-in-whole-file" if removed == whole and whole != nxt else
                "suppresses-next-line-only" if removed == nxt and whole != nxt else
                "suppresses-code(next-line==whole-file)" if removed == whole else
                "suppresses-nothing" if not removed else "other"
            )
    else:
        targeted = Counter({d: k for d, k in mapped.items() if d[1] == tl and covers(d)}) if tl is not None else Counter()
    info["targeted"] = sum(targeted.values())

    def verdict(sel, pos, direction, d):
        return (form_name, sel, pos, direction, d)

    if judged_suppression:
        over = removed - targeted
        if over:
            d = sorted(over.elements(), key=repr)[0]
            pos = "file" if leading else rel_position(cl, d[1], nlines_new)
            return verdict("sel" if covers(d) else "unsel", pos, "over-suppressed", d), info
        under = targeted - removed
        if under:
            d = sorted(under.elements(), key=repr)[0]
            pos = "file" if leading else rel_position(cl, d[1], nlines_new)
            return verdict("sel", pos, "under-suppressed", d), info
    if new:
        d = sorted(new.elements(), key=repr)[0]
        return verdict("-", rel_position(cl, d[1], nlines_new), "new-diagnostic", d), info
    # unused_ignore exactly when it suppressed nothing
    unused_here = sum(k for d, k in special.items() if d[0] == "unused_ignore" and d[1] == cl)
    stray = [d for d in special if d[1] != cl]
    if stray:
        return verdict("-", rel_position(cl, stray[0][1], nlines_new), "stray-ignore-report", stray[0]), info
    suppressed_nothing = not removed
    if suppressed_nothing and unused_here != 1:
        return verdict("-", "-", "unused-not-reported-though-nothing-suppressed", ("unused_ignore", cl, None, f"x{unused_here}")), info
    if not suppressed_nothing and unused_here != 0:
        d = sorted(removed.elements(), key=repr)[0]
        return verdict("sel" if covers(d) else "unsel", "file" if leading else rel_position(cl, d[1], nlines_new),
                       "unused-reported-though-it-suppressed", d), info
    bare_here = sum(k for d, k in special.items() if d[0] == "bare_ignore" and d[1] == cl)
    if leading and bare:
        info["file_level_bare_ignore_reported"] = bool(bare_here)
    elif bare and bare_here != 1:
        return verdict("-", "-", "bare-ignore-missing", ("bare_ignore", cl, None, f"x{bare_here}")), info
    elif not bare and bare_here != 0:
        return verdict("-", "-", "bare-ignore-spurious", ("bare_ignore", cl, None, f"x{bare_here}")), info
    return None, info


def comment_case(source: str, form: str, line: int, code: Optional[str], indent: str, kw: dict, base: Optional[Counter] = None):
    """One placement, from scratch. -> (key, what) or None; raises Undecided."""
    if base is None:
        base = run_diags(source, kw)
    new_source, cl, tl, leading = apply_placement(source, form, line, code, indent)
    got = run_diags(new_source, kw)
    v, info = judge_comment(base, got, form, line, code, cl, tl, leading, len(new_source.splitlines()))
    if v is None:
        return None
    return key_what(v, form, line, code)


def key_what(v, form, line, code):
    form_name, sel, pos, direction, d = v
    key = f"comment|{form_name}|{sel}|{pos}|{direction}"
    what = (f"{comment_text(code)!r} placed {form} at line {line}: {direction}; affected diagnostic {short(d)} "
            f"({pos} relative to the comment)")
    return key, what


_KW_COMMENT: list = []


def comment_kw() -> dict:
    if not _KW_COMMENT:
        _KW_COMMENT.append(kw_settings())
    return _KW_COMMENT[0]


def placements_for(source: str, base: Counter, rng: random.Random):
    """Enumerate (form, line, code, indent, variant_name, boundary?) for every admissible placement."""
    lines = source.splitlines()
    n = len(lines)
    ends, has_comment = line_facts(source)
    by_line: dict = {}
    for d in base.elements():
        by_line.setdefault(d[1], []).append(d)
    codes_p = sorted({d[0] for d in base})
    foreign_pool = [c for c in ALL_CODES if c not in codes_p and c not in SPECIAL]
    multi_lines = {ln for ln, ds in by_line.items() if len(ds) >= 2}
    out = []

    def variants(target_line):
        on_line = sorted({d[0] for d in by_line.get(target_line, [])})
        vs = [(None, "bare")]
        vs += [(c, "coded-match") for c in on_line]
        elsewhere = [c for c in codes_p if c not in on_line]
        if elsewhere:
            vs.append((rng.choice(elsewhere), "coded-other-in-P"))
        vs.append((rng.choice(foreign_pool), "coded-other-foreign"))
        return vs

    for L in range(1, n + 1):
        text = lines[L - 1]
        boundary = L in (1, n) or (L - 1) in multi_lines
        if L in ends and L not in has_comment and text.strip():
            for code, vname in variants(L):
                out.append(("trailing", L, code, "", vname, boundary))
        if L == 1 or (L - 1) in ends:
            indent = text[: len(text) - len(text.lstrip())]
            if not all(ln.startswith("#") for ln in lines[: L - 1]) and rng.random() < 0.1:
                indent = rng.choice(["", "  ", "            "])
            for code, vname in variants(L):
                out.append(("own-line", L, code, indent, vname, boundary or L == 2))
    for code, vname in variants(n + 1):
        out.append(("own-line", n + 1, code, "", vname, True))
    return out


# ---------------------------------------------------------------------------
# file headers: 1-3 ignore markers in front of P, interleaved with ordinary header lines
#
# header = g0 m1 g1 [m2 g2 [m3 g3]].  A marker inside the leading comment block (every line up to and including it
# starts with '#') has whole-file scope; a marker below the line that ended the block (blank line, docstring) is an
# ordinary own-line comment (scope: the next physical line).  The expectation is pure projection of D(P) (shifted by the
# header length): every diagnostic in the scope of a bare / single-code marker is gone, nothing else is.

SHEBANG = "#!/usr/bin/env python3"
CODING = "# -*- coding: utf-8 -*-"
COMMENT_A = "# Copyright (c) the authors. All rights reserved."
COMMENT_B = "# static analysis: see the notes below (this line is not a marker)"
HASH = "#"
NOSPACE = "#no space after the hash"
BLANK = ""
DOCSTRING = '"""Module docstring."""'

# (weight, lines)
GAP_FIRST = [(8, []), (2, [SHEBANG]), (2, [CODING]), (2, [SHEBANG, CODING]), (2, [COMMENT_A]),
             (2, [SHEBANG, COMMENT_A, HASH]), (1, [COMMENT_B, CODING]), (2, [BLANK]), (2, [COMMENT_A, BLANK]), (1, [DOCSTRING])]
GAP_MID = [(10, []), (4, [COMMENT_A]), (2, [HASH, COMMENT_B]), (1, [NOSPACE]), (3, [BLANK]), (1, [BLANK, COMMENT_A]), (1, [DOCSTRING])]
GAP_LAST = [(8, []), (4, [COMMENT_A]), (4, [BLANK]), (2, [BLANK, COMMENT_B]), (2, [COMMENT_A, BLANK]), (1, [NOSPACE, HASH])]

MARKER_KINDS = ("bare", "present", "absent", "multi")
MARKER_SEQS = [seq for n in (1, 2, 3) for seq in itertools.product(MARKER_KINDS, repeat=n)]     # 4 + 16 + 64 = 84
HEADERS_PER_PROGRAM = 42

_MARK_RE = re.compile(r"^# static analysis: ignore(?:\[([^\]]*)\])?$")


def parse_marker(line: str):
    """-> None | ('bare', ()) | ('coded', (code,)) | ('multi', (code, code...)); header lines are never indented."""
    m = _MARK_RE.match(line.rstrip())
    if m is None:
        return None
    if m.group(1) is None:
        return "bare", ()
    codes = tuple(c.strip() for c in m.group(1).split(","))
    return ("coded" if len(codes) == 1 else "multi"), codes


def _weighted(rng: random.Random, table):
    return list(rng.choices([g for _, g in table], weights=[w for w, _ in table])[0])


def build_header(seq, codes_p, foreign_pool, rng: random.Random):
    """Header lines for a marker-kind sequence: successive 'present' markers name different codes of D(P)."""
    present = list(codes_p)
    rng.shuffle(present)
    nxt = iter(itertools.cycle(present))
    lines = _weighted(rng, GAP_FIRST)
    for k, kind in enumerate(seq):
        if kind == "bare":
            lines.append(IGNORE)
        elif kind == "present":
            lines.append(f"{IGNORE}[{next(nxt)}]")
        elif kind == "absent":
            lines.append(f"{IGNORE}[{rng.choice(foreign_pool)}]")
        else:
            shape = rng.randrange(3)
            pair = ([next(nxt), rng.choice(foreign_pool)] if shape == 0 else
                    [rng.choice(foreign_pool), next(nxt)] if shape == 1 else [next(nxt), next(nxt)])
            lines.append(f"{IGNORE}[" + rng.choice([", ", ","]).join(pair) + "]")
        lines += _weighted(rng, GAP_LAST if k == len(seq) - 1 else GAP_MID)
    return lines


def header_source(header, source: str) -> str:
    return "\n".join(header) + "\n" + source


def header_model(header, source: str):
    """The markers of the header with their scope, decided on the text alone."""
    new_lines = list(header) + source.split("\n")
    block_end = next((i for i, ln in enumerate(new_lines) if not ln.startswith("#")), len(new_lines))
    markers = []
    for i, ln in enumerate(header):
        pm = parse_marker(ln)
        if pm is not None:
            markers.append({"line": i + 1, "kind": pm[0], "codes": pm[1], "in_block": i < block_end})
    in_block = [m for m in markers if m["in_block"]]
    for m in markers:
        if not m["in_block"]:
            m["placement"] = "own-line-after-block"
        elif len(in_block) == 1:
            m["placement"] = "file-level:only"
        else:
            m["placement"] = "file-level:first" if m is in_block[0] else "file-level:later"
    return markers


def _in_scope(m, d) -> bool:
    return m["in_block"] or d[1] == m["line"] + 1


def _covers(m, d) -> bool:
    return _in_scope(m, d) and (m["kind"] == "bare" or d[0] in m["codes"])


def judge_header(base: Counter, got: Counter, header, source: str):
    """Pure set algebra. -> (verdict or None, info), verdict = (placement, sel, direction, diagnostic)."""
    h = len(header)
    mapped = Counter({(c, (ln + h if ln is not None else ln), col, desc): k for (c, ln, col, desc), k in base.items()})
    special = Counter({d: k for d, k in got.items() if d[0] in SPECIAL})
    rest = got - special
    removed = mapped - rest
    new = rest - mapped
    markers = header_model(header, source)
    defined = [m for m in markers if m["kind"] != "multi"]
    multi = [m for m in markers if m["kind"] == "multi"]
    must: Counter = Counter({d: k for d, k in mapped.items() if any(_covers(m, d) for m in defined)})
    may: Counter = Counter({d: k for d, k in mapped.items() if d not in must and any(_covers(m, d) for m in multi)})
    whole_file = any(m["kind"] == "bare" and m["in_block"] for m in markers)
    in_block = [m for m in markers if m["in_block"]]
    first = in_block[0] if in_block else None

    def sole_later(d) -> bool:
        cov = [m for m in defined if _covers(m, d)]
        return bool(cov) and all(m["placement"] == "file-level:later" for m in cov)

    info = {
        "markers": len(markers), "in_block": len(in_block), "after_block": len(markers) - len(in_block),
        "removed": sum(removed.values()), "must": sum(must.values()), "whole_file": whole_file,
        "later_sole_cover": sum(k for d, k in mapped.items() if sole_later(d)),
        "own_line_hits": sum(k for d, k in mapped.items() if any((not m["in_block"]) and _covers(m, d) for m in defined)),
        "bare_after_coded_in_block": any(m["kind"] == "bare" and m is not first for m in in_block),
        "multi_outcome": None, "unused_reports": sum(k for d, k in special.items() if d[0] == "unused_ignore"),
    }
    if multi:
        hit = sum((removed & may).values())
        info["multi_outcome"] = ("nothing-only-it-could-suppress" if not may else
                                 "suppressed-nothing" if not hit else
                                 "suppressed-all-of-its-codes" if hit == sum(may.values()) else "suppressed-some")

    under = must - removed
    if under:
        d = sorted(under.elements(), key=repr)[0]
        m = [m for m in defined if _covers(m, d)][0]
        return (m["placement"], "sel", "under-suppressed", d), info
    over = removed - must - may
    if over:
        d = sorted(over.elements(), key=repr)[0]
        near = [m for m in markers if _in_scope(m, d)]
        if near:
            return (near[0]["placement"], "unsel", "over-suppressed", d), info
        return ("out-of-scope", "-", "over-suppressed", d), info
    if new:
        d = sorted(new.elements(), key=repr)[0]
        return ("-", "-", "new-diagnostic", d), info
    by_line = {m["line"]: m for m in markers}
    stray = sorted((d for d in special if d[1] not in by_line), key=repr)
    if stray:
        return ("-", "-", "stray-ignore-report", stray[0]), info
    unused_at = Counter(d[1] for d in special.elements() if d[0] == "unused_ignore")
    bare_at = Counter(d[1] for d in special.elements() if d[0] == "bare_ignore")
    for line, n in sorted((unused_at | bare_at).items()):
        if n > 1:
            return (by_line[line]["placement"], "-", "duplicate-ignore-report", ("unused_ignore/bare_ignore", line, None, f"x{n}")), info
    # a diagnostic that disappeared: at least one of the markers covering it is not reported unused
    for d in sorted((removed & (must + may)), key=repr):
        cov = [m for m in markers if _covers(m, d)]
        if cov and all(unused_at[m["line"]] for m in cov):
            return (cov[0]["placement"], "sel", "unused-reported-though-it-suppressed", d), info
    if whole_file:
        others = [m for m in markers if not (m["kind"] == "bare" and m["in_block"])]
        info["whole_file_other_markers"] = (
            "none" if not others else
            "none-reported" if not any(unused_at[m["line"]] or bare_at[m["line"]] for m in others) else "some-reported")
        return None, info
    for m in markers:
        tgt = Counter({d: k for d, k in mapped.items() if _covers(m, d)})
        if not (tgt & removed) and unused_at[m["line"]] != 1:
            return (m["placement"], "-", "unused-not-reported-though-nothing-suppressed",
                    ("unused_ignore", m["line"], None, f"x{unused_at[m['line']]}")), info
        if m["kind"] == "bare" and bare_at[m["line"]] != 1:
            return (m["placement"], "-", "bare-ignore-missing", ("bare_ignore", m["line"], None, f"x{bare_at[m['line']]}")), info
        if m["kind"] != "bare" and bare_at[m["line"]] != 0:
            return (m["placement"], "-", "bare-ignore-spurious", ("bare_ignore", m["line"], None, f"x{bare_at[m['line']]}")), info
    return None, info


def header_key_what(v, header):
    placement, sel, direction, d = v
    shown = [ln for ln in header]
    return (f"header|{placement}|{sel}|{direction}",
            f"header {shown!r} in front of the program: {direction}; affected {short(d)} "
            f"(marker: {placement}, line numbers of the file with the header)")


def header_case(source: str, header, kw: dict, base: Optional[Counter] = None):
    """One header, from scratch. -> (key, what) or None; raises Undecided."""
    if base is None:
        base = run_diags(source, kw)
    got = run_diags(header_source(header, source), kw)
    v, _ = judge_header(base, got, header, source)
    if v is None:
        return None
    return header_key_what(v, header)


def minimise_header(witness: dict, key: str) -> dict:
    """Drop header lines (ordinary lines first, then markers) while the same key keeps being produced."""
    best = dict(witness)
    order = sorted(range(len(best["header"])), key=lambda i: (parse_marker(best["header"][i]) is not None, -i))
    dropped: set = set()
    for i in order:
        cand = dict(best)
        cand["header"] = [ln for j, ln in enumerate(witness["header"]) if j not in dropped | {i}]
        if not any(parse_marker(ln) for ln in cand["header"]):
            continue
        try:
            res = replay(cand)
        except Exception:  # noqa: BLE001
            res = None
        if res and res[0] == key:
            dropped.add(i)
            best = cand
    return best


# ---------------------------------------------------------------------------
# diagnostics produced after check() has returned (the attribute checker of a whole run): only the command line shows
# them.  A class whose method reads an attribute nothing sets is appended to P; the ignore comment is aimed at that read.

LATE_BLOCK = ["", "", "class VpLate:", "    def m(self) -> object:", "        return self.vp_attribute_nothing_sets"]
LATE_FORMS = [("trailing", "bare"), ("trailing", "match"), ("own-line", "match"), ("file-level", "match"),
              ("own-line", "bare"), ("trailing", "other")]


def with_late_block(source: str) -> tuple:
    """-> (P + class block, physical line of the attribute read)"""
    body = source if source.endswith("\n") else source + "\n"
    out = body + "\n".join(LATE_BLOCK) + "\n"
    return out, len(out.splitlines())


def late_case(source: str, form: str, line: int, code: Optional[str], indent: str,
              base_cli: Optional[Counter] = None, base_inproc: Optional[Counter] = None):
    """One placement judged on the command-line route. -> ((key, what) or None, info, n_late)."""
    if base_cli is None:
        base_cli = cli_diags(source, [])
    if base_inproc is None:
        base_inproc = run_diags(source, comment_kw())
    late_codes = {d[0] for d in (base_cli - base_inproc)}
    new_source, cl, tl, leading = apply_placement(source, form, line, code, indent)
    got = cli_diags(new_source, [])
    v, info = judge_comment(base_cli, got, form, line, code, cl, tl, leading, len(new_source.splitlines()))
    info["late_codes"] = sorted(late_codes)
    if v is None:
        return None, info
    form_name, sel, pos, direction, d = v
    removed_late = direction.startswith("unused") and any(
        x[0] in late_codes for x in (shift(base_cli, form, line) - got))
    if d[0] in late_codes or removed_late:
        # the clause failed on a diagnostic that exists only after check() returned: one mechanism, whatever the form
        return (f"comment|post-check-diagnostic|{direction}",
                f"command line, {comment_text(code)!r} placed {form} at line {line}: {direction}; affected diagnostic "
                f"{short(d)} is produced after check() returned (not among the diagnostics of NameCheckVisitor.check())"), info
    key, what = key_what(v, form, line, code)
    return (key, "command line: " + what), info


# ---------------------------------------------------------------------------
# witness minimisation (greedy physical-line deletion while the same key keeps being produced)


def _importable(source: str) -> bool:
    try:
        m = build_module(source, "vpc11.shrink.m")
    except Exception:  # noqa: BLE001
        return False
    sys.modules.pop("vpc11.shrink.m", None)
    linecache.cache.pop(m.__dict__.get("__file__"), None)
    return True


def minimise(witness: dict, key: str, budget: int) -> dict:
    best = dict(witness)
    changed = True
    while changed and budget > 0:
        changed = False
        for size in (6, 3, 2, 1):
            lines = best["source"].split("\n")
            i = len(lines) - size
            while i >= 0 and budget > 0:
                removed_nos = range(i + 1, i + size + 1)          # 1-based physical line numbers
                cand_lines = lines[:i] + lines[i + size:]
                cand = dict(best)
                cand["source"] = "\n".join(cand_lines)
                ok = True
                if best["kind"] in ("comment", "comment-cli"):
                    L = best["line"]
                    if best["form"] == "trailing" and L in removed_nos:
                        ok = False
                    cand["line"] = L - sum(1 for r in removed_nos if r < L)
                if ok and cand["source"].strip() and _importable(cand["source"]):
                    budget -= 1
                    try:
                        res = replay(cand)
                    except Exception:  # noqa: BLE001
                        res = None
                    if res and res[0] == key:
                        best = cand
                        lines = cand_lines
                        changed = True
                        i = min(i, len(lines) - size + 1)
                i -= 1
    return best


# ---------------------------------------------------------------------------
# shard


def subsets_of(codes, rng):
    k = len(codes)
    if k <= 6:
        return [tuple(c for i, c in enumerate(codes) if m >> i & 1) for m in range(2 ** k)], True
    seen = {(): None, tuple(codes): None}
    while len(seen) < 64:
        m = rng.getrandbits(k)
        seen[tuple(c for i, c in enumerate(codes) if m >> i & 1)] = None
    return list(seen), False


class _Shared:
    """Checkers shared inside one shard, keyed by configuration (baselines + one per singleton S and route, i.e. at most
    ~2 x |codes| + 2 live Checkers of ~10 MB each); recycled every 40 programs."""

    def __init__(self):
        self.cache: dict = {}

    def get(self, key, make):
        if key not in self.cache:
            self.cache[key] = make()
        return self.cache[key]

    def recycle(self):
        self.cache.clear()


def report(ctx, key, what, witness, seen_keys, budget):
    if key not in seen_keys:
        seen_keys.add(key)
        try:
            small = minimise(witness, key, budget) if budget > 0 else witness
            res = replay(small) if small != witness else None
            if res and res[0] == key:
                witness, what = small, res[1]
        except Exception as e:  # noqa: BLE001
            ctx.note(f"minimiser failed for {key}: {e!r}")
    ctx.violation(key, what, witness)


def interaction_section(ctx, seen_keys: set) -> None:
    """Every error code c (and small subsets) disabled over the interaction corpus, every code enabled in the baseline.
    Codes are dealt to the shards; one Checker per (code, route) is shared by the parts of the corpus."""
    nparts = ctx.pick(3, N_PARTS)
    parts = [(ctx.seed * nparts + k) % N_PARTS for k in range(nparts)]
    progs = {p: interaction_program(p, rot=ctx.seed) for p in parts}
    my_codes = [(i, c) for i, c in enumerate(ALL_REAL_CODES) if ctx.mine(i)]
    rng = random.Random(f"C11-inter/{ctx.seed}/{ctx.shard}")
    bases: dict = {}

    def base_for(route: str, p: int) -> Counter:
        """D(P) under the all-enabled baseline of the route (in-process routes share one result per configuration kind)."""
        kind = {"all-settings": "settings", "all-toplevel": "toplevel", "all-override": "toplevel"}.get(route, route)
        if (kind, p) not in bases:
            if ("kw", kind) not in bases:
                bases[("kw", kind)] = kw_all() if kind == "settings" else kw_from_config(all_config())
                ctx.count("fresh_checker_configs")
            bases[(kind, p)] = run_diags(progs[p][0], bases[("kw", kind)], "vpc11.base.m" if kind == "toplevel" else INTERACTION_MOD)
        return bases[(kind, p)]

    def culprit_of(route: str, source: str, S, direction: str):
        """Smallest part of S that still breaks the same clause (a single code if one suffices)."""
        S = list(S)
        if len(S) > 1:
            for c in S:
                try:
                    b, g = interaction_runs(route, source, [c])
                except Undecided:
                    continue
                v = judge_disable(b, g, [c])
                if v is not None and v[0] == direction:
                    return [c]
        return sorted(S)

    def judge(route: str, S, p: int, got: Counter) -> None:
        base = base_for(route, p)
        source, units = progs[p]
        ctx.count("evaluations")
        ctx.count("interaction_cases")
        ctx.histo("interaction_route", route)
        ctx.histo("interaction_subset_size", str(min(len(S), 4)) if len(S) < 10 else "complement-of-codes(P)")
        in_base = any(d[0] in S for d in base)
        ctx.count("interaction_cases_code_in_D(P)" if in_base else "interaction_cases_code_not_in_D(P)")
        ctx.nontrivial(("inter", p, ctx.seed % len(CONTEXTS), route, tuple(sorted(S))))
        v = judge_disable(base, got, S)
        if v is None:
            return
        direction, d = v
        small = extract_unit(source, units, d[1])
        try:
            cul = culprit_of(route, small, S, direction)
            res = interaction_case(route, small, cul)
            if res is None or res[0] != interaction_key(route, direction, cul, d):
                small, res = source, interaction_case(route, source, cul)
        except Undecided:
            cul, res = sorted(S), None
        key = interaction_key(route, direction, cul, d)
        b, r, c = unit_at(units, d[1])
        what = (res[1] if res and res[0] == key else
                f"every code enabled, disable {sorted(S)} via {route}: {direction}: {short(d)}") + f" [local bound by {b}, mentioned by {r}, in {c}]"
        ctx.histo("interaction_violation_shape", f"{b} x {r}")
        if key in seen_keys:
            ctx.violation_counts[key] = ctx.violation_counts.get(key, 0) + 1
            return
        seen_keys.add(key)
        ctx.violation(key, what, {"kind": "interaction", "route": route, "source": small, "S": cul})

    try:
        for p in parts:
            base = base_for("all-settings", p)
            if ctx.shard == 0:
                ctx.count("interaction_programs")
                ctx.count("interaction_functions", len(progs[p][1]))
                for c in sorted({d[0] for d in base}):
                    ctx.histo("interaction_codes_in_D(P)", c)
                per_unit: dict = {}
                for d in base.elements():
                    per_unit.setdefault(unit_at(progs[p][1], d[1]), set()).add(d[0])
                # functions whose local would be reported unused if nothing mentioned it (observed on the control
                # program) and is NOT reported: the mention inside a string / del / annotation ... counted as a use --
                # the workload the dependencies between checks of different codes live in
                if "reported-unused-bindings" not in bases:
                    csrc, cunits = control_program()
                    cbase = run_diags(csrc, base_for("all-settings", p) and bases[("kw", "settings")], INTERACTION_MOD)
                    bases["reported-unused-bindings"] = {unit_at(cunits, d[1])[0] for d in cbase
                                                         if d[0] in ("unused_variable", "unused_assignment")}
                    for b in sorted(bases["reported-unused-bindings"]):
                        ctx.histo("interaction_binding_reported_unused_when_unmentioned", b)
                for b, r, c, _, _ in progs[p][1]:
                    unused = bool(per_unit.get((b, r, c), set()) & {"unused_variable", "unused_assignment"})
                    if b in bases["reported-unused-bindings"] and r not in ("none", "read", "fstring"):
                        ctx.count("interaction_functions_unused_unless_mention_counts")
                        ctx.histo("interaction_mention_counts_as_use", f"{r}:{'no' if unused else 'yes'}")
                        if not unused:
                            ctx.count("interaction_functions_mention_counts_as_use")
                            if r.startswith("brace"):
                                ctx.count("interaction_functions_brace_mention_counts_as_use")
        # (a) every single code, in-process settings route, all parts of this run
        for i, c in my_codes:
            kw = kw_all([c])
            ctx.count("fresh_checker_configs")
            for p in parts:
                judge("all-settings", (c,), p, run_diags(progs[p][0], kw, INTERACTION_MOD))
            del kw
            # (b) the same code through a configuration file (top-level `c = false` / an override section), first part
            route = ("all-toplevel", "all-override")[(i // ctx.nshards + ctx.seed) % 2]
            p = parts[i % len(parts)]
            if route == "all-toplevel":
                got = run_diags(progs[p][0], kw_from_config(all_config([c])), "vpc11.base.m")
            else:
                got = run_diags(progs[p][0], kw_from_config(all_config([c], override_for="vpc11.inter")), INTERACTION_MOD)
            ctx.count("fresh_checker_configs")
            judge(route, (c,), p, got)
            gc.collect()
        # (c) small subsets of ALL codes, and the complement of codes(P) (what disable_all + re-enable amounts to)
        for _ in range(ctx.pick(2, 16)):
            S = tuple(sorted(rng.sample(ALL_REAL_CODES, rng.choice([2, 2, 3, 4]))))
            p = rng.choice(parts)
            ctx.count("fresh_checker_configs")
            judge("all-settings", S, p, run_diags(progs[p][0], kw_all(S), INTERACTION_MOD))
        if ctx.shard % ctx.pick(4, 1) == 0:
            p = parts[(ctx.shard // 4) % len(parts)]
            present = {d[0] for d in base_for("all-settings", p)}
            S = tuple(c for c in ALL_REAL_CODES if c not in present)
            ctx.count("fresh_checker_configs")
            judge("all-settings", S, p, run_diags(progs[p][0], kw_all(S), INTERACTION_MOD))
            # (d) the real command line: --enable-all -d c
            # one code of this shard's deal and one code that has diagnostics in D(P)
            i, c = my_codes[ctx.seed % len(my_codes)]
            there = sorted(present - {c})
            for S in ((c,), (there[(ctx.shard // 4 + ctx.seed) % len(there)],)):
                if ("all-cli", p) not in bases:
                    bases[("all-cli", p)] = cli_all_diags(progs[p][0], [])
                    ctx.count("cli_runs")
                got = cli_all_diags(progs[p][0], [a for x in S for a in ("-d", x)])
                ctx.count("cli_runs")
                ctx.count("interaction_cli_cases")
                judge("all-cli", S, p, got)
    except Undecided as e:
        ctx.count("undecided")
        ctx.note(f"interaction corpus: {e}")


def shard(ctx) -> None:
    nprog = ctx.pick(160, 1600)
    prog_rng = random.Random(f"C11-programs/{ctx.seed}")   # the same program list in every shard
    shared = _Shared()
    seen_keys: set = set()
    interaction_section(ctx, seen_keys)
    gc.collect()
    cli_left = ctx.pick(1, 3)
    late_left = ctx.pick(1, 2)
    mine_count = 0
    for idx in range(nprog):
        source, expected = gen_program_info(prog_rng)
        if not ctx.mine(idx):
            continue
        rng = random.Random(f"C11/{ctx.seed}/{idx}")
        mine_count += 1
        if mine_count % 40 == 0:
            shared.recycle()
        gc.collect()
        ctx.count("programs_generated")
        kw_c = shared.get("settings-base", kw_settings)
        try:
            base = run_diags(source, kw_c)
        except Undecided as e:
            ctx.count("undecided")
            ctx.note(f"program {idx}: {e}")
            continue
        codes = sorted({d[0] for d in base})
        ndiag = sum(base.values())
        ctx.histo("generator_expectation", "exact" if sorted(d[0] for d in base.elements()) == expected else "differs")
        if not (3 <= ndiag <= 12 and len(codes) >= 3):
            ctx.count("programs_rejected_shape")
            continue
        ctx.count("programs")
        pd = digest(source)
        nlines = len(source.splitlines())
        first_code_line = 2 if source.startswith("#!") else 1
        ctx.histo("diagnostics_per_program", str(ndiag))
        ctx.histo("codes_per_program", str(len(codes)))
        ctx.histo("program_shape", "diag-on-first-code-line" if any(d[1] == first_code_line for d in base) else "no-diag-on-first-line")
        ctx.histo("program_shape", "diag-on-last-line" if any(d[1] == nlines for d in base) else "no-diag-on-last-line")
        per_line = Counter(d[1] for d in base.elements())
        ctx.histo("program_shape", "has-multi-diag-line" if any(v >= 2 for v in per_line.values()) else "no-multi-diag-line")
        for c in codes:
            ctx.histo("codes_seen", c)
        if len(ctx.samples) < 2:
            ctx.sample({"program": source, "D(P)": [short(d) for d in sorted(base.elements(), key=repr)]})

        # ---------------- (1) disabling ----------------
        subsets, exhaustive = subsets_of(codes, rng)
        ctx.histo("subset_enumeration", "all" if exhaustive else "64-random")

        def judge(route, S, got, base_r):
            ctx.count("evaluations")
            ctx.count("disable_cases")
            ctx.histo("disable_route", route)
            nontrivial = 0 < len(S) < len(codes)
            if nontrivial:
                ctx.nontrivial((pd, route, S))
                ctx.count("disable_cases_nontrivial")
            removed = sum(base_r.values()) - sum(got.values())
            ctx.histo("disable_removed_diagnostics", str(min(removed, 9)) if removed >= 0 else "negative")
            v = judge_disable(base_r, got, S)
            if v is not None:
                key = f"disable|{route}|{v[0]}"
                what = f"disable {list(S)} via {route}: {v[0]}: {short(v[1])}"
                report(ctx, key, what, {"kind": "disable", "route": route, "source": source, "S": list(S), "codes": codes},
                       seen_keys, 12 if "override" not in route else 30)

        try:
            # override routes: one config / Checker per program carries a section per subset
            # + singletons of codes that have NO diagnostic in D(P): disabling them must change nothing
            foreign = rng.sample([c for c in ALL_CODES if c not in codes and c not in SPECIAL], 2)
            subsets_o = subsets + [(c,) for c in foreign]
            ctx.count("disable_cases_foreign_code", 2 * len(foreign))
            kw_o = kw_from_config(override_config(subsets_o, codes))
            ctx.count("fresh_checker_configs")
            base_o = run_diags(source, kw_o, "vpc11.base.m")
            ctx.histo("baseline_vs_settings", "override:" + ("equal" if base_o == base else "differs"))
            if base_o != base:
                ctx.note(f"program {idx}: baseline under override config differs from settings baseline")
            for j, S in enumerate(subsets_o):
                judge("override", S, run_diags(source, kw_o, override_modname("s", j)), base_o)
                judge("override-disable-all", S, run_diags(source, kw_o, override_modname("d", j)), base_o)
            # a section for another module / a string-prefix of the module name must not apply
            jn = rng.randrange(len(subsets))
            for wrong in (f"vpc11.s{jn}_x.m", f"vpc11.zz.s{jn}"):
                got = run_diags(source, kw_o, wrong)
                ctx.count("evaluations")
                ctx.count("override_nonmatching_cases")
                if got != base_o:
                    v = judge_disable(base_o, got, ())
                    report(ctx, "disable|override-nonmatching-module|" + v[0],
                           f"override section for vpc11.s{jn} changed module {wrong}: {short(v[1])}",
                           {"kind": "nonmatching", "source": source, "S": list(subsets[jn]), "codes": codes,
                            "module": wrong.replace(f"s{jn}", "s0")},
                           seen_keys, 0)
            del kw_o

            # settings / top-level config: every singleton (Checkers shared across programs) + random subsets (fresh)
            base_t = run_diags(source, shared.get("toplevel-base", lambda: kw_from_config(top_level_config())))
            ctx.histo("baseline_vs_settings", "toplevel:" + ("equal" if base_t == base else "differs"))
            if base_t != base:
                ctx.note(f"program {idx}: baseline under top-level config differs from settings baseline")
            for c in codes:
                def mk_s(c=c):
                    ctx.count("fresh_checker_configs")
                    return kw_settings([c])

                def mk_t(c=c):
                    ctx.count("fresh_checker_configs")
                    return kw_from_config(top_level_config([c]))

                judge("settings", (c,), run_diags(source, shared.get(("settings", c), mk_s)), base)
                judge("toplevel", (c,), run_diags(source, shared.get(("toplevel", c), mk_t)), base_t)
            proper = [S for S in subsets if 2 <= len(S)] or subsets
            routes = ["settings", "toplevel", "settings-disable-all", "toplevel-disable-all"]
            if ctx.quick:
                routes = [routes[(idx // ctx.nshards) % 4]]
            for route in routes:
                S = rng.choice(proper if "disable-all" not in route else subsets)
                enable = [c for c in codes if c not in S]
                if route == "settings":
                    kw = kw_settings(S)
                elif route == "toplevel":
                    kw = kw_from_config(top_level_config(S))
                elif route == "settings-disable-all":
                    kw = kw_settings(disable_all_enable=enable)
                else:
                    kw = kw_from_config(top_level_config(disable_all_enable=enable))
                ctx.count("fresh_checker_configs")
                judge(route, S, run_diags(source, kw), base_t if route.startswith("toplevel") else base)
                del kw
            # the real command line, a few times per shard
            if cli_left > 0:
                cli_left -= 1
                base_cli = cli_diags(source, [])
                ctx.count("cli_runs")
                ctx.histo("baseline_vs_settings", "cli:" + ("equal" if base_cli == base else "differs"))
                S = rng.choice([S for S in subsets if 0 < len(S) < len(codes)] or subsets)
                # quick: one of the two forms per shard (alternating), thorough: both
                if not ctx.quick or ctx.shard % 2 == 0:
                    got = cli_diags(source, [a for c in S for a in ("-d", c)])
                    ctx.count("cli_runs")
                    judge("cli", S, got, base_cli)
                if not ctx.quick or ctx.shard % 2 == 1:
                    got = cli_diags(source, ["--disable-all"] + [a for c in codes if c not in S for a in ("-e", c)])
                    ctx.count("cli_runs")
                    judge("cli-disable-all", S, got, base_cli)
        except Undecided as e:
            ctx.count("undecided")
            ctx.note(f"program {idx} (disable part): {e}")

        # ---------------- (2) ignore comments ----------------
        sig = significant_tokens(source)
        for form, line, code, indent, vname, boundary in placements_for(source, base, rng):
            new_source, cl, tl, leading = apply_placement(source, form, line, code, indent)
            try:
                same_tokens = significant_tokens(new_source) == sig
            except (tokenize.TokenError, SyntaxError, IndentationError):
                same_tokens = False
            if not same_tokens:
                ctx.count("placements_rejected_token_stream_changed")
                continue
            try:
                got = run_diags(new_source, kw_c)
            except Undecided as e:
                ctx.count("undecided")
                ctx.note(f"program {idx} placement {form}@{line}: {e}")
                continue
            nl_new = len(new_source.splitlines())
            v, info = judge_comment(base, got, form, line, code, cl, tl, leading, nl_new)
            ctx.count("evaluations")
            ctx.count("comment_cases")
            form_name = "file-level" if leading else form
            ctx.histo("comment_form_x_variant", f"{form_name}:{vname}")
            if info["targeted"]:
                ctx.count("comment_cases_target_has_diag")
            if info["removed"]:
                ctx.count("comment_suppressed_something")
            if any(d[0] == "unused_ignore" for d in got):
                ctx.count("comment_reported_unused")
            if form == "own-line" and line == nlines + 1:
                ctx.count("eof_own_line_cases")
            if leading and code is None:
                ctx.count("file_level_bare_cases")
                ctx.histo("file_level_bare_ignore_reported(observed)", str(info.get("file_level_bare_ignore_reported")))
            if "coded_file_level" in info:
                ctx.histo("coded_file_level_outcome(observed)", f"{vname}:{info['coded_file_level']}")
            if info["targeted"] or boundary or leading:
                ctx.nontrivial((pd, form, line, code, indent))
                ctx.count("comment_cases_nontrivial")
            # where inside the program the comment went
            if form == "own-line" and not leading and line <= nlines:
                ctx.histo("own_line_context", "inside-open-bracket" if _inside_bracket(source, line) else "between-logical-lines")
            if v is not None:
                key, what = key_what(v, form, line, code)
                report(ctx, key, what,
                       {"kind": "comment", "source": source, "form": form, "line": line, "code": code, "indent": indent},
                       seen_keys, 120)


        # ---------------- (3) file headers with 1-3 markers ----------------
        foreign_pool = [c for c in ALL_CODES if c not in codes and c not in SPECIAL]
        hrng = random.Random(f"C11-headers/{ctx.seed}/{idx}")
        for j in range(HEADERS_PER_PROGRAM):
            seq = MARKER_SEQS[(2 * j + idx + idx // ctx.nshards + ctx.seed) % len(MARKER_SEQS)]
            header = build_header(seq, codes, foreign_pool, hrng)
            try:
                got = run_diags(header_source(header, source), kw_c)
            except Undecided as e:
                ctx.count("undecided")
                ctx.note(f"program {idx} header {header!r}: {e}")
                continue
            v, info = judge_header(base, got, header, source)
            ctx.count("evaluations")
            ctx.count("header_cases")
            ctx.histo("header_marker_sequence_length", str(len(seq)))
            ctx.histo("header_markers_in_block_x_after_block", f"{info['in_block']}x{info['after_block']}")
            ctx.histo("header_first_marker_kind", seq[0])
            if info["in_block"] >= 2:
                ctx.count("header_cases_2plus_markers_in_block")
            if info["later_sole_cover"]:
                ctx.count("header_cases_diag_covered_only_by_later_marker")
            if info["bare_after_coded_in_block"]:
                ctx.count("header_cases_bare_marker_after_another_in_block")
            if info["after_block"]:
                ctx.count("header_cases_marker_after_block_end")
            if info["own_line_hits"]:
                ctx.count("header_cases_own_line_marker_hits_first_line_of_P")
            if info["removed"]:
                ctx.count("header_suppressed_something")
            if 0 < info["removed"] < ndiag:
                ctx.count("header_suppressed_proper_part")
            if info["unused_reports"]:
                ctx.count("header_reported_unused")
            if info["multi_outcome"]:
                ctx.histo("header_multi_code_marker_outcome(observed)", info["multi_outcome"])
            if "whole_file_other_markers" in info:
                ctx.histo("header_other_markers_under_bare_file_level(observed)", info["whole_file_other_markers"])
            if info["markers"] >= 2 or info["must"]:
                ctx.nontrivial((pd, "header", tuple(header)))
                ctx.count("header_cases_nontrivial")
            if v is not None:
                key, what = header_key_what(v, header)
                witness = {"kind": "header", "source": source, "header": header}
                if key not in seen_keys:
                    try:
                        witness = minimise_header(witness, key)
                        res = replay(witness)
                        if res and res[0] == key:
                            what = res[1]
                    except Exception as e:  # noqa: BLE001
                        ctx.note(f"header minimiser failed for {key}: {e!r}")
                report(ctx, key, what, witness, seen_keys, 60)

        # ---------------- (4) a diagnostic produced after check() returned, on the command line ----------------
        if late_left > 0 and (ctx.shard % 4 == 2 if ctx.quick else ctx.shard % 2 == 0):
            late_left -= 1
            src2, read_line = with_late_block(source)
            try:
                base_in = run_diags(src2, kw_c)
                base_cli2 = cli_diags(src2, [])
                ctx.count("cli_runs")
                late_here = sorted({d[0] for d in (base_cli2 - base_in) if d[1] == read_line})
                ctx.histo("post_check_baseline", "late-diagnostic:" + ",".join(late_here) if late_here else "no-late-diagnostic")
                match = late_here[0] if late_here else "attribute_is_never_set"
                forms = LATE_FORMS if not ctx.quick else [LATE_FORMS[(ctx.shard // 4 * 3 + k) % len(LATE_FORMS)] for k in range(3)]
                for form_name, variant in forms:
                    code = None if variant == "bare" else match if variant == "match" else codes[ctx.seed % len(codes)]
                    form = "trailing" if form_name == "trailing" else "own-line"
                    line = 1 if form_name == "file-level" else read_line
                    indent = "        " if form_name == "own-line" else ""
                    res, info = late_case(src2, form, line, code, indent, base_cli2, base_in)
                    ctx.count("cli_runs")
                    ctx.count("evaluations")
                    ctx.count("post_check_cases")
                    ctx.histo("post_check_form_x_variant", f"{form_name}:{variant}")
                    if late_here and variant != "other":
                        ctx.count("post_check_cases_aimed_at_late_diagnostic")
                    ctx.nontrivial((pd, "post-check", form_name, variant))
                    if res is None:
                        continue
                    key, what = res
                    witness = {"kind": "comment-cli", "source": src2, "form": form, "line": line, "code": code, "indent": indent}
                    if key not in seen_keys:
                        seen_keys.add(key)
                        small = dict(witness, source="\n".join(LATE_BLOCK[2:]) + "\n", line=1 if form_name == "file-level" else 3)
                        try:
                            r2 = replay(small)
                            if r2 and r2[0] == key:
                                witness, what = small, r2[1]
                        except Exception as e:  # noqa: BLE001
                            ctx.note(f"post-check witness reduction failed for {key}: {e!r}")
                    ctx.violation(key, what, witness)
            except Undecided as e:
                ctx.count("undecided")
                ctx.note(f"program {idx} (post-check part): {e}")


_BRACKET_CACHE: dict = {}


def _inside_bracket(source: str, line: int) -> bool:
    key = digest(source)
    if key not in _BRACKET_CACHE:
        _BRACKET_CACHE.clear()
        depth = 0
        opened: set = set()
        prev_row = 1
        for tok in tokenize.generate_tokens(io.StringIO(source).readline):
            if depth > 0:
                for r in range(prev_row + 1, tok.start[0] + 1):
                    opened.add(r)
            if tok.type == tokenize.OP:
                if tok.string in "([{":
                    depth += 1
                elif tok.string in ")]}":
                    depth -= 1
            prev_row = tok.end[0]
        _BRACKET_CACHE[key] = opened
    return line in _BRACKET_CACHE[key]


# ---------------------------------------------------------------------------
# replay


def replay(witness):
    kind = witness.get("kind")
    try:
        if kind == "comment":
            return comment_case(witness["source"], witness["form"], witness["line"], witness.get("code"),
                                witness.get("indent", ""), comment_kw())
        if kind == "comment-cli":
            return late_case(witness["source"], witness["form"], witness["line"], witness.get("code"),
                             witness.get("indent", ""))[0]
        if kind == "header":
            return header_case(witness["source"], witness["header"], comment_kw())
        if kind == "disable":
            return disable_case(witness["route"], witness["source"], witness["S"], witness["codes"])
        if kind == "interaction":
            return interaction_case(witness["route"], witness["source"], witness["S"])
        if kind == "nonmatching":
            kw = kw_from_config(override_config([witness["S"]], witness["codes"]))
            base = run_diags(witness["source"], kw, "vpc11.base.m")
            got = run_diags(witness["source"], kw, witness["module"])
            v = judge_disable(base, got, ())
            if v is None:
                return None
            return "disable|override-nonmatching-module|" + v[0], f"override section changed another module: {short(v[1])}"
    except Undecided as e:
        print(f"replay undecided: {e}")
        return None
    raise ValueError(f"unknown witness kind {kind!r}")
