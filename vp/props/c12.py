"""C12 — the checker is total: no crash, no internal error, well-formed output.

Monitor (runtime): generated modules (vp/fuzzgen.py broad grammar fuzzer + the shared ill-typed / annotated program
generators) are checked by the real pyanalyze under three configurations; what is observed is
  * an exception escaping check(),
  * an `internal_error` diagnostic (the visitor's catch-all turned a crash into a diagnostic),
  * a malformed diagnostic (unregistered/missing code, no/out-of-file line, column outside the line, empty message,
    context that does not show the reported line) - evaluated twice: on the returned failure dicts and in situ by a
    record-and-return wrapper around the real `BaseNodeVisitor.show_error`,
  * `python -m pyanalyze <file>` ending with a traceback or an exit status other than 0/1,
  * a public Value operation / annotation conversion raising on a well-formed input.
"""
from __future__ import annotations

import ast
import collections
import os
import re
import traceback
import warnings

from vp import harness, fuzzgen
from vp import valuegen as vg

from pyanalyze import node_visitor
from pyanalyze.error_code import ErrorCode

ID = "C12"
LEVEL = "exploration"
TECHNIQUE = "crash / internal_error / diagnostic well-formedness observation on fuzzed programs + in-situ show_error contract + value-API no-raise"
RULE = (
    "program case = one module checked under 3 configurations (test defaults, every code enabled, annotate=True). "
    "Deterministic part (same for every seed): a regression corpus of minimal programs (one per mechanism found so far) "
    "and vocabulary sweeps - every annotation of the vocabulary (incl. strings, forward references, Annotated, star/"
    "Unpack, Callable[..., X], odd Literals, Final/ClassVar, bare special forms, non-type expressions) in every "
    "annotation position (parameter kinds, return, local/attribute/class/module AnnAssign, cast/assert_type, PEP 695 "
    "alias and bound, dataclass/TypedDict/NamedTuple field, quoted); a parameter of every annotation used in ~95 ways "
    "(conditions, calls, subscripts, operators, unpacking, iteration, with, match, f-strings, await/yield); every "
    "ill-typed expression in every expression position; every ill-typed statement inside every compound statement; "
    "odd signatures; PEP 695 type-parameter lists; star-sequence subscripts: every list/tuple display and every variadic "
    "tuple annotation whose members follow one of the 25 patterns over {element, star} of length 0-4 with <= 2 stars (star "
    "sources of unknown length list[int]/tuple[str, ...]/unannotated/undefined, of known length tuple[int, str]/literal/"
    "range, variadic tuple, empty; *tuple[X, ...]/*Ts/Unpack[...]/fixed unpack in annotations) subscripted with every "
    "constant from -(n+3) to n+2 (n = members written), 19 slices around the boundaries, 16 non-literal / ill-typed indices, "
    "and used in ~45 further ways (slice-then-index, unpacking targets with and without star, iteration, len, + and *, "
    "comparison, *args, nested displays, list()/tuple()/sorted(), match sequence patterns, item assignment/deletion/"
    "augmented assignment for lists); awkward values: 73 module-level objects of every awkward runtime kind (closure from a "
    "factory, function-local class / its instance / its bound method, lambda, generator / coroutine / async generator "
    "objects, locks, open file, module object, bound methods, partials, weak references / proxy / WeakValueDictionary, "
    "objects whose __getattr__/__getattribute__/__reduce__/__reduce_ex__/__getstate__/__dir__/__bool__/__len__/__iter__/"
    "__index__/__hash__/__eq__/__repr__/__format__/__call__/__getitem__/__enter__/__setattr__/__contains__/__add__/__lt__/"
    "__instancecheck__ raise an exception the protocol does not expect, lying and raising __class__, hostile metaclass "
    "__getattr__, negative / huge __len__, endless __iter__, answer-everything __getattr__, exception that cannot be "
    "re-created, NaN, self-containing list/dict, memoryview, array, code, frame, descriptors, mappingproxy, thread-local) "
    "each in every USES position and in ~220 further value positions: stored to attributes of receivers of known class "
    "(self.x = V in __init__/methods, annotated, in containers, chained, tuple/star/with/for/walrus targets, cls.x = V, "
    "parameter of annotated class, constructor call result, Union receiver, type[C], module-level instance, setattr), class "
    "attributes, dataclass/enum/NamedTuple fields, parameter defaults, decorators, bases, metaclass and class keywords, "
    "annotations (bare, nested, quoted, Literal, Annotated metadata, Callable), cast/assert_type/isinstance/issubclass "
    "arguments, displays, dict keys, set members, boolean/comparison/arithmetic/format operands, builtins' arguments, "
    "subscripts and slices, unpacking, iteration, with, del, raise/except/from, match subject and class pattern, global "
    "store, await/async for/async with/yield/yield from - checked with the attribute checker active, its final-pass "
    "diagnostics included, and (value positions only) through `python -m pyanalyze`. Random part: weighted random derivations (random part <= ~60 "
    "statement/expression productions) over decorators, classes with bases/metaclass keywords/properties/__slots__, "
    "dataclasses, enums, NamedTuple/TypedDict/Protocol, nested defs, lambdas, the 4 comprehension kinds with nested "
    "if/walrus/async for, star-expressions in calls/displays/targets/subscripts, f-strings with nested specs and '=', "
    "match with every pattern kind, async def/await/async for/async with, generators/yield from, global/nonlocal, del, "
    "chained comparisons, slices with steps, augmented assignment to attributes/subscripts, try/except*, multi-item "
    "with, PEP 695, odd layouts (form feed, no trailing newline, non-ASCII, continuation lines), ill-typed code, and in a "
    "fifth of the derivations the awkward module-level values as names; plus "
    "the shared ill-typed / annotated-program generators (10 % each). Non-trivial = the generated part has >= 8 "
    "distinct AST node types and the check produced >= 1 diagnostic or the part has >= 40 nodes; distinct by "
    "AST-node-type multiset of the generated part. CLI: ~20 generated files per shard through `python -m pyanalyze`, "
    "a CLI regression list, and 10 constant-evaluation termination probes (power, shift, sequence repetition, doubling chain, in-place power, pure builtin / method on literals) under RLIMIT_CPU / RLIMIT_AS. Value-API case = one call of "
    "can_assign/is_assignable/can_overlap(3 modes)/unite_values/==/substitute_typevars/str/repr/hash/simplify on "
    "values of a pool (vp.valuegen core + random; all ordered pairs, sampled triples, deeper random values) or "
    "type_from_runtime (string / object, with and without allow_unpack) / type_from_ast on an annotation (every form "
    "x every atom, then random combinations)."
)
ASSUMPTIONS = [
    "a module is in scope iff CPython compiles it and importing it raises nothing; others are discarded and counted. The import is analysis_lib.make_module "
    "except that the module is registered in sys.modules while its body runs (as for a real import; needed by dataclasses/typing to resolve string annotations)",
    "lines are CPython's physical lines (split at \\n, \\r\\n, \\r); the column is accepted up to the UTF-8 byte length of the line (ast col_offset is a byte offset)",
    "beyond the statement's four clauses one rendering clause is checked: the context printed with a diagnostic contains the reported line and the caret sits under the column",
    "internal_error diagnostics are attributed to the innermost frame inside the pyanalyze package found in the traceback text pyanalyze itself embeds in the message",
    "exception: when the innermost frame of all is the checked module's own __getattribute__ / __getattr__ / __class__ hook (invoked implicitly by an isinstance / getattr / hasattr "
    "probe of a literal object, of which pyanalyze has hundreds), the mechanism is 'unguarded probe of a literal with such a hook' and the key names the hook, not the probing place",
    "a check is also interrupted after 90 CPU-seconds of the worker process (ITIMER_VIRTUAL; the largest generated module needs < 5), besides the 300 s alarm; a program that "
    "exceeds a limit is reported as it is (re-checks for shrinking / confirmation would each use up the limit again)",
    "hash() raising TypeError is excused only for values that wrap an unhashable Python object (by construction of the spec)",
    "Checker() with default options is the CanAssignContext of the value-API half",
    "the shared Checker is reused across programs of a worker (as the CLI does across files); every reported witness is re-confirmed with a fresh Checker",
    "the generator never produces `**` with a computed exponent: pyanalyze evaluates operators on literal operands inside C code where an in-process monitor cannot "
    "interrupt it; unbounded constant folding is observed by a separate probe in a subprocess under RLIMIT_CPU (CPU seconds, not wall-clock)",
]
FLOORS = {
    "quick": {"distinct_nontrivial": 4500, "programs_checked": 3400, "program_checks": 10000, "diagnostics_checked": 450000,
              "contract_evaluations": 1000000, "value_api_calls": 800000, "cli_runs": 160, "annotation_conversions": 15000,
              "regression_programs": 30, "sweep_programs": 480, "termination_probes": 10, "cli_regression_programs": 3,
              "star_sequence_subscripts_programs": 26, "awkward_values_programs": 18, "probe_hook_values_programs": 2, "cli_awkward_programs": 2,
              "attribute_checker_final_pass_diagnostics": 1600},
    "thorough": {"distinct_nontrivial": 15000, "programs_checked": 20000, "program_checks": 60000, "diagnostics_checked": 2500000,
                 "contract_evaluations": 5000000, "value_api_calls": 3000000, "cli_runs": 320, "annotation_conversions": 60000,
                 "regression_programs": 30, "sweep_programs": 480, "termination_probes": 10, "cli_regression_programs": 3,
                 "star_sequence_subscripts_programs": 26, "awkward_values_programs": 18, "probe_hook_values_programs": 2, "cli_awkward_programs": 2,
                 "attribute_checker_final_pass_diagnostics": 1600},
}
NSHARDS = 16
WATCHDOG_S = {"quick": 1500, "thorough": 7200}
PY_FLAGS = {"thorough": ["-X", "dev"]}

CONFIGS = {
    "tests": dict(mode="tests"),
    "all": dict(mode="all"),
    "annotate": dict(mode="tests", annotate=True),
}

warnings.simplefilter("ignore")

# ---------------------------------------------------------------------------
# well-formedness of one failure dict (shared by the post-run check and the in-situ contract)

_LINE_SPLIT = re.compile(r"\r\n|\r|\n")


def py_lines(source: str) -> list:
    lines = _LINE_SPLIT.split(source)
    if lines and lines[-1] == "":
        lines.pop()
    return lines


def is_registered(code) -> bool:
    name = getattr(code, "name", None)
    return isinstance(name, str) and ErrorCode.errors.get(name) is code


def failure_problems(f, lines) -> list:
    """-> list of clause names violated by the failure dict `f` for a file whose physical lines are `lines`."""
    out = []
    code = f.get("code")
    if code is None:
        out.append("code-missing")
    elif not is_registered(code):
        out.append("code-unregistered")
    msg = f.get("message")
    desc = f.get("description")
    if not isinstance(msg, str) or not msg.strip():
        out.append("message-empty")
    if not isinstance(desc, str) or not desc.strip():
        out.append("description-empty")
    lineno = f.get("lineno")
    if code is ErrorCode.internal_error:
        return out  # judged separately; the module-level catch-all has no location by design
    if not isinstance(lineno, int) or isinstance(lineno, bool):
        out.append("lineno-missing")
        return out
    if not (1 <= lineno <= len(lines)):
        out.append("lineno-outside-file")
        return out
    line = lines[lineno - 1]
    col = f.get("col_offset")
    if not isinstance(col, int) or isinstance(col, bool):
        out.append("col-missing")
    elif col < 0:
        out.append("col-negative")
    elif col > len(line.encode("utf-8", "surrogatepass")):
        out.append("col-beyond-line")
    ctxt = f.get("context")
    if isinstance(ctxt, str) and isinstance(msg, str):
        shown = "%4d: %s\n" % (lineno, line)
        if shown not in ctxt:
            out.append("context-lacks-reported-line")
        elif isinstance(col, int) and col >= 0 and (shown + " " * (6 + col) + "^\n") not in ctxt:
            out.append("context-caret-misplaced")
        if ctxt not in msg:
            out.append("message-lacks-context")
    return out


# ---------------------------------------------------------------------------
# in-situ contract on the real BaseNodeVisitor.show_error (record and return; never raises into pyanalyze)


class ShowErrorContract:
    def __init__(self):
        self.evaluations = 0
        self.returned = 0
        self.bad = []          # (clauses, code name, node type)
        self.raised = []       # exception type names raised by show_error itself
        self.nodes = []        # (failure dict, node type name)  for internal_error attribution
        self.broken = []       # the contract's own failures (must stay empty)
        self._lines_for = (None, None)

    def reset(self):
        self.bad, self.raised, self.nodes = [], [], []

    def lines_of(self, visitor):
        contents = getattr(visitor, "contents", "")
        if self._lines_for[0] is not contents:
            self._lines_for = (contents, py_lines(contents))
        return self._lines_for[1]


CONTRACT = ShowErrorContract()
_SAME_VISITOR = {"AsyncFunctionDef": "FunctionDef", "AsyncFor": "For", "AsyncWith": "With"}


def install_contract() -> None:
    orig = node_visitor.BaseNodeVisitor.show_error
    if getattr(orig, "_c12_contract", False):
        return

    def show_error(self, node, *args, **kwargs):
        try:
            res = orig(self, node, *args, **kwargs)
        except BaseException as e:  # noqa: BLE001 - recorded, then propagated unchanged
            if not isinstance(e, node_visitor.VisitorError):
                CONTRACT.raised.append(type(e).__name__)
            raise
        try:
            CONTRACT.evaluations += 1
            if res is not None:
                CONTRACT.returned += 1
                ntype = type(node).__name__ if node is not None else "None"
                ntype = _SAME_VISITOR.get(ntype, ntype)
                probs = failure_problems(res, CONTRACT.lines_of(self))
                if probs:
                    code = res.get("code")
                    CONTRACT.bad.append((probs, getattr(code, "name", repr(code)), ntype))
                if res.get("code") is ErrorCode.internal_error:
                    CONTRACT.nodes.append((res, ntype))
        except BaseException as e:  # noqa: BLE001 - a contract must never raise into pyanalyze
            CONTRACT.broken.append(repr(e))
        return res

    show_error._c12_contract = True
    show_error.__wrapped__ = orig
    node_visitor.BaseNodeVisitor.show_error = show_error


install_contract()

# ---------------------------------------------------------------------------
# mechanism keys

_FRAME_RE = re.compile(r'File "([^"\n]+)", line (\d+), in ([^\n]+)')
_PKG = os.sep + "pyanalyze" + os.sep


def _frame_key(frames, exc_name: str = ""):
    """frames: [(file, lineno, func)] outermost first -> ('module:function', 'file:line') of the innermost pyanalyze frame.
    For RecursionError the innermost frame is wherever the stack happened to run out: the alphabetically first member of
    the recursion cycle (= the pyanalyze frames that occur at least half as often as the most frequent one) is used."""
    if exc_name == "RecursionError":
        cnt = collections.Counter((f, fn) for f, _l, fn in frames if _PKG in f and os.sep + "vp" + os.sep not in f)
        if cnt:
            top = max(cnt.values())
            file, func = sorted((os.path.basename(k[0]), k[1], k) for k, v in cnt.items() if v * 2 >= top)[0][2]
            lineno = next(l for f, l, fn in frames if (f, fn) == (file, func))
            frames = [(file, lineno, func)]
    for file, lineno, func in reversed(frames):
        if _PKG in file and os.sep + "vp" + os.sep not in file:
            mod = os.path.basename(file)
            if mod.endswith(".py"):
                mod = mod[:-3]
            func = func.strip().split(".")[-1]
            return f"{mod}:{func}", f"pyanalyze/{os.path.basename(file)}:{lineno}"
    return "?:?", "?"


# file names import_module() gives the checked module
_CHECKED_MODULE_RE = re.compile(r"^(?:[0-9a-f]{64}\.py|<test input [0-9a-f]+>)$")
# hooks that generic probes (isinstance / issubclass -> __class__, getattr / hasattr -> __getattr__, everything ->
# __getattribute__) invoke implicitly
_PROBE_HOOKS = {"__getattribute__", "__getattr__", "__class__"}


def probe_hook(frames):
    """-> name of the hook, if the innermost frame of the traceback is code of the *checked module itself* running as one
    of the implicitly invoked hooks of a literal object (the checker probed an object of the module with isinstance /
    getattr / hasattr and the object's own hook raised).  pyanalyze probes literal objects in hundreds of places: the
    mechanism is the unguarded probe of a literal with such a hook, not the place that happened to probe first."""
    if frames:
        file, _lineno, func = frames[-1]
        func = func.strip().split(".")[-1]
        if _CHECKED_MODULE_RE.match(os.path.basename(file)) and func in _PROBE_HOOKS:
            return func
    return None


_VISIT_RE = re.compile(r"^visit_([A-Za-z]+)$")
_COMPOSITE = {"subscript": "Subscript", "attribute": "Attribute", "name": "Name", "walrus": "NamedExpr"}
_COMPOSITE_RE = re.compile(r"composite_from_(subscript|attribute|name|walrus)")
_AST_OBJ_RE = re.compile(r"<(?:_?ast\.)(\w+) object")


def visited_node(frames, message: str, fallback: str) -> str:
    """Third key component: the AST node type being visited, *if the crash site determines it* - i.e. the innermost
    pyanalyze frame is itself a visitor method (visit_X of the main or the annotation visitor, composite_from_x, or
    generic_visit, whose message names the node).  A crash inside a helper that is reachable from many node kinds
    (boolability, signature binding, typeshed lookup, ...) gets '-': the node on which the catch-all happened to report
    is the nearest dispatched ancestor and differs from program to program for one and the same defect."""
    for file, _lineno, func in reversed(frames):
        if _PKG not in file or os.sep + "vp" + os.sep in file:
            continue
        func = func.strip().split(".")[-1]
        if func == "generic_visit":
            m = _AST_OBJ_RE.search(message)
            if m:
                return m.group(1)
        m = _VISIT_RE.match(func)
        if m and m.group(1)[:1].isupper():
            return _SAME_VISITOR.get(m.group(1), m.group(1))
        m = _COMPOSITE_RE.search(func)
        if m:
            return _COMPOSITE[m.group(1)]
        return "-"
    return fallback


def frames_of_text(text: str) -> list:
    return [(m.group(1), int(m.group(2)), m.group(3)) for m in _FRAME_RE.finditer(text)]


def frames_of_exc(exc: BaseException) -> list:
    return [(fs.filename, fs.lineno, fs.name) for fs in traceback.extract_tb(exc.__traceback__)]


_EXC_RE = re.compile(r"Internal error: ([A-Za-z_][A-Za-z0-9_.]*)")


def norm_exc_msg(s: str) -> str:
    s = harness.normalise_text(s)
    s = re.sub(r"0x[0-9a-fA-F]+", "0x#", s)
    s = re.sub(r"'[^']*'|\"[^\"]*\"", "'..'", s)
    s = re.sub(r"\d+", "#", s)
    return s[:90]


def internal_error_key(failure, node_type: str):
    desc = str(failure.get("description", ""))
    m = _EXC_RE.search(desc)
    if m is None:
        # patma's "Match value is not a literal" and similar direct uses of the code
        first = desc.splitlines()[0] if desc else ""
        return f"internal_error|direct:{norm_exc_msg(first.split(':')[0])}|{node_type}", "?"
    exc = m.group(1).split(".")[-1]
    frames = frames_of_text(desc)
    where, fileline = _frame_key(frames, exc)
    hook = probe_hook(frames)
    if hook is not None:
        return f"internal_error|{exc}|unguarded-probe-of-literal:{hook}|-", fileline
    node = "-" if exc == "RecursionError" else visited_node(frames, desc[m.start():], node_type)
    return f"internal_error|{exc}|{where}{validator_rule(exc, desc[m.start():])}|{node}", fileline


def validator_rule(exc: str, message: str) -> str:
    """Signature.validate() is one frame for many rules: the rule that fired (parameter kinds abstracted from names)
    is the mechanism."""
    if exc != "InvalidSignature":
        return ""
    m = re.search(r"of kind (\w+) may not follow param of\s+kind ([\w, ]+?) \{", message)
    if m:
        return f"[{m.group(1)}-after-{'/'.join(sorted(m.group(2).split(', ')))}]"
    if "may not have a default" in message:
        m = re.search(r"of kind (\w+) may not have a default", message)
        return f"[{m.group(1) if m else '?'}-with-default]"
    if "has no default but follows" in message:
        return "[no-default-after-default]"
    if "do not match" in message:
        return "[names-do-not-match]"
    return "[other]"


def escaped_key(exc: BaseException):
    frames = frames_of_exc(exc)
    where, fileline = _frame_key(frames, type(exc).__name__)
    hook = probe_hook(frames)
    if hook is not None:
        return f"escaped|{type(exc).__name__}|unguarded-probe-of-literal:{hook}|-", fileline
    node = "-" if isinstance(exc, RecursionError) else visited_node(frames, str(exc), "?")
    return f"escaped|{type(exc).__name__}|{where}{validator_rule(type(exc).__name__, str(exc))}|{node}", fileline


def last_line(desc: str) -> str:
    lines = [l for l in str(desc).strip().splitlines() if l.strip()]
    return lines[-1][:300] if lines else ""


# line boundaries for str.splitlines() but not for CPython's tokenizer
_SPLITLINES_ONLY = re.compile("[\x0b\x0c\x1c\x1d\x1e\x85\u2028\u2029]")


def malformed_key(clause: str, code_name: str, source: str) -> str:
    if clause.startswith(("code-", "message-", "description-", "lineno-missing", "col-missing")):
        return f"malformed|{clause}|{code_name}"
    if _SPLITLINES_ONLY.search(source):
        return f"malformed|{clause}|source-has-a-separator-only-str.splitlines-honours"
    return f"malformed|{clause}"


# ---------------------------------------------------------------------------
# checking one program under one configuration


def import_module(source: str):
    """analysis_lib.make_module, except that the module is registered in sys.modules *while* its body runs, as for a
    real import (dataclasses and typing look the defining module up there to resolve string annotations; without
    this every dataclass under `from __future__ import annotations` would fail to import)."""
    import linecache
    import secrets
    import sys
    import types

    from pyanalyze.analysis_lib import _FakeLoader

    token = secrets.token_hex()
    name = f"<test input {secrets.token_hex()}>"
    filename = f"{token}.py"
    mod = types.ModuleType(name)
    scope = mod.__dict__
    scope["__name__"] = name
    scope["__file__"] = filename
    scope["__loader__"] = _FakeLoader(source)
    linecache.lazycache(filename, scope)
    code = compile(source, filename, "exec", dont_inherit=True)  # c12.py itself has `from __future__ import annotations`
    sys.modules[name] = mod
    try:
        exec(code, scope)
    except BaseException:
        sys.modules.pop(name, None)
        raise
    return mod


class CheckTimeout(BaseException):
    """raised by the per-check alarm (a BaseException so that pyanalyze's catch-alls do not swallow it)"""


CHECK_LIMIT_S = 300  # a check of a <=100-line module normally takes 0.01-0.5 s
CHECK_CPU_LIMIT_S = 90  # CPU seconds of this process (ITIMER_VIRTUAL): independent of the load of the machine; the largest sweep module needs < 5


def _on_alarm(signum, frame):
    raise CheckTimeout()


MEMORY_LIMIT_BYTES = 3 << 30     # RLIMIT_AS of the worker (a worker normally has 0.2-0.6 GiB mapped)
PEAK_GROWTH_LIMIT_KB = 1 << 20   # one check may raise the peak resident set of the worker by at most 1 GiB


def limit_memory():
    """pyanalyze evaluates some functions on literal arguments and swallows every Exception they raise, MemoryError
    included: an evaluation that allocates without end would take the machine down and, once it is stopped by a limit,
    leave no trace in the diagnostics.  The address space of the worker is therefore limited and the growth of its peak
    resident set is measured around every check."""
    import resource

    soft, hard = resource.getrlimit(resource.RLIMIT_AS)
    # relative to what the worker has mapped already: after an earlier check has run into the limit the allocator may
    # not have given everything back (debug allocators of `-X dev` never do), and an absolute limit would then make
    # every later, innocent check fail with MemoryError
    limit = min(max(MEMORY_LIMIT_BYTES, _mapped_bytes() + MEMORY_HEADROOM_BYTES), MEMORY_LIMIT_BYTES + MEMORY_HEADROOM_BYTES)
    if hard != resource.RLIM_INFINITY:
        limit = min(limit, hard)
    if soft == resource.RLIM_INFINITY or soft > limit:
        resource.setrlimit(resource.RLIMIT_AS, (limit, hard))
    return soft, hard


MEMORY_HEADROOM_BYTES = 3 << 29  # 1.5 GiB above what is mapped when a check starts


def _mapped_bytes() -> int:
    try:
        with open("/proc/self/statm") as f:
            return int(f.read().split()[0]) * os.sysconf("SC_PAGE_SIZE")
    except Exception:  # noqa: BLE001
        return 0


def _give_memory_back() -> None:
    """after a check that grew the worker a lot: collect and ask glibc to return free heap pages to the system"""
    import ctypes
    import gc

    gc.collect()
    try:
        ctypes.CDLL("libc.so.6").malloc_trim(0)
    except Exception:  # noqa: BLE001
        pass


def unlimit_memory(previous) -> None:
    """the limit only holds while a check runs: after an evaluation has used it up, the worker's own allocations must
    not fail (the allocator does not give everything back at once)"""
    import resource

    try:
        resource.setrlimit(resource.RLIMIT_AS, previous)
    except (ValueError, OSError):
        pass


def _peak_rss_kb() -> int:
    import resource

    return resource.getrusage(resource.RUSAGE_SELF).ru_maxrss


def observe(source: str, config: str, fresh: bool = False):
    """-> ('unimportable'|'ok', [(key, what, lineno)], stats) ; stats = dict(diags=..., codes=Counter)"""
    holder = []
    try:
        return _observe(source, config, fresh, holder)
    finally:
        # The generated modules hold values of awkward runtime kinds (frames, tracebacks, thread-locals, suspended
        # coroutines): through a frame the whole caller chain of the import - and with it the Result, the visitor and
        # the syntax tree of this check - stays reachable from the functions pyanalyze caches per checker, and the
        # collector does not free it.  A thorough shard grew by ~1.3 MiB per program that way (4.6 GiB per shard, the
        # machine ran out of memory).  Once everything has been read off the result the namespace is emptied.
        for module in holder:
            try:
                vars(module).clear()
            except Exception:  # noqa: BLE001
                pass
        # ... and the checker that is shared between programs (the way the CLI shares one between files) is replaced
        # now and then: its CallableTracker and ArgSpecCache keep the scopes of every module they have seen
        _OBSERVED[0] += 1
        if _OBSERVED[0] % RECYCLE_CHECKERS_EVERY == 0:
            import gc

            harness._KW_CACHE.clear()
            gc.collect()


RECYCLE_CHECKERS_EVERY = 100
_OBSERVED = [0]


def _observe(source: str, config: str, fresh: bool, holder: list):
    import signal

    CONTRACT.reset()
    previous_limit = limit_memory()
    peak0 = _peak_rss_kb()
    kw = dict(CONFIGS[config])
    old = signal.signal(signal.SIGALRM, _on_alarm)
    old_vt = signal.signal(signal.SIGVTALRM, _on_alarm)
    signal.alarm(CHECK_LIMIT_S)
    signal.setitimer(signal.ITIMER_VIRTUAL, CHECK_CPU_LIMIT_S)
    module = None
    try:
        module = import_module(source)
        holder.append(module)
        res = harness.run(source, fresh_checker=fresh, module=module, **kw)
    except (KeyboardInterrupt, SystemExit):
        raise
    except BaseException as e:  # noqa: BLE001 - raised by ast.parse / the import: the module is out of scope
        return "unimportable", [], {"why": type(e).__name__}
    finally:
        signal.alarm(0)
        signal.setitimer(signal.ITIMER_VIRTUAL, 0)
        signal.signal(signal.SIGALRM, old)
        signal.signal(signal.SIGVTALRM, old_vt)
        unlimit_memory(previous_limit)
        harness.forget_module(module)
    found = []
    lines = py_lines(source)
    if isinstance(res.exception, CheckTimeout):
        where, fileline = _frame_key(frames_of_exc(res.exception))
        found.append(("hang|check-exceeded-limit", f"[{config}] the check did not finish within {CHECK_CPU_LIMIT_S} CPU-seconds / {CHECK_LIMIT_S} s (interrupted in {where}, {fileline})", None))
    elif res.exception is not None:
        key, fileline = escaped_key(res.exception)
        found.append((key, f"[{config}] exception escaped check(): {res.exception!r} at {fileline}", None))
    grown = _peak_rss_kb() - peak0
    if grown > (256 << 10):
        _give_memory_back()
    if grown > PEAK_GROWTH_LIMIT_KB:
        found.append(("memory|check-grew-peak-rss-beyond-limit", f"[{config}] the check raised the peak resident set of the process by {grown >> 10} MiB "
                      f"(limit {PEAK_GROWTH_LIMIT_KB >> 10} MiB; address space limited to {MEMORY_LIMIT_BYTES >> 20} MiB)", None))
    raw = list(getattr(res, "raw", []))
    # diagnostics of the attribute checker's final pass (ClassAttributeChecker.__exit__ -> check_attribute_reads) are shown
    # through the visitor after check() has returned its list: they are in visitor.all_failures only
    returned = {id(r) for r in raw}
    final_pass = [f for f in (getattr(res.visitor, "all_failures", None) or []) if id(f) not in returned] if res.exception is None else []
    raw += final_pass
    codes = collections.Counter()
    for f in raw:
        code = f.get("code")
        codes[getattr(code, "name", "<none>")] += 1
        if code is ErrorCode.internal_error:
            ntype = next((nt for r, nt in CONTRACT.nodes if r is f), "?")
            key, fileline = internal_error_key(f, ntype)
            found.append((key, f"[{config}] internal_error at line {f.get('lineno')}: {last_line(f.get('description'))} ({fileline}; visiting {ntype})", f.get("lineno")))
        for p in failure_problems(f, lines):
            found.append((malformed_key(p, getattr(code, "name", "<none>"), source),
                          f"[{config}] diagnostic {getattr(code, 'name', code)} lineno={f.get('lineno')} col={f.get('col_offset')} "
                          f"nlines={len(lines)}: {p}; description: {str(f.get('description'))[:120]!r}", f.get("lineno")))
    # in situ: diagnostics that were shown (written to stderr) though not saved, and show_error itself raising
    for probs, cname, ntype in CONTRACT.bad:
        for p in probs:
            k = malformed_key(p, cname, source)
            if not any(k == fk[0] for fk in found):
                found.append((k, f"[{config}] show_error contract: {p} for code {cname} on a {ntype} node", None))
    for name in CONTRACT.raised:
        k = f"show_error-raised|{name}"
        found.append((k, f"[{config}] show_error itself raised {name}", None))
    stats = {"diags": len(raw), "codes": codes, "contract": CONTRACT.evaluations, "final_pass": len(final_pass)}
    # one (key, what) per key
    seen, out = set(), []
    for k, w, ln in found:
        if k not in seen:
            seen.add(k)
            out.append((k, w, ln))
    return "ok", out, stats


# ---------------------------------------------------------------------------
# shrinking: greedy statement deletion on the source text (layout of the surviving lines is preserved)


def _dedent_block(lines, by: int):
    out = []
    for l in lines:
        if l.strip() and not l.startswith(" " * by):
            return None
        out.append(l[by:] if l.strip() else l)
    return out


def _candidates(source: str, target_line):
    """Edits, most promising first: delete statements that do not contain the reported line (largest first), hoist a
    block of a compound statement that contains it, finally replace statements by `pass`."""
    tree = ast.parse(source)
    lines = source.split("\n")
    per_line = collections.Counter()
    stmts = []
    in_function = set()  # statements that are (transitively) inside a function body: never executed by the import
    for fn in ast.walk(tree):
        if isinstance(fn, (ast.FunctionDef, ast.AsyncFunctionDef)):
            for st in fn.body:
                for sub in ast.walk(st):
                    in_function.add(id(sub))
    for node in ast.walk(tree):
        if isinstance(node, ast.stmt):
            lo = min([node.lineno] + [d.lineno for d in getattr(node, "decorator_list", [])])
            stmts.append((lo, node.end_lineno, node.col_offset, node))
            per_line[lo] += 1
    dele, hoist, repl = [], [], []
    for lo, hi, col, node in stmts:
        if per_line[lo] > 1 and not isinstance(node, (ast.FunctionDef, ast.AsyncFunctionDef, ast.ClassDef)):
            continue
        inside = target_line is not None and lo <= target_line <= hi
        size = hi - lo + 1
        if not inside:
            dele.append((-size, lo, lines[: lo - 1] + lines[hi:]))
            repl.append((-size, lo, lines[: lo - 1] + [" " * col + "pass"] + lines[hi:]))
        elif id(node) in in_function and not isinstance(node, (ast.FunctionDef, ast.AsyncFunctionDef)):
            # hoisting must never move code to a place where importing the module would execute it
            blocks = []
            for field in ("body", "orelse", "finalbody"):
                blk = getattr(node, field, None)
                if isinstance(blk, list) and blk and isinstance(blk[0], ast.stmt):
                    blocks.append(blk)
            for h in getattr(node, "handlers", []) or []:
                blocks.append(h.body)
            for c in getattr(node, "cases", []) or []:
                blocks.append(c.body)
            for blk in blocks:
                b_lo = min([blk[0].lineno] + [d.lineno for d in getattr(blk[0], "decorator_list", [])])
                b_hi = blk[-1].end_lineno
                if not (b_lo <= target_line <= b_hi) or b_lo == lo:
                    continue
                ded = _dedent_block(lines[b_lo - 1: b_hi], blk[0].col_offset - col)
                if ded is not None:
                    hoist.append((-size, lo, lines[: lo - 1] + ded + lines[hi:]))
    # bulk steps first: drop every top-level def/class (then: every top-level statement) that does not contain the line
    if target_line is not None:
        tops = [(min([n.lineno] + [d.lineno for d in getattr(n, "decorator_list", [])]), n.end_lineno, n) for n in tree.body]
        for only_defs in (False, True):
            drop = [(lo, hi) for lo, hi, n in tops if not (lo <= target_line <= hi)
                    and (not only_defs or isinstance(n, (ast.FunctionDef, ast.AsyncFunctionDef, ast.ClassDef)))
                    and not (isinstance(n, ast.ImportFrom) and n.module == "__future__")]
            if len(drop) >= 2:
                gone = set()
                for lo, hi in drop:
                    gone.update(range(lo, hi + 1))
                yield "\n".join(l for k, l in enumerate(lines, 1) if k not in gone)
    dele.sort(key=lambda t: t[:2])
    hoist.sort(key=lambda t: t[:2])
    repl.sort(key=lambda t: t[:2])
    for group in (dele, hoist, repl):
        for _, _, cand in group:
            yield "\n".join(cand)


def _compiles(src: str) -> bool:
    try:
        compile(src, "<shrink>", "exec", dont_inherit=True)
        return True
    except Exception:  # noqa: BLE001
        return False


def shrink(source: str, config: str, key: str, target_line=None, budget: int = 150):
    """Greedy statement deletion / block hoisting on the source text while the same key persists (layout of the surviving
    lines is kept). -> (smaller source, number of re-checks used)"""
    used = 0
    changed = True
    tried = set()
    while changed and used < budget:
        changed = False
        try:
            cands = _candidates(source, target_line)
            for cand in cands:
                if used >= budget:
                    break
                if cand == source or cand in tried or not _compiles(cand):
                    continue
                tried.add(cand)
                used += 1
                status, found, _ = observe(cand, config)
                hit = next((f for f in found if f[0] == key), None) if status == "ok" else None
                if hit is not None:
                    source, target_line = cand, hit[2]
                    changed = True
                    break
        except Exception:  # noqa: BLE001
            break
    return source, used


def confirm_fresh(source: str, config: str, key: str):
    status, found, _ = observe(source, config, fresh=True)
    for k, w, _ln in found:
        if k == key:
            return w
    return None


# ---------------------------------------------------------------------------
# regression corpus: one minimal program per mechanism found so far, checked first by every run so that the set of
# reported keys does not depend on the seed finding a rare crash site again

REGRESSION = [
    # class keyword visited through visit(): visit_keyword returns a tuple (needs implicit_any, i.e. the 'all' configuration)
    "from typing import TypedDict\nclass C0(TypedDict, total=False):\n    pass\n",
    "class Meta(type): pass\nclass C1(metaclass=Meta):\n    pass\n",
    # Ellipsis default of `detail` reaches CanAssignError.display
    "def f():\n    return range('a')\n",
    # suggested return type over a metaclass literal
    "class Meta(type): pass\ndef f(x):\n    if x:\n        return Meta\n    return int\n",
    # loop directly in a class body (no function scope)
    "from typing import NamedTuple\ndef f():\n    class B(NamedTuple):\n        while True:\n            pass\n",
    "def f():\n    class B:\n        while True:\n            break\n        for i in (): pass\n",
    # *args preprocessed without a position
    "import os\ndef f(c):\n    os.path.join(*c, 10**30, 'k')\n",
    # boolability of ParamSpec components
    "from typing import ParamSpec\nP = ParamSpec('P')\ndef f(*a: P.args, **k: P.kwargs):\n    if a: pass\n    if k: pass\n    return not a, a and k, (1 if k else 2)\n",
    # str.splitlines()-only separators (form feed on its own line is legal Python)
    "def f():\n    pass\n\x0c\ndef g():\n    return undef1\n",
    "x = 1\n\x0c\ndef g():\n    return undef1  # static analysis: ignore\n",
    # match value patterns that are not literals
    "def f(x):\n    match x:\n        case undef1.x:\n            pass\n",
    # unpacked tuple as *args annotation after an ordinary parameter
    "def f(p, *args: *tuple[int, str]): pass\n",
    # bare special forms as annotations
    "from typing import Annotated\ndef f(x: Annotated): pass\n",
    "from typing import Annotated\ndef f():\n    x: Annotated\n",
    # non-type expressions in annotations
    "from __future__ import annotations\ndef f(a: int or str, b: int if a else str, c: f'{int}', d: lambda: int, e: [x for x in (int,)]): pass\n",
    "def f(x: 'lambda: 1') -> 'int or str': pass\n",
    "from __future__ import annotations\nv: int or str = 1\n",
    # PEP 695 bounds: undefined name, self reference, string that is not a type
    "def f[T: undef1](x: T) -> T: return x\n",
    "def f[T: list[T]](x: T) -> T: return x\n",
    "def f[T: 'lambda: 1'](x: T) -> T: return x\n",
    # literals too large to print
    "def f() -> str:\n    return 10 ** 5000\n",
    "def f():\n    x = 10 ** 5000\n    return x.nope\n",
    # name-mangled attribute read on a super() object (ClassAttributeChecker)
    "class C:\n    def f(self):\n        return super().__nope\n",
    # zero-argument super() in a function nested in a method whose first parameter has a literal default
    "class C0:\n    def odd(q: int = 1):\n        def helper():\n            return super().nope\n        return helper\n",
    # generator whose declared return type mentions a ParamSpec callable
    "from typing import Callable, ParamSpec, TypeVar\nP = ParamSpec('P'); T = TypeVar('T')\ndef helper(*, s) -> list[Callable[P, T]]:\n    yield 'ab'\n",
    # attribute of `T or x` for a constrained type variable
    "def f0[T: (int, str)](x):\n    return (T or x).attr\n",
    # two consecutive yields, the first inside an augmented assignment to an attribute
    "def f0(x):\n    g = x\n    g.x %= (yield)\n    y = (yield 1)\n",
    # Callable with a ParamSpec inside the parameter list
    "from typing import Callable, ParamSpec\nP = ParamSpec('P')\ndef f(x: Callable[[P, int], int]): pass\n",
    # module-level objects of awkward runtime kinds (found by the awkward-value sweeps) ---------------------------------
    # an object that answers every attribute access and every subscript: __attrs_attrs__ is iterated without end ...
    "class Dyn:\n    def __getattr__(self, name): return self\n    def __getitem__(self, k): return self\nX = Dyn()\ndef f():\n    return X.meth\n",
    # ... and sorted() (a function evaluated on literal arguments) builds a list without end
    "class Dyn:\n    def __getitem__(self, k): return self\nX = Dyn()\ndef f():\n    return sorted(X)\n",
    # repr() of a literal in a message
    "class R:\n    def __repr__(self): raise ValueError('r')\nX = R()\ndef f(x):\n    return isinstance(x, (X, int)), issubclass(x, (X,))\n",
    "class R:\n    def __repr__(self): raise ValueError('r')\nX = R()\ndef f():\n    try:\n        pass\n    except X:\n        pass\n",
    # a list that contains itself as inferred return value
    "X = []\nX.append(X)\ndef f():\n    return X\n",
    # an object whose __class__ claims to be int as operand
    "class L:\n    @property\n    def __class__(self): return int\nX = L()\ndef f():\n    return X * X, X << X, X ** 2\n",
    # implicitly invoked hooks that raise: __getattribute__, __class__, __getattr__ of the metaclass / of the object
    "class G:\n    def __getattribute__(self, name): raise ValueError(name)\nX = G()\ndef f():\n    return X + 1\n",
    "class K:\n    @property\n    def __class__(self): raise ValueError('c')\nX = K()\ndef f():\n    return X + 1\n",
    "class M(type):\n    def __getattr__(cls, name): raise ValueError(name)\nclass C(metaclass=M): pass\ndef f():\n    return C()\n",
    "class A:\n    def __getattr__(self, name): raise ValueError(name)\nX = A()\ndef f(x: X):\n    @X\n    def g(): pass\n    return g\n",
    # values pickle rejects with AttributeError / ValueError / RuntimeError stored to an attribute of a receiver of known class
    "def mk():\n    def inner(): pass\n    class Local: pass\n    return inner, Local, Local()\nA, B, C = mk()\nclass H:\n    def __init__(self):\n        self.a = A\n        self.b = B\n        self.c = [C]\n",
    "class S:\n    def __getstate__(self): raise RuntimeError('s')\nclass Rd:\n    def __reduce__(self): raise ValueError('r')\nX = S(); Y = Rd()\nclass H:\n    def m(self, o: 'H'):\n        self.x = X\n        o.y = (Y, 1)\n",
    # a super object called like a function
    "class C:\n    def meth(self):\n        return super()(1)\n",
    # negative constant index beyond the members written in a display with a star member
    "def f(xs: list[int], ts: tuple[str, ...]):\n    return (1, *xs)[-3], [*xs, 'a'][-4], (*ts, 1, *xs)[-5], (1, *xs)[-3:], (1, *xs)[5]\n",
    "def f(v: tuple[int, *tuple[str, ...], bytes], w: tuple[*tuple[int, ...], str]):\n    return v[-4], v[-1], v[3], w[-3], w[-1], w[2]\n",
]
# checked through `python -m pyanalyze` by every run (the ClassAttributeChecker of the CLI runs outside any catch-all)
CLI_REGRESSION = [
    "class C:\n    def f(self):\n        return super().__nope\n",
    "from __future__ import annotations\nv: int or str = 1\n",
    # the attribute checker's bookkeeping (pickle probe of stored values, final pass over the reads) outside any catch-all
    "def mk():\n    def inner(): pass\n    class Local: pass\n    return inner, Local, Local()\nA, B, C = mk()\nclass H:\n    def __init__(self):\n        self.a = A\n        self.b = B\n        self.c = [C]\n    def r(self):\n        return self.a, self.nope\n",
]


# ---------------------------------------------------------------------------
# program half


_BASE_COUNTS = None


def _base_counts():
    global _BASE_COUNTS
    if _BASE_COUNTS is None:
        c = collections.Counter(type(n).__name__ for n in ast.walk(ast.parse(fuzzgen.HEADER + fuzzgen.TAIL)))
        _BASE_COUNTS = c
    return _BASE_COUNTS


def check_program(ctx, source: str, feats, origin: str, minimise: bool = True, shrunk_keys=None) -> None:
    """One case: the program under all three configurations."""
    try:
        tree = ast.parse(source)
        with warnings.catch_warnings():
            warnings.simplefilter("ignore")
            compile(source, "<c12>", "exec", dont_inherit=True)
    except Exception:  # noqa: BLE001
        ctx.count("programs_not_compilable")
        return
    ctx.count("evaluations")
    total_diags = 0
    all_found = {}
    for config in CONFIGS:
        status, found, stats = observe(source, config)
        if status == "unimportable":
            ctx.count("programs_import_failed")
            ctx.histo("import_failures", stats["why"])
            return
        ctx.count("program_checks")
        ctx.count("diagnostics_checked", stats["diags"])
        ctx.count("attribute_checker_final_pass_diagnostics", stats["final_pass"])
        total_diags += stats["diags"]
        for c, n in stats["codes"].items():
            ctx.histo("diagnostic_codes", c, n)
        for k, w, ln in found:
            all_found.setdefault(k, (config, w, ln))
        if any(k.startswith(("hang|", "memory|")) for k, _w, _ln in found):
            break  # the other configurations would only use up their limits too
    ctx.count("programs_checked")
    ctx.histo("origin", origin)
    for f in feats:
        ctx.histo("grammar_productions", f)
    types = collections.Counter(type(n).__name__ for n in ast.walk(tree))
    if origin == "fuzz" or origin.startswith("sweep:"):
        types = types - _base_counts()
    for t, n in types.items():
        ctx.histo("ast_node_kinds", t, n)
    nnodes = sum(types.values())
    ctx.count("ast_nodes_checked", nnodes)
    if len(types) >= 8 and (total_diags >= 1 or nnodes >= 40):
        ctx.nontrivial(sorted(types.items()))
        ctx.count("programs_nontrivial")
    if total_diags:
        ctx.count("programs_with_diagnostics")
    if len(ctx.samples) < 2 and origin == "fuzz":
        ctx.sample({"program": source[len(fuzzgen.HEADER) - 200:][:1800]})
    for key, (config, what, ln) in sorted(all_found.items()):
        ctx.histo("violation_key_by_origin", f"{origin.split(':')[0]} -> {key}")
        report(ctx, source, config, key, what, ln, minimise, shrunk_keys)


def report(ctx, source, config, key, what, target_line=None, minimise=True, shrunk_keys=None) -> None:
    ctx.histo("violations_by_config", config)
    if shrunk_keys is None:
        shrunk_keys = {}
    seen = shrunk_keys.get(("seen", key), 0)
    shrunk_keys[("seen", key)] = seen + 1
    if seen >= 3 and key in ctx.violations:
        # the fourth and later occurrences of a mechanism in this shard are only counted (a witness is kept already)
        ctx.violation_counts[key] = ctx.violation_counts.get(key, 0) + 1
        return
    if key.startswith(("hang|", "memory|")):
        # every re-check of a program that does not terminate / allocates without end uses up the whole limit: no shrinking, no re-confirmation
        ctx.violation(key, what + "\n--- program ---\n" + source, {"kind": "program", "source": source, "config": config, "expect": key})
        return
    if minimise and shrunk_keys.get(key, 0) < 1:
        shrunk_keys[key] = shrunk_keys.get(key, 0) + 1
        small, used = shrink(source, config, key, target_line)
        ctx.count("shrink_rechecks", used)
        ctx.count("witnesses_minimised")
    else:
        small = source
    w2 = confirm_fresh(small, config, key)
    if w2 is None:
        w2 = confirm_fresh(source, config, key)
        small = source
        if w2 is None:
            # only with the history of this worker's shared Checker: still a crash, but not replayable in isolation
            ctx.count("violations_needing_checker_history")
            ctx.note(f"not reproducible with a fresh Checker: {key}")
            return
    ctx.violation(key, w2 + "\n--- minimal program ---\n" + small, {"kind": "program", "source": small, "config": config, "expect": key})


def program_phase(ctx) -> None:
    rng = ctx.rng
    shrunk = {}
    # deterministic part: regression corpus + vocabulary sweeps (independent of the seed)
    for i, src in enumerate(REGRESSION):
        if ctx.mine(i):
            ctx.count("regression_programs")
            check_program(ctx, src, [], "regression", minimise=False)
    for name, src in fuzzgen.sweep_programs(ctx.mine):
        ctx.count("sweep_programs")
        if name in ("star-sequence-subscripts", "awkward-values", "probe-hook-values"):
            ctx.count(name.replace("-", "_") + "_programs")
        # the probe-hook objects make the checker fail in every statement that touches them: the witnesses of those
        # mechanisms are the minimal programs of the regression corpus, not shrunk copies of the sweep module
        check_program(ctx, src, [], "sweep:" + name, minimise=name != "probe-hook-values", shrunk_keys=shrunk)
    n = ctx.pick(400, 2500)
    n_fuzz = int(n * 0.8)
    for i in range(n):
        if i < n_fuzz:
            src, feats, rejected = fuzzgen.gen_program(rng)
            ctx.count("generator_syntax_rejected", rejected)
            if src is None:
                continue
            origin = "fuzz"
        elif i % 2:
            from vp import illtyped

            src, feats, origin = illtyped.gen_program(rng), [], "illtyped"
        else:
            from vp import proggen

            src, _, prods = proggen.gen_module(rng)
            feats, origin = [], "proggen"
        check_program(ctx, src, feats, origin, shrunk_keys=shrunk)
    ctx.count("contract_evaluations", CONTRACT.evaluations)
    ctx.count("contract_failures_returned", CONTRACT.returned)
    if CONTRACT.broken:
        ctx.violation("contract-broken", f"the show_error contract itself failed: {CONTRACT.broken[:3]}", {"kind": "none"})


# ---------------------------------------------------------------------------
# CLI sample


_TB_RE = re.compile(r"Traceback \(most recent call last\):")
_ANSI_RE = re.compile(r"\x1b\[[0-9;]*m")


def cli_check(path_or_paths, cwd: str, timeout: float = 900.0):
    """-> (key, what) or None"""
    return _cli_check(path_or_paths, cwd, timeout)


def _cli_probe_hook(frames, cwd: str):
    """probe_hook() for a traceback of the CLI: the checked files are the ones under cwd"""
    if frames:
        file, _lineno, func = frames[-1]
        func = func.strip().split(".")[-1]
        if os.path.dirname(os.path.abspath(file)) == os.path.abspath(cwd) and func in _PROBE_HOOKS:
            return func
    return None


def _cli_check(path_or_paths, cwd: str, timeout: float):
    paths = [path_or_paths] if isinstance(path_or_paths, str) else list(path_or_paths)
    try:
        p = harness.run_cli(paths, cwd=cwd, timeout=timeout)
    except Exception as e:  # noqa: BLE001
        return f"cli|{type(e).__name__}", f"python -m pyanalyze did not finish: {e!r}"
    err = _ANSI_RE.sub("", p.stderr or "")
    # pyanalyze prints internal_error diagnostics (which embed a traceback) as ordinary output: those are the program
    # half's business; here only a traceback that ends the process / a wrong exit status counts
    tail = err[err.rfind("Traceback (most recent call last):"):] if _TB_RE.search(err) else ""
    crashed = p.returncode not in (0, 1)
    if crashed or (tail and "Internal error:" not in tail and p.returncode != 0 and _ends_with_traceback(err)):
        frames = frames_of_text(tail)
        where, fileline = _frame_key(frames)
        m = re.findall(r"^([A-Za-z_][A-Za-z0-9_.]*(?:Error|Exception|Interrupt|Exit)?)(?::|$)", tail, re.M)
        exc = m[-1].split(".")[-1] if m else "?"
        hook = _cli_probe_hook(frames, cwd)
        if hook is not None:
            where = f"unguarded-probe-of-literal:{hook}"
        return (f"cli|{'exit=' + str(p.returncode) if crashed else 'died-with-traceback'}|{exc}|{where}",
                f"python -m pyanalyze exit status {p.returncode}; stderr ends: {err[-700:]!r} ({fileline})")
    return None


def _ends_with_traceback(err: str) -> bool:
    """the process died from an uncaught exception: the last traceback is followed only by its 'Exc: msg' line(s)"""
    i = err.rfind("Traceback (most recent call last):")
    rest = err[i:].splitlines()
    # after the last '  File ...' / source line, an uncaught exception prints only 'ExcType: message'
    j = max((k for k, l in enumerate(rest) if l.startswith("  ")), default=0)
    after = [l for l in rest[j + 1:] if l.strip()]
    return len(after) <= 3 and not any("Internal error:" in l or l.lstrip().startswith("In ") for l in after)


# Constant folding without bound: these never-called functions are checked in a subprocess under RLIMIT_CPU (CPU seconds
# of the process, not wall-clock) and RLIMIT_AS; a normal check of such a 3-line file needs < 2 CPU-seconds.
TERMINATION_PROBES = [
    ("literal-power", "def f():\n    x = 1000 ** 1000\n    y = x ** x\n    return y\n"),
    ("literal-shift", "def f():\n    x = 10 ** 12\n    y = 1 << x\n    return y\n"),
    ("literal-sequence-repeat", "def f():\n    n = 10 ** 11\n    return 'ab' * n, [0] * n, n * (1, 2)\n"),
    ("literal-doubling-chain", "def f():\n    s = 'x' * 1000\n" + "".join("    s = s + s\n" for _ in range(40)) + "    return s\n"),
    ("literal-inplace-power", "def f():\n    x = 1000 ** 1000\n    x **= x\n    return x\n"),
    # evaluated through Signature._maybe_perform_call (any pure callable on literal arguments), not through the operators
    ("pure-callable-on-literals", "def f():\n    x = 1000 ** 1000\n    return pow(x, x)\n"),
    ("pure-method-on-literals", "def f():\n    n = 10 ** 11\n    return 'a'.ljust(n)\n"),
    # the size guard must look at every member of a union of literals, on either side
    ("literal-power-union-exponent", "def f(c):\n    e = 10 ** 8 if c else 1\n    return 7 ** e\n"),
    ("literal-power-union-base", "def f(c):\n    b = 10 ** 8 if c else 1\n    return b ** b\n"),
    ("literal-repeat-union-count", "def f(c):\n    n = 10 ** 11 if c else 1\n    return 'ab' * n, n * [0]\n"),
]
PROBE_CPU_S = 20
PROBE_AS_BYTES = 3 << 29  # 1.5 GiB


def termination_probe(name: str, source: str, d: str):
    """-> (key, what) or None"""
    import resource
    import subprocess

    path = os.path.join(d, f"probe_{name.replace('-', '_')}.py")
    with open(path, "w") as f:
        f.write(source)

    def limits():
        resource.setrlimit(resource.RLIMIT_CPU, (PROBE_CPU_S, PROBE_CPU_S + 5))
        resource.setrlimit(resource.RLIMIT_AS, (PROBE_AS_BYTES, PROBE_AS_BYTES))

    env = dict(os.environ)
    env["PYTHONPATH"] = harness.REPO
    env.pop("PYANALYZE_VERIF", None)
    p = subprocess.run([harness.PYTHON, "-m", "pyanalyze", path], cwd=d, env=env, capture_output=True, text=True, preexec_fn=limits)
    err = _ANSI_RE.sub("", p.stderr or "")
    if p.returncode < 0:
        return (f"termination|cpu-limit-exceeded|{name}",
                f"python -m pyanalyze on a {source.count(chr(10))}-line file was killed by signal {-p.returncode} after using {PROBE_CPU_S} CPU-seconds "
                f"(RLIMIT_CPU): the operator is evaluated on literal operands without bound\n--- program ---\n{source}")
    if "MemoryError" in err:
        return (f"termination|memory-limit-exceeded|{name}", f"python -m pyanalyze hit RLIMIT_AS (1.5 GiB; a normal check needs < 0.4 GiB): {err[-300:]!r}\n--- program ---\n{source}")
    return None


def cli_phase(ctx) -> None:
    scratch = os.environ.get("VERIF_SCRATCH")
    if not scratch:
        ctx.note("VERIF_SCRATCH not set: CLI sample skipped")
        return
    d = os.path.join(scratch, f"cli{ctx.shard}")
    os.makedirs(d, exist_ok=True)
    for i, (name, src) in enumerate(TERMINATION_PROBES):
        if ctx.mine(i):
            ctx.count("termination_probes")
            ctx.count("evaluations")
            r = termination_probe(name, src, d)
            if r is not None:
                ctx.violation(r[0], r[1], {"kind": "probe", "name": name, "source": src, "expect": r[0]})
    for i, src in enumerate(CLI_REGRESSION):
        if ctx.mine(i + len(TERMINATION_PROBES)):
            path = os.path.join(d, f"regr{i}.py")
            with open(path, "w", encoding="utf-8", newline="") as f:
                f.write(src)
            ctx.count("cli_invocations")
            ctx.count("cli_regression_programs")
            ctx.count("evaluations")
            r1 = cli_check(path, d)
            if r1 is not None:
                ctx.violation(r1[0], r1[1] + "\n--- program ---\n" + src, {"kind": "cli", "source": src, "expect": r1[0]})
    # whole-file runs of the awkward-value attribute programs: the CLI's ClassAttributeChecker (recording of attribute
    # stores, final pass over the attribute reads) runs outside any catch-all
    base = len(TERMINATION_PROBES) + len(CLI_REGRESSION)
    for i, (name, src) in enumerate(fuzzgen.awkward_cli_programs()):
        if ctx.mine(i + base):
            path = os.path.join(d, f"awkward{i}.py")
            with open(path, "w", encoding="utf-8", newline="") as f:
                f.write(src)
            ctx.count("cli_invocations")
            ctx.count("cli_awkward_programs")
            ctx.count("evaluations")
            r1 = cli_check(path, d, timeout=300.0)
            if r1 is not None:
                ctx.violation(r1[0], r1[1] + f"\n--- program: fuzzgen.awkward_cli_programs()[{i}] ({name}) ---", {"kind": "cli-awkward", "index": i, "expect": r1[0]})
    n = ctx.pick(20, 40)
    batch = ctx.pick(5, 5)
    files = []
    tries = 0
    while len(files) < n and tries < n * 5:
        tries += 1
        src, feats, _ = fuzzgen.gen_program(ctx.rng)
        if src is None:
            continue
        status, _, _ = observe(src, "tests")
        if status != "ok":
            continue
        path = os.path.join(d, f"prog{len(files)}.py")
        with open(path, "w", encoding="utf-8", newline="") as f:
            f.write(src)
        files.append((path, src))
    for i in range(0, len(files), batch):
        group = files[i: i + batch]
        ctx.count("cli_invocations")
        ctx.count("cli_runs", len(group))
        ctx.count("evaluations", len(group))
        r = cli_check([p for p, _ in group], d)
        if r is None:
            continue
        # locate the file responsible
        for path, src in group:
            ctx.count("cli_invocations")
            r1 = cli_check(path, d)
            if r1 is not None:
                ctx.violation(r1[0], r1[1] + "\n--- program ---\n" + src, {"kind": "cli", "source": src, "expect": r1[0]})
                break
        else:
            ctx.violation(r[0] + "|only-in-batch", r[1], {"kind": "cli-batch", "sources": [s for _, s in group], "expect": r[0] + "|only-in-batch"})


# ---------------------------------------------------------------------------
# value-API half

_CHECKER = None


def checker():
    global _CHECKER
    if _CHECKER is None:
        from pyanalyze.checker import Checker

        _CHECKER = Checker()
    return _CHECKER


def wraps_unhashable(spec) -> bool:
    return any(s[0] == "known_u" for s in vg.walk_spec(spec))


def value_key(op: str, exc: BaseException, specs) -> tuple:
    where, fileline = _frame_key(frames_of_exc(exc), type(exc).__name__)
    user = any(os.sep + "vp" + os.sep in fs.filename for fs in traceback.extract_tb(exc.__traceback__)[-1:])
    key = f"value-api|{type(exc).__name__}|{where}{validator_rule(type(exc).__name__, str(exc))}" + ("|raised-by-wrapped-object's-own-method" if user else "")
    return key, fileline


def value_call(ctx, op: str, fn, specs, mapspec=None):
    ctx.count("value_api_calls")
    ctx.histo("value_api_ops", op)
    try:
        return fn()
    except (KeyboardInterrupt, SystemExit, MemoryError):
        raise
    except BaseException as e:  # noqa: BLE001
        if op == "hash" and isinstance(e, TypeError) and any(wraps_unhashable(s) for s in specs):
            ctx.count("hash_typeerror_excused_unhashable_literal")
            return None
        key, fileline = value_key(op, e, specs)
        exprs = [vg.to_expr(s) for s in specs]
        what = f"{op}({', '.join(exprs)}" + (f"; typevars={vg.map_expr(mapspec)}" if mapspec else "") + f") raised {type(e).__name__}: {str(e)[:200]} at {fileline}"
        ctx.violation(key, what, {"kind": "value", "op": op, "specs": specs, "map": mapspec, "expect": key})
        return None


def run_value_op(op: str, vals, tvmap, ctx_obj):
    from pyanalyze.value import unite_values

    a = vals[0]
    if op == "can_assign":
        return a.can_assign(vals[1], ctx_obj)
    if op == "is_assignable":
        return a.is_assignable(vals[1], ctx_obj)
    if op.startswith("can_overlap"):
        from pyanalyze.value import OverlapMode

        return a.can_overlap(vals[1], ctx_obj, OverlapMode[op.split("[")[1].rstrip("]")])
    if op == "unite_values":
        return unite_values(*vals)
    if op == "or":
        return vals[0] | vals[1]
    if op == "substitute_typevars":
        return a.substitute_typevars(tvmap)
    if op == "str":
        return str(a)
    if op == "repr":
        return repr(a)
    if op == "hash":
        return hash(a)
    if op == "simplify":
        return a.simplify()
    if op == "eq":
        return a == vals[1]
    raise ValueError(op)


def value_phase(ctx) -> None:
    rng = ctx.rng
    n = ctx.pick(110, 260)
    specs = vg.pool_specs(rng, n, depth=2)
    # every shard sees the fixed core; the random tail differs per shard
    b = vg.Builder()
    vals = [b.build(s) for s in specs]
    maps = vg.map_specs(rng, ctx.pick(12, 24))
    built_maps = [b.build_map(m) for m in maps]
    cc = checker()
    for s in specs:
        ctx.histo("value_classes", vg.skeleton(s, 1))
    for i, (s, v) in enumerate(zip(specs, vals)):
        for op in ("str", "repr", "hash", "simplify"):
            value_call(ctx, op, lambda: run_value_op(op, [v], None, cc), [s])
        for ms, m in zip(maps, built_maps):
            value_call(ctx, "substitute_typevars", lambda: run_value_op("substitute_typevars", [v], m, cc), [s], ms)
        ctx.count("evaluations")
    for i, (s1, v1) in enumerate(zip(specs, vals)):
        for j, (s2, v2) in enumerate(zip(specs, vals)):
            for op in ("can_assign", "is_assignable", "can_overlap[IS]", "can_overlap[MATCH]", "can_overlap[EQ]", "unite_values", "eq"):
                value_call(ctx, op, lambda: run_value_op(op, [v1, v2], None, cc), [s1, s2])
            ctx.count("evaluations")
    ntri = ctx.pick(4000, 40000)
    for _ in range(ntri):
        idx = [rng.randrange(len(specs)) for _ in range(3)]
        value_call(ctx, "unite_values", lambda: run_value_op("unite_values", [vals[k] for k in idx], None, cc), [specs[k] for k in idx])
        ctx.count("evaluations")
    # deeper random values
    for _ in range(ctx.pick(1500, 15000)):
        bb = vg.Builder()
        ss = [vg.random_spec(rng, 3) for _ in range(2)]
        try:
            vv = [bb.build(s) for s in ss]
        except Exception:  # noqa: BLE001 - constructor refused the spec: not a well-formed value
            ctx.count("value_specs_not_buildable")
            continue
        ms = vg.random_map_spec(rng, 2)
        m = bb.build_map(ms)
        for op in ("str", "hash", "simplify"):
            value_call(ctx, op, lambda: run_value_op(op, vv[:1], None, cc), ss[:1])
        value_call(ctx, "substitute_typevars", lambda: run_value_op("substitute_typevars", vv[:1], m, cc), ss[:1], ms)
        for op in ("can_assign", "is_assignable", "can_overlap[IS]", "can_overlap[MATCH]", "can_overlap[EQ]", "unite_values"):
            value_call(ctx, op, lambda: run_value_op(op, vv, None, cc), ss)
        ctx.count("evaluations")


# annotation objects from a small vocabulary ---------------------------------

ANN_NS_SRC = """
import typing, collections.abc, enum, dataclasses
from typing import *
from typing import Annotated, Callable, ClassVar, Concatenate, Final, Literal, ParamSpec, TypeVarTuple, Unpack, Required, NotRequired, Self, Never, LiteralString, TypeGuard
T = TypeVar("T"); K = TypeVar("K", int, str); B = TypeVar("B", bound=int); Ts = TypeVarTuple("Ts"); P = ParamSpec("P")
class Base: attr: int = 0
class Color(enum.Enum):
    RED = 1
class TD(TypedDict):
    k: int
class NT(NamedTuple):
    a: int
class Proto(Protocol):
    def m(self) -> int: ...
class Gen(Generic[T]): pass
UserId = NewType("UserId", int)
type Alias = list[int]
type GAlias[X] = dict[str, X]
"""
ANN_ATOMS = ["int", "str", "None", "Any", "object", "Base", "Color", "T", "K", "B", "TD", "NT", "Proto", "UserId", "Alias", "float", "bytes", "type",
             "list", "dict", "tuple", "Callable", "Optional", "Union", "Literal", "Final", "ClassVar", "Self", "Never", "LiteralString", "Gen", "Ts", "P",
             "...", "1", "'int'", "'Base'", "'Nope'", "()", "[]", "Literal[1]", "Color.RED", "type(None)", "Gen[int]", "GAlias[int]", "NoReturn", "AnyStr",
             "collections.abc.Sequence", "typing.Sequence", "Hashable", "Sized", "Unpack", "Annotated", "Required", "TypeGuard", "Concatenate"]
ANN_FORMS = [
    "{0}", "list[{0}]", "List[{0}]", "dict[{0}, {1}]", "Dict[{0}, {1}]", "tuple[{0}, {1}]", "tuple[{0}, ...]", "Tuple[{0}, ...]", "tuple[()]", "Tuple[()]",
    "tuple[{0}, *tuple[{1}, ...]]", "tuple[*tuple[{0}, ...], {1}]", "tuple[*Ts]", "tuple[{0}, *Ts]", "tuple[Unpack[Ts]]", "tuple[Unpack[tuple[{0}, ...]]]",
    "Tuple[{0}, Unpack[Tuple[{1}, ...]]]", "tuple[*tuple[{0}, {1}]]", "Optional[{0}]", "Union[{0}, {1}]", "{0} | {1}", "{0} | None", "Callable[..., {0}]",
    "Callable[[{0}], {1}]", "Callable[[], {0}]", "Callable[P, {0}]", "Callable[Concatenate[{0}, P], {1}]", "Callable[[*Ts], {0}]", "Callable[[{0}, *Ts], {1}]",
    "collections.abc.Callable[[{0}], {1}]", "type[{0}]", "Type[{0}]", "Annotated[{0}, 1]", "Annotated[{0}, {1}]", "Literal[{0}]", "Literal[1, 'a', None, True, b'x']",
    "Final[{0}]", "ClassVar[{0}]", "Required[{0}]", "NotRequired[{0}]", "TypeGuard[{0}]", "Unpack[{0}]", "Gen[{0}]", "GAlias[{0}]", "Sequence[{0}]", "Mapping[{0}, {1}]",
    "Iterable[{0}]", "Awaitable[{0}]", "Generator[{0}, {1}, None]", "AsyncIterator[{0}]", "ContextManager[{0}]", "frozenset[{0}]", "set[{0}]", "Set[{0}]",
    "collections.abc.Sequence[{0}]", "collections.OrderedDict[{0}, {1}]", "collections.defaultdict[{0}, {1}]", "list[list[{0}]]", "dict[str, list[{0}]]",
    "Optional[Callable[..., {0}]]", "Union[{0}, {1}, None]", "Annotated[Optional[{0}], 'm']", "list[Annotated[{0}, 1]]", "type[type[{0}]]", "type[{0} | {1}]",
    "Union[type[{0}], type[{1}]]", "Literal[{0}, {1}]", "P.args", "P.kwargs", "Unpack[TD]", "Unpack[Ts]", "Gen[Gen[{0}]]",
    "dataclasses.InitVar[{0}]", "ForwardRef('{0}')", "ForwardRef('list[{0}]')", "TypeVar('V', bound={0})", "NewType('X', {0})",
]


def annotation_phase(ctx) -> None:
    from pyanalyze.annotations import type_from_ast, type_from_runtime

    rng = ctx.rng
    ns = {}
    exec(ANN_NS_SRC, ns)
    n = ctx.pick(300, 3000)
    # deterministic part: every form with every atom (both holes the same atom), then random combinations
    cases = []
    idx = 0
    for form in ANN_FORMS:
        for atom in (ANN_ATOMS if "{0}" in form else ANN_ATOMS[:1]):
            idx += 1
            if ctx.mine(idx):
                cases.append((form, atom, atom))
    ctx.count("annotation_sweep_cases", len(cases))
    for _ in range(n):
        form = rng.choice(ANN_FORMS)
        a0, a1 = rng.choice(ANN_ATOMS), rng.choice(ANN_ATOMS)
        if rng.random() < 0.25:
            a0 = rng.choice(ANN_FORMS).format(rng.choice(ANN_ATOMS[:20]), rng.choice(ANN_ATOMS[:20]))
        cases.append((form, a0, a1))
    for form, a0, a1 in cases:
        text = form.format(a0, a1)
        ctx.count("evaluations")
        ctx.nontrivial(("ann", text))
        ctx.histo("annotation_forms", form)
        # (1) the string itself as a runtime annotation (a forward reference)
        annotation_call(ctx, "type_from_runtime[str]", lambda: type_from_runtime(text, globals=ns), text)
        # (2) the expression as an AST annotation
        try:
            node = ast.parse(text, mode="eval").body
        except SyntaxError:
            node = None
        if node is not None:
            annotation_call(ctx, "type_from_ast", lambda: type_from_ast(node), text)
        # (3) the evaluated object (only when CPython itself accepts the expression)
        try:
            obj = eval(text, dict(ns))
        except BaseException:  # noqa: BLE001
            ctx.count("annotation_not_evaluable")
            continue
        annotation_call(ctx, "type_from_runtime[object]", lambda: type_from_runtime(obj, globals=ns), text)
        res = annotation_call(ctx, "type_from_runtime[object,allow_unpack]", lambda: type_from_runtime(obj, globals=ns, allow_unpack=True), text)
        if res is not None:
            for op in ("str", "hash", "simplify"):
                ctx.count("value_api_calls")
                try:
                    run_value_op(op, [res], None, None)
                except BaseException as e:  # noqa: BLE001
                    if op == "hash" and isinstance(e, TypeError):
                        ctx.count("hash_typeerror_on_converted_annotation")
                        continue
                    where, fileline = _frame_key(frames_of_exc(e), type(e).__name__)
                    key = f"value-api|{type(e).__name__}|{where}"
                    ctx.violation(key, f"{op}(type_from_runtime({text})) raised {type(e).__name__}: {str(e)[:200]} at {fileline}",
                                  {"kind": "annotation", "op": op, "text": text, "expect": key})


def annotation_call(ctx, op: str, fn, text: str):
    ctx.count("annotation_conversions")
    ctx.count("value_api_calls")
    ctx.histo("value_api_ops", op)
    try:
        return fn()
    except (KeyboardInterrupt, SystemExit, MemoryError):
        raise
    except BaseException as e:  # noqa: BLE001
        where, fileline = _frame_key(frames_of_exc(e), type(e).__name__)
        key = f"value-api|{type(e).__name__}|{where}"
        ctx.violation(key, f"{op}({text!r}) raised {type(e).__name__}: {str(e)[:200]} at {fileline}",
                      {"kind": "annotation", "op": op, "text": text, "expect": key})
        return None


# ---------------------------------------------------------------------------


def shard(ctx) -> None:
    program_phase(ctx)
    value_phase(ctx)
    annotation_phase(ctx)
    cli_phase(ctx)


def replay(witness):
    from vp.core import Ctx

    ctx = Ctx(ID, "quick", 0, 0, 1)
    kind = witness.get("kind")
    if kind == "program":
        configs = [witness["config"]] if witness.get("config") in CONFIGS else list(CONFIGS)
        for config in configs:
            status, found, _ = observe(witness["source"], config, fresh=True)
            for k, w, _ln in found:
                ctx.violation(k, w, witness)
    elif kind == "cli":
        import tempfile

        with tempfile.TemporaryDirectory(dir=os.environ.get("VERIF_SCRATCH")) as d:
            path = os.path.join(d, "prog.py")
            with open(path, "w", encoding="utf-8", newline="") as f:
                f.write(witness["source"])
            r = cli_check(path, d)
            if r:
                ctx.violation(r[0], r[1], witness)
    elif kind == "cli-awkward":
        import tempfile

        with tempfile.TemporaryDirectory(dir=os.environ.get("VERIF_SCRATCH")) as d:
            path = os.path.join(d, "awkward.py")
            with open(path, "w", encoding="utf-8", newline="") as f:
                f.write(fuzzgen.awkward_cli_programs()[witness["index"]][1])
            r = cli_check(path, d, timeout=300.0)
            if r:
                ctx.violation(r[0], r[1], witness)
    elif kind == "probe":
        import tempfile

        with tempfile.TemporaryDirectory(dir=os.environ.get("VERIF_SCRATCH")) as d:
            r = termination_probe(witness["name"], witness["source"], d)
            if r:
                ctx.violation(r[0], r[1], witness)
    elif kind == "value":
        b = vg.Builder()
        vals = [b.build(s) for s in witness["specs"]]
        m = b.build_map(witness["map"]) if witness.get("map") else None
        value_call(ctx, witness["op"], lambda: run_value_op(witness["op"], vals, m, checker()), witness["specs"], witness.get("map"))
    elif kind == "annotation":
        from pyanalyze.annotations import type_from_ast, type_from_runtime

        ns = {}
        exec(ANN_NS_SRC, ns)
        text, op = witness["text"], witness["op"]
        if op == "type_from_runtime[str]":
            annotation_call(ctx, op, lambda: type_from_runtime(text, globals=ns), text)
        elif op == "type_from_ast":
            annotation_call(ctx, op, lambda: type_from_ast(ast.parse(text, mode="eval").body), text)
        else:
            obj = eval(text, dict(ns))
            if op.startswith("type_from_runtime"):
                annotation_call(ctx, op, lambda: type_from_runtime(obj, globals=ns, allow_unpack="allow_unpack" in op), text)
            else:
                res = type_from_runtime(obj, globals=ns, allow_unpack=True)
                try:
                    run_value_op(op, [res], None, None)
                except BaseException as e:  # noqa: BLE001
                    where, fileline = _frame_key(frames_of_exc(e), type(e).__name__)
                    ctx.violation(f"value-api|{type(e).__name__}|{where}", f"{op} raised {e!r} at {fileline}", witness)
    if not ctx.violations:
        return None
    expect = witness.get("expect")
    if expect in ctx.violations:
        return expect, ctx.violations[expect][0]["what"]
    key = sorted(ctx.violations)[0]
    return key, ctx.violations[key][0]["what"]
