"""C13 — static and runtime views of declarations agree.

Monitor: a commuting diagram over pyanalyze's own evaluators, no external model.

Part 1 (annotation expressions).  Every generated annotation expression E is pushed through
    A   visitor route        `def f(x: E): x`   in the checked module (annotate=True, inferred value of the Name)
    Bv  visitor, quoted      `def f(x: "E"): x` in the checked module
    Bs  string route         type_from_runtime("E", globals=<module dict>)
    Cr  runtime route        type_from_runtime(eval(E), globals=<module dict>)
    Cs  imported function    Checker.get_signature(f).parameters["x"].annotation, f defined in a separately
                             built (never checked) module
    Cf  imported function whose module has `from __future__ import annotations`
and the results are compared pairwise (==, else mutual can_assign + identical str()).
`ClassVar[E]`/`Final[E]` are observed in class bodies, `Required/NotRequired/ReadOnly[E]` as TypedDict fields
(class and functional syntax) whose entry must carry the type E has on its own.

Part 2 (def headers).  Every signature of vp.sigs (all kinds / default patterns) decorated with annotations and
defaults from a small pool is rendered once NESTED in a function (signature from the def node:
compute_parameters) and once at module level of another module (signature from the function object:
arg_spec); parameters are compared attribute by attribute and 6 calls are diagnosed in both placements.  Headers include
old-style ParamSpec (*args: PS.args, **kwargs: PS.kwargs) and PEP 695 generic functions (def f[U](...)).

Part 2b (methods).  The def statement sits in a class body: plain / static / class methods of top-level classes, classes
nested in classes (one and two levels, with and without bases, generic) and function-local classes, the first parameter
unannotated (self / cls / an unconventional name) or annotated (the class's own quoted path, a TypeVar, another class).
Def route = the values of the parameter names read inside the method body of the checked module (and the signature
left on the def node where the visitor leaves one); runtime route = Checker.get_signature of what attribute access on
the class and on an instance yields, in the checked module and in a never-checked twin.  The implicit first parameter
must be the SAME type on both routes.  Calls (bound, through the class, unbound with an own instance / an int / an
instance of another class as first argument) are diagnosed in the defining and in an importing module, and the first
argument of an unbound call is judged against the type the def route gives the first parameter.

Part 3 (whose name is it).  Two modules define different classes under the same names (A, B, Warning, TimeoutError);
both annotate parameters with the same expression holding a quoted name inside every constructor.  typing shares one
alias object / ForwardRef per spelling between them.  With and without a prior typing.get_type_hints() on the OTHER
module's functions, all routes of the module under test (A, Bv, Bs, Cr = the function's own __annotations__ object,
Cs, Cf) must agree with each other and with R = the same expression written without quotes in that module.
"""
from __future__ import annotations

import ast
import atexit
import importlib
import os
import re
import shutil
import sys
import tempfile
from dataclasses import dataclass
from typing import Optional

from vp import harness
from vp.sigs import KO, PK, PO, VA, VK, Call, Param, Sig, enumerate_sigs, mutate_call, valid_call

ID = "C13"
LEVEL = "exploration"
TECHNIQUE = "differential runtime monitoring: pyanalyze's own annotation/signature evaluators observed on the same declaration"
RULE = (
    "annotation case = (expression E, context); E built from 43 atoms (classes incl. two whose names shadow builtins, None/Any/Never, TypeVars plain/bound/"
    "constrained, NewType, TypedDict class+functional, Protocol, enum/int/str/bytes/bool/None Literals, forward-reference "
    "strings) and ~75 constructors (Optional/Union/|, typing.X[...] / builtin / collections.abc / attribute spellings, all "
    "tuple forms incl. tuple[()], *tuple[..] and Unpack, type[], Callable list/ellipsis/empty, Annotated with literal, call "
    "(Meta(1)) and list/tuple-display metadata, ClassVar/Final in "
    "class bodies, Required/NotRequired/ReadOnly TypedDict fields): depth 1 exhaustive over atoms, depth 2 every ordered "
    "pair of constructors, depth 3 seeded random; header case = (signature shape from vp.sigs n<=4/5, annotation+default "
    "assignment, 6 calls). Non-trivial = depth >= 2 or a special form (not a bare class) resp. a header with >= 1 parameter; "
    "distinct by normalised text. Two extra header variants: every shape with *args and **kwargs (no keyword-only "
    "parameter) once as (*args: PS.args, **kwargs: PS.kwargs) with an old-style ParamSpec, every (quick: every third) shape "
    "with a named parameter once as a PEP 695 generic function def f[U](..) / [U: A] / [U: (int, str)] whose annotations "
    "(U, U | None, Optional[U], list[U]) use its own type parameter. Method case = (class placement: top-level / with base / nested 1-2 levels / nested with "
    "bases / generic top-level+nested / function-local / function-local nested) x (plain, static, class method) x (first "
    "parameter unannotated self|cls, unconventional name, own class as quoted path, TypeVar, unrelated class, Type[own], "
    "type[T]) x 4/12 headers for the remaining parameters (none, unannotated, int, drawn from the pools; shapes n<=3) "
    "with 3 argument lists, each rendered as bound / through-class / unbound calls (first argument own instance, 42, A()). "
    "Twin-module case = (expression with a quoted name: every forward-reference atom in every slot of every constructor, "
    "plus every constructor around a sampled container of a quoted name) x history (none, typing.get_type_hints on the "
    "other module's function, the same with include_extras), in batches of 24 so that typing's caches make both modules "
    "share their alias/ForwardRef objects (recorded per case in twin_typing_object_state)."
)
ASSUMPTIONS = [
    "agreement tolerance is the statement's 'same type': == or (mutual can_assign and identical str()); union member order, "
    "KnownValue-vs-wrapper and source-location metadata are therefore not differences",
    "an exception / internal_error in exactly some routes is a route disagreement (also C12's business)",
    "expressions that CPython itself cannot evaluate (eval raises) are dropped before any route runs and counted as runtime_invalid",
    "what pyanalyze infers for an UNannotated parameter is not an annotation: compared by mutual assignability only",
    "default values are compared for presence, and for equality only when both routes hold a literal",
    "diagnostics of a call are compared as sets of (code, message with the 'In call to X: ' prefix removed)",
    "the result type of a call is compared only when the header declares a return type (a nested def without one gets "
    "its return type inferred from the body, which is inference, not a declaration)",
    "the type of the implicit first parameter of a method (self / cls) is derived from the enclosing class by rule on both "
    "routes, hence part of the declaration: it must agree like an annotation, not merely be compatible",
    "reaching a class method through its class hides cls, binding an instance hides self and substitutes type variables: "
    "the bound views are compared on names and kinds, annotations only between unbound views",
    "the first argument of an unbound call is judged only when the call binds (no incompatible_call)",
    "an annotation written without quotes is the reference for the same annotation with quoted names in the same module",
    "the type parameter of a PEP 695 function is one TypeVar object per function object (the def route has none and makes "
    "its own): such TypeVars are the same when their names are; bound and constraints are compared as part of the value",
]
LEVEL_TEXT = (
    "exploration: exhaustive at depth 1 and over constructor pairs at depth 2, sampled at depth 3; "
    "agreement of the real evaluators on every generated declaration, nothing is proved beyond the explored cases"
)
FLOORS = {
    "quick": {"distinct_nontrivial": 8000, "ann_cases": 4500, "ann_all_routes_agree": 3500, "route_pairs_compared": 70000,
              "classbody_cases": 200, "td_cases": 600, "td_field_type_compared": 500, "headers": 800,
              "signatures_agree": 600, "sig_params_compared": 2800, "calls_compared": 5000,
              "calls_both_diagnosed": 2500, "calls_both_clean": 2000,
              "method_cases": 150, "method_first_param_compared": 85, "method_params_compared": 330,
              "method_calls_compared": 900, "method_unbound_first_arg_judged": 280,
              "method_unbound_first_arg_rejected_and_reported": 110, "twin_cases": 400,
              "twin_all_routes_agree_with_unquoted": 400, "twin_cases_shared_object_evaluated_elsewhere": 180},
    "thorough": {"distinct_nontrivial": 45000, "ann_cases": 35000, "ann_all_routes_agree": 25000,
                 "route_pairs_compared": 450000, "classbody_cases": 600, "td_cases": 7000, "td_field_type_compared": 5000,
                 "headers": 5000, "signatures_agree": 4000, "sig_params_compared": 22000, "calls_compared": 30000,
                 "calls_both_diagnosed": 20000, "calls_both_clean": 8000,
                 "method_cases": 460, "method_first_param_compared": 250, "method_params_compared": 1200,
                 "method_calls_compared": 2600, "method_unbound_first_arg_judged": 850,
                 "method_unbound_first_arg_rejected_and_reported": 350, "twin_cases": 780,
                 "twin_all_routes_agree_with_unquoted": 780, "twin_cases_shared_object_evaluated_elsewhere": 400},
}
NSHARDS = 16
WATCHDOG_S = {"quick": 900, "thorough": 7200}
BATCH = 200
PRELUDE_NAME = "c13_prelude"

PRELUDE_SRC = '''
import collections.abc
import contextlib
import enum
import typing
from typing import *
import typing_extensions
from typing_extensions import ReadOnly
TETypedDict = typing_extensions.TypedDict

class A: pass
class B(A): pass
class Color(enum.Enum):
    RED = 1
    BLUE = 2
class Num(enum.IntEnum):
    ONE = 1
T = TypeVar("T")
TB = TypeVar("TB", bound=A)
TC = TypeVar("TC", int, str)
TBF = TypeVar("TBF", bound="A")
NT = NewType("NT", int)
NTA = NewType("NTA", A)
class TD(TypedDict):
    a: int
    b: NotRequired[str]
TDF = TypedDict("TDF", {"a": Required[int], "b": "str"}, total=False)
class TDK(TypedDict):
    k: int
class P(Protocol):
    def meth(self) -> int: ...
class PG(Protocol[T]):
    def get(self) -> T: ...
class G(Generic[T]):
    pass
# module-level classes whose names shadow builtins: a name in a string annotation must resolve in the module first
class Warning:
    pass
class TimeoutError(Exception):
    pass
ANYV: Any = None
PS = ParamSpec("PS")
class Meta:
    """Annotated metadata that is an object, not a literal (compares by content: each route builds its own)."""
    def __init__(self, n=0):
        self.n = n
    def __eq__(self, other):
        return isinstance(other, Meta) and other.n == self.n
    def __hash__(self):
        return hash(("Meta", self.n))
    def __repr__(self):
        return f"Meta({self.n})"
'''

_STATE: dict = {}


def prelude():
    """The shared vocabulary module: a real file imported by every generated module (same class objects on all routes)."""
    if "mod" in _STATE:
        return _STATE["mod"]
    base = os.environ.get("VERIF_SCRATCH")
    if base and os.path.isdir(base):
        d = tempfile.mkdtemp(prefix="c13-", dir=base)
    else:
        d = tempfile.mkdtemp(prefix="verif-c13-")
        atexit.register(shutil.rmtree, d, True)
    with open(os.path.join(d, PRELUDE_NAME + ".py"), "w") as f:
        f.write(PRELUDE_SRC)
    sys.path.insert(0, d)
    sys.modules.pop(PRELUDE_NAME, None)
    mod = importlib.import_module(PRELUDE_NAME)
    _STATE["mod"] = mod
    ns = {}
    exec(f"from {PRELUDE_NAME} import *\nimport typing, collections.abc, contextlib, {PRELUDE_NAME}\n", ns)
    _STATE["ns"] = ns
    return mod


def base_ns() -> dict:
    prelude()
    return _STATE["ns"]


HEADER = f"from {PRELUDE_NAME} import *\nimport typing, collections.abc, contextlib, {PRELUDE_NAME}\n"
FUTURE = "from __future__ import annotations\n"


def checker():
    return harness.constructor_kwargs()["checker"]


# ---------------------------------------------------------------------------
# expression terms


@dataclass(frozen=True)
class E:
    src: str
    form: str
    kids: tuple = ()
    depth: int = 0

    def to_json(self):
        return [self.src, self.form, [k.to_json() for k in self.kids], self.depth]

    @staticmethod
    def from_json(j) -> "E":
        return E(j[0], j[1], tuple(E.from_json(k) for k in j[2]), j[3])


def atom(src: str, form: Optional[str] = None) -> E:
    return E(src, form or "class", (), 0)


ATOMS = [
    atom("int"), atom("str"), atom("float"), atom("bytes"), atom("bool"), atom("object"), atom("complex"),
    atom("A"), atom("B"), atom("Color"), atom("Num"),
    atom("None", "None"), atom("Any", "Any"), atom("Never", "Never"), atom("NoReturn", "Never"),
    atom("LiteralString", "LiteralString"),
    atom("T", "TypeVar"), atom("TB", "TypeVar.bound"), atom("TC", "TypeVar.constrained"),
    atom("NT", "NewType"), atom("NTA", "NewType"),
    atom("TD", "TypedDict.class"), atom("TDF", "TypedDict.functional"),
    atom("P", "Protocol"), atom("G", "class"),
    atom("type", "bare.type"), atom("tuple", "bare.tuple"), atom("Tuple", "bare.Tuple"), atom("Type", "bare.Type"),
    atom("Callable", "bare.Callable"), atom("list", "bare.list"), atom("List", "bare.List"), atom("dict", "bare.dict"),
    atom('"A"', "fwdref"), atom('"int"', "fwdref"), atom("'B'", "fwdref"),
    atom('"List[A]"', "fwdref.generic"), atom('"Optional[A]"', "fwdref.Optional"), atom('"A | None"', "fwdref.bitor"),
    atom("TBF", "TypeVar.bound-fwdref"),
    atom("Warning", "class.shadows-builtin"), atom('"Warning"', "fwdref.shadows-builtin"),
    atom('"List[TimeoutError]"', "fwdref.generic-shadows-builtin"),
    atom(f"{PRELUDE_NAME}.A", "attribute.class"),
    atom("Literal[1]", "Literal.int"), atom("Literal['a']", "Literal.str"), atom("Literal[b'x']", "Literal.bytes"),
    atom("Literal[True]", "Literal.bool"), atom("Literal[None]", "Literal.None"), atom("Literal[Color.RED]", "Literal.enum"),
    atom("Literal[-1]", "Literal.negint"), atom("Literal[1, 'a']", "Literal.multi"),
    atom("Literal[Color.RED, Color.BLUE]", "Literal.multi-enum"), atom("Literal[1, None]", "Literal.multi-None"),
    atom("Literal[Num.ONE]", "Literal.intenum"), atom("Literal[1, True]", "Literal.int-bool"),
    atom("tuple[()]", "tuple.empty"), atom("Tuple[()]", "Tuple.empty"),
]
# atoms used where only a couple of fillers are wanted
INT, STR = ATOMS[0], ATOMS[1]
SIMPLE_ATOMS = [a for a in ATOMS if not a.form.startswith("bare.")]

# (form, arity, template). {0},{1},{2} are child expressions.
CONSTRUCTORS = [
    ("Optional", 1, "Optional[{0}]"), ("typing.Optional", 1, "typing.Optional[{0}]"),
    ("Union", 2, "Union[{0}, {1}]"), ("Union.1", 1, "Union[{0}]"), ("Union.3", 3, "Union[{0}, {1}, {2}]"),
    ("Union.None", 1, "Union[{0}, None]"),
    ("bitor", 2, "{0} | {1}"), ("bitor.None", 1, "{0} | None"), ("None.bitor", 1, "None | {0}"),
    ("List", 1, "List[{0}]"), ("list", 1, "list[{0}]"), ("typing.List", 1, "typing.List[{0}]"),
    ("Set", 1, "Set[{0}]"), ("set", 1, "set[{0}]"), ("FrozenSet", 1, "FrozenSet[{0}]"), ("frozenset", 1, "frozenset[{0}]"),
    ("Dict", 2, "Dict[{0}, {1}]"), ("dict", 2, "dict[{0}, {1}]"),
    ("Sequence", 1, "Sequence[{0}]"), ("abc.Sequence", 1, "collections.abc.Sequence[{0}]"),
    ("Iterable", 1, "Iterable[{0}]"), ("abc.Iterable", 1, "collections.abc.Iterable[{0}]"),
    ("Iterator", 1, "Iterator[{0}]"), ("Collection", 1, "Collection[{0}]"),
    ("Mapping", 2, "Mapping[{0}, {1}]"), ("abc.Mapping", 2, "collections.abc.Mapping[{0}, {1}]"),
    ("MutableMapping", 2, "MutableMapping[{0}, {1}]"), ("DefaultDict", 2, "DefaultDict[{0}, {1}]"),
    ("Deque", 1, "Deque[{0}]"), ("Awaitable", 1, "Awaitable[{0}]"), ("Generator", 3, "Generator[{0}, {1}, {2}]"),
    ("ContextManager", 1, "ContextManager[{0}]"), ("AbstractContextManager", 1, "contextlib.AbstractContextManager[{0}]"),
    ("AsyncContextManager", 1, "AsyncContextManager[{0}]"),
    ("user-generic", 1, "G[{0}]"), ("Protocol.generic", 1, "PG[{0}]"),
    ("Tuple.fixed", 2, "Tuple[{0}, {1}]"), ("tuple.fixed", 2, "tuple[{0}, {1}]"),
    ("Tuple.1", 1, "Tuple[{0}]"), ("tuple.1", 1, "tuple[{0}]"), ("tuple.3", 3, "tuple[{0}, {1}, {2}]"),
    ("Tuple.variadic", 1, "Tuple[{0}, ...]"), ("tuple.variadic", 1, "tuple[{0}, ...]"),
    ("typing.Tuple.fixed", 2, "typing.Tuple[{0}, {1}]"),
    ("tuple.star-variadic-suffix", 2, "tuple[{0}, *tuple[{1}, ...]]"),
    ("tuple.star-variadic-prefix", 2, "tuple[*tuple[{0}, ...], {1}]"),
    ("tuple.star-variadic-middle", 3, "tuple[{0}, *tuple[{1}, ...], {2}]"),
    ("tuple.star-fixed", 2, "tuple[*tuple[{0}, {1}]]"),
    ("tuple.star-Tuple", 2, "tuple[{0}, *Tuple[{1}, ...]]"),
    ("tuple.Unpack-variadic-suffix", 2, "tuple[{0}, Unpack[tuple[{1}, ...]]]"),
    ("tuple.Unpack-variadic-middle", 3, "tuple[{0}, Unpack[tuple[{1}, ...]], {2}]"),
    ("Tuple.Unpack-variadic-suffix", 2, "Tuple[{0}, Unpack[Tuple[{1}, ...]]]"),
    ("tuple.Unpack-fixed", 2, "tuple[Unpack[tuple[{0}, {1}]]]"),
    ("type", 1, "type[{0}]"), ("Type", 1, "Type[{0}]"), ("typing.Type", 1, "typing.Type[{0}]"),
    ("Callable.list", 3, "Callable[[{0}, {1}], {2}]"), ("Callable.list1", 2, "Callable[[{0}], {1}]"),
    ("Callable.empty", 1, "Callable[[], {0}]"), ("Callable.ellipsis", 1, "Callable[..., {0}]"),
    ("abc.Callable.list1", 2, "collections.abc.Callable[[{0}], {1}]"),
    ("abc.Callable.ellipsis", 1, "collections.abc.Callable[..., {0}]"),
    ("typing.Callable.list1", 2, "typing.Callable[[{0}], {1}]"),
    ("Annotated", 1, "Annotated[{0}, 'm']"), ("Annotated.2", 1, "Annotated[{0}, 1, 2]"),
    ("typing.Annotated", 1, "typing.Annotated[{0}, 'm']"),
    ("Annotated.call-metadata", 1, "Annotated[{0}, Meta(1)]"), ("Annotated.display-metadata", 1, "Annotated[{0}, [1, (2, 'a')]]"),
    ("ClassVar", 1, "ClassVar[{0}]"), ("Final", 1, "Final[{0}]"),
    ("typing.ClassVar", 1, "typing.ClassVar[{0}]"), ("typing.Final", 1, "typing.Final[{0}]"),
]
CLASS_FORMS = {"ClassVar", "Final", "typing.ClassVar", "typing.Final"}
INNER_CONSTRUCTORS = [c for c in CONSTRUCTORS if c[0] not in CLASS_FORMS]


def build(con, kids) -> E:
    form, arity, tmpl = con
    src = tmpl.format(*[k.src for k in kids])
    return E(src, form, tuple(kids), 1 + max(k.depth for k in kids))


def context_of(e: E) -> str:
    return "class" if e.form in CLASS_FORMS else "param"


_VALID: dict = {}


def runtime_valid(e: E) -> bool:
    """CPython itself must be able to evaluate E (the defs are exec'd)."""
    r = _VALID.get(e.src)
    if r is None:
        try:
            eval(e.src, dict(base_ns()))
            r = True
        except Exception:  # noqa: BLE001
            r = False
        _VALID[e.src] = r
    return r


def gen_rng(ctx, what: str):
    import random

    return random.Random(f"{ID}/{ctx.seed}/{what}")


def gen_expressions(ctx):
    """Deterministic part (depth 1 exhaustive, depth 2 constructor pairs) + seeded random part. Yields E.
    The stream is a function of the seed only (not of the shard), so that `ctx.mine(index)` partitions it."""
    rng = gen_rng(ctx, "expressions")
    # depth 0
    for a in ATOMS:
        yield a
    # depth 1: every constructor, every atom in every slot (other slots int/str)
    for con in CONSTRUCTORS:
        form, arity, _ = con
        fill = [INT, STR, INT]
        for slot in range(arity):
            for a in (ATOMS if slot == 0 or not ctx.quick else ATOMS[::3]):
                kids = list(fill[:arity])
                kids[slot] = a
                yield build(con, kids)
    # depth 2: every ordered pair of constructors, inner in the first (quick) / every (thorough) slot of outer
    n_atoms = ctx.pick(1, 3)
    for outer in CONSTRUCTORS:
        for inner in INNER_CONSTRUCTORS:
            for slot in range(1 if ctx.quick else outer[1]):
                for rep in range(n_atoms):
                    if rep == 0:
                        ikids = [INT, STR, INT][: inner[1]]
                    else:
                        ikids = [rng.choice(SIMPLE_ATOMS) for _ in range(inner[1])]
                    okids = [STR, INT, STR][: outer[1]]
                    if rep > 0:
                        okids = [rng.choice(SIMPLE_ATOMS) for _ in range(outer[1])]
                    okids[slot] = build(inner, ikids)
                    yield build(outer, okids)
    # depth 3: random
    for _ in range(ctx.pick(2500, 45000)):
        yield random_expr(rng, 3, top=True)


def random_expr(rng, depth: int, top: bool = False) -> E:
    if depth == 0 or (not top and rng.random() < 0.3):
        return rng.choice(SIMPLE_ATOMS if rng.random() < 0.9 else ATOMS)
    con = rng.choice(CONSTRUCTORS if top and rng.random() < 0.08 else INNER_CONSTRUCTORS)
    kids = [random_expr(rng, depth - 1) for _ in range(con[1])]
    return build(con, kids)


# ---------------------------------------------------------------------------
# route outcomes and agreement


class Exc:
    """An exception (or internal_error diagnostic) seen on a route."""

    def __init__(self, typ: str, msg: str = ""):
        self.typ = typ
        self.msg = harness.normalise_text(msg)[:160]

    def __repr__(self):
        return f"<raised {self.typ}: {self.msg}>"

    __str__ = __repr__


def show(v) -> str:
    if v is None:
        return "<no value>"
    if isinstance(v, Exc):
        return repr(v)
    try:
        return f"{stable_str(v)} ({type(v).__name__})"
    except Exception as e:  # noqa: BLE001
        return f"<str() raised {type(e).__name__}>"


_RESOLVED: dict = {}


def _resolve_typ(typ):
    """TypedValue.typ is 'the underlying type, or a fully qualified reference to one': resolve the reference."""
    if not isinstance(typ, str):
        return typ
    if typ not in _RESOLVED:
        obj = typ
        mod, _, name = typ.rpartition(".")
        try:
            obj = getattr(importlib.import_module(mod), name)
        except Exception:  # noqa: BLE001
            pass
        _RESOLVED[typ] = obj
    return _RESOLVED[typ]


def _fields(obj):
    import dataclasses

    return [f.name for f in dataclasses.fields(obj) if f.compare]


def same(x, y, depth: int = 0) -> bool:
    """Structural equality of two values up to representation: union members as a set, a string reference to a class
    equals the class, cached type objects ignored."""
    import dataclasses
    import typing

    from pyanalyze.value import MultiValuedValue, TypedValue

    if depth > 40:
        return False
    try:
        if x is y or x == y:
            return True
    except Exception:  # noqa: BLE001
        pass
    if isinstance(x, typing.TypeVar) and isinstance(y, typing.TypeVar):
        # the type parameter of a PEP 695 function exists once per function object; the def route has no function
        # object and makes its own TypeVar of that name: two declarations of  def f[U]  never share the object
        return x.__name__ == y.__name__ and (getattr(x, "__infer_variance__", False) or getattr(y, "__infer_variance__", False))
    x, y = norm(x, depth), norm(y, depth)
    if isinstance(x, MultiValuedValue) and isinstance(y, MultiValuedValue):
        return (all(any(same(a, b, depth + 1) for b in y.vals) for a in x.vals)
                and all(any(same(a, b, depth + 1) for a in x.vals) for b in y.vals))
    if type(x) is not type(y):
        return False
    if isinstance(x, (tuple, list)):
        return len(x) == len(y) and all(same(a, b, depth + 1) for a, b in zip(x, y))
    if isinstance(x, dict):
        return list(x) == list(y) and all(same(x[k], y[k], depth + 1) for k in x)
    if dataclasses.is_dataclass(x) and not isinstance(x, type):
        for name in _fields(x):
            a, b = getattr(x, name), getattr(y, name)
            if name == "typ" and isinstance(x, TypedValue):
                a, b = _resolve_typ(a), _resolve_typ(b)
            if not same(a, b, depth + 1):
                return False
        return True
    return False


def populate(v, seen=None, depth: int = 0) -> None:
    """str() of a TypedValue depends on whether its type object has been looked up (a cache): look all of them up."""
    import dataclasses

    from pyanalyze.value import TypedValue

    if seen is None:
        seen = set()
    if id(v) in seen or depth > 40:
        return
    seen.add(id(v))
    if isinstance(v, (tuple, list)):
        for a in v:
            populate(a, seen, depth + 1)
    elif isinstance(v, dict):
        for a in v.values():
            populate(a, seen, depth + 1)
    elif dataclasses.is_dataclass(v) and not isinstance(v, type) and type(v).__module__.startswith("pyanalyze"):
        if isinstance(v, TypedValue):
            try:
                v.get_type_object(checker())
            except Exception:  # noqa: BLE001
                pass
        for f in dataclasses.fields(v):
            if f.name != "_type_object":
                populate(getattr(v, f.name, None), seen, depth + 1)


def stable_str(v) -> str:
    populate(v)
    return harness.normalise_text(str(v))


def distribute(v):
    """Annotated[X | Y, m] and Annotated[X, m] | Annotated[Y, m] are the same type; reading a variable yields the
    second spelling (flattened by pyanalyze's own annotate_value), evaluating an annotation the first. Compare in
    the distributed spelling (top level only)."""
    from pyanalyze.value import AnnotatedValue, MultiValuedValue, annotate_value

    if isinstance(v, AnnotatedValue) and isinstance(v.value, MultiValuedValue):
        return MultiValuedValue([annotate_value(m, v.metadata) for m in v.value.vals])
    return v


def norm(v, depth: int = 0):
    """A union is a set: Annotated distributed over it, duplicate members dropped, a one-member union is its member."""
    from pyanalyze.value import MultiValuedValue

    v = distribute(v)
    if isinstance(v, MultiValuedValue) and v.vals:
        uniq: list = []
        for m in v.vals:
            m = norm(m, depth + 1) if depth < 40 else m
            for u in (m.vals if isinstance(m, MultiValuedValue) else (m,)):
                if not any(same(u, w, depth + 1) for w in uniq):
                    uniq.append(u)
        if len(uniq) == 1:
            return uniq[0]
        return MultiValuedValue(uniq)
    return v


def agree(x, y) -> bool:
    """The statement's 'means the same type': structurally equal up to representation, or mutually assignable with
    the same rendering."""
    from pyanalyze.value import CanAssignError

    if isinstance(x, Exc) or isinstance(y, Exc):
        return isinstance(x, Exc) and isinstance(y, Exc) and x.typ == y.typ
    if x is None or y is None:
        return x is None and y is None
    if same(x, y):
        return True
    x, y = norm(x), norm(y)
    try:
        if stable_str(x) != stable_str(y):
            return False
        c = checker()
        return not isinstance(x.can_assign(y, c), CanAssignError) and not isinstance(y.can_assign(x, c), CanAssignError)
    except Exception:  # noqa: BLE001
        return False


def mutually_assignable(x, y) -> bool:
    from pyanalyze.value import CanAssignError

    try:
        c = checker()
        return not isinstance(x.can_assign(y, c), CanAssignError) and not isinstance(y.can_assign(x, c), CanAssignError)
    except Exception:  # noqa: BLE001
        return False


def partition(outcome: dict) -> list:
    """Greedy grouping of routes by agreement, in route order."""
    groups: list = []
    for name, v in outcome.items():
        for g in groups:
            if agree(outcome[g[0]], v):
                g.append(name)
                break
        else:
            groups.append([name])
    return groups


def partition_text(outcome: dict) -> str:
    parts = []
    for g in partition(outcome):
        v = outcome[g[0]]
        tag = f":{v.typ}" if isinstance(v, Exc) else (":no-value" if v is None else "")
        parts.append(",".join(g) + tag)
    return " / ".join(parts)


_INTERNAL_RE = re.compile(r"Internal error: (\w+)\((.*)", re.S)


def internal_error_of(diags) -> Optional[Exc]:
    for d in diags:
        if d.code == "internal_error":
            m = _INTERNAL_RE.search(d.description)
            if m:
                return Exc(m.group(1), re.sub(r" at 0x[0-9a-f]+", "", m.group(2))[:120])
            return Exc("internal_error", d.description[-120:])
    return None


# ---------------------------------------------------------------------------
# evaluating a batch of annotation cases on all routes


@dataclass(frozen=True)
class TDCase:
    e: E
    qual: str      # "plain" | "Required" | "NotRequired" | "ReadOnly" | "ReadOnly-NotRequired"
    total: bool
    syntax: str    # "class" | "functional"
    quoted: bool   # field annotation written as a string

    def field_src(self) -> str:
        inner = self.e.src
        if self.qual == "plain":
            s = inner
        elif self.qual == "ReadOnly-NotRequired":
            s = f"ReadOnly[NotRequired[{inner}]]"
        else:
            s = f"{self.qual}[{inner}]"
        return repr(s) if self.quoted else s

    def uses_te(self) -> bool:
        return "ReadOnly" in self.qual

    def expected_required(self) -> bool:
        if "NotRequired" in self.qual:
            return False
        if self.qual == "Required":
            return True
        return self.total

    def expected_readonly(self) -> bool:
        return "ReadOnly" in self.qual

    def label(self) -> str:
        return f"{self.syntax}|{self.qual}|total={self.total}|{'quoted' if self.quoted else 'plain'}"

    def to_json(self):
        return {"e": self.e.to_json(), "qual": self.qual, "total": self.total, "syntax": self.syntax, "quoted": self.quoted}

    @staticmethod
    def from_json(j) -> "TDCase":
        return TDCase(E.from_json(j["e"]), j["qual"], j["total"], j["syntax"], j["quoted"])


ROUTES = ("A", "Bv", "Bs", "Cr", "Cs", "Cf")


def _def_src(i: int, e: E, quoted: bool) -> list:
    ann = repr(e.src) if quoted else e.src
    if context_of(e) == "class":
        return [f"class K{i}:", f"    a: {ann} = ANYV", "    a"]
    return [f"def f{i}(x: {ann}):", "    x"]


def _td_src(i: int, t: TDCase) -> list:
    base = "TETypedDict" if t.uses_te() else "TypedDict"
    if t.syntax == "class":
        total = "" if t.total else ", total=False"
        return [f"class TDX{i}({base}{total}):", f"    k: {t.field_src()}"]
    total = "" if t.total else ", total=False"
    return [f"TDX{i} = {base}('TDX{i}', {{'k': {t.field_src()}}}{total})"]


def _read_module(res, tree, n: int, ntd: int) -> tuple:
    """-> ({i: value|Exc|None}, {i: value for td}) read from the annotated tree of one checked module."""
    by_line = res.by_line()
    out: dict = {}
    tds: dict = {}
    attr: dict = {}
    for node in tree.body:
        if isinstance(node, ast.FunctionDef):
            kind, idx = node.name[0], node.name[1:]
            if not idx.isdigit():
                continue
            ret = node.body[-1]
            # an internal error while visiting the def is an exception on this route, whatever placeholder the
            # visitor left on the nodes
            v = internal_error_of([d for ln in range(node.lineno, ret.lineno + 1) for d in by_line.get(ln, [])])
            if v is None:
                v = getattr(ret.value, "inferred_value", None)
            if kind == "f":
                out[int(idx)] = v
            elif kind == "t":
                tds[int(idx)] = v
            elif kind == "g":
                attr[int(idx)] = v
        elif isinstance(node, ast.ClassDef) and node.name.startswith("K") and node.name[1:].isdigit():
            read = node.body[-1]
            v = internal_error_of([d for ln in range(node.lineno, read.lineno + 1) for d in by_line.get(ln, [])])
            if v is None:
                v = getattr(read.value, "inferred_value", None)
            out[int(node.name[1:])] = v
    return out, tds, attr


def eval_batch(exprs: list, tdcases: list) -> tuple:
    """All routes for exprs (list of E) and TypedDict cases. Returns (outcomes, td_outcomes); each outcome is an
    ordered dict route -> Value | Exc | None."""
    from pyanalyze.analysis_lib import make_module
    from pyanalyze.annotations import type_from_runtime

    prelude()
    chk = checker()
    # --- the separately built ("imported") modules: never checked
    lines = [HEADER]
    for i, e in enumerate(exprs):
        lines += _def_src(i, e, False)
    for j, t in enumerate(tdcases):
        lines += _td_src(j, t)
        lines += [f"def t{j}(x: TDX{j}):", "    x"]
    d_src = "\n".join(lines) + "\n"
    dmod = make_module(d_src)
    lines = [FUTURE + HEADER]
    for i, e in enumerate(exprs):
        if context_of(e) == "param":
            lines += _def_src(i, e, False)
    fmod = make_module("\n".join(lines) + "\n")
    mods = [dmod, fmod]
    try:
        # --- checked module, unquoted
        lines = [HEADER]
        for i, e in enumerate(exprs):
            lines += _def_src(i, e, False)
            if context_of(e) == "class":
                lines += [f"def g{i}(k: _D.K{i}):", "    k.a"]
        for j, t in enumerate(tdcases):
            lines += _td_src(j, t)
            lines += [f"def t{j}(x: TDX{j}):", "    x"]
        a_src = "\n".join(lines) + "\n"
        a_tree = ast.parse(a_src)
        a_res = harness.run(a_src, tree=a_tree, annotate=True, keep_module=True, extra_scope={"_D": dmod})
        mods.append(a_res.module)
        # --- checked module, quoted
        lines = [HEADER]
        for i, e in enumerate(exprs):
            lines += _def_src(i, e, True)
        for j, t in enumerate(tdcases):
            lines += _td_src(j, t)
            lines += [f"def t{j}(x: 'TDX{j}'):", "    x"]
        b_src = "\n".join(lines) + "\n"
        b_tree = ast.parse(b_src)
        b_res = harness.run(b_src, tree=b_tree, annotate=True, keep_module=True)
        mods.append(b_res.module)
        for r, name in ((a_res, "A"), (b_res, "Bv")):
            if r.exception is not None:
                raise BatchCrash(name, r.exception)
        a_vals, a_tds, a_attr = _read_module(a_res, a_tree, len(exprs), len(tdcases))
        b_vals, b_tds, _ = _read_module(b_res, b_tree, len(exprs), len(tdcases))
        ns = a_res.module.__dict__
        outcomes = []
        for i, e in enumerate(exprs):
            o: dict = {"A": a_vals.get(i), "Bv": b_vals.get(i)}
            try:
                o["Bs"] = type_from_runtime(e.src, globals=ns)
            except Exception as ex:  # noqa: BLE001
                o["Bs"] = Exc(type(ex).__name__, re.sub(r" at 0x[0-9a-f]+", "", str(ex)))
            try:
                o["Cr"] = type_from_runtime(eval(e.src, ns), globals=ns)
            except Exception as ex:  # noqa: BLE001
                o["Cr"] = Exc(type(ex).__name__, re.sub(r" at 0x[0-9a-f]+", "", str(ex)))
            if context_of(e) == "param":
                for route, mod in (("Cs", dmod), ("Cf", fmod)):
                    try:
                        sig = chk.get_signature(getattr(mod, f"f{i}"))
                        o[route] = sig.parameters["x"].annotation if sig is not None else None
                    except Exception as ex:  # noqa: BLE001
                        o[route] = Exc(type(ex).__name__, re.sub(r" at 0x[0-9a-f]+", "", str(ex)))
            else:
                o["Cs"] = a_attr.get(i)
            outcomes.append(o)
        td_outcomes = []
        for j, t in enumerate(tdcases):
            o = {"A": a_tds.get(j), "Bv": b_tds.get(j)}
            try:
                o["Bs"] = type_from_runtime(f"TDX{j}", globals=ns)
            except Exception as ex:  # noqa: BLE001
                o["Bs"] = Exc(type(ex).__name__, str(ex))
            try:
                o["Cr"] = type_from_runtime(ns[f"TDX{j}"], globals=ns)
            except Exception as ex:  # noqa: BLE001
                o["Cr"] = Exc(type(ex).__name__, str(ex))
            try:
                sig = chk.get_signature(getattr(dmod, f"t{j}"))
                o["Cs"] = sig.parameters["x"].annotation if sig is not None else None
            except Exception as ex:  # noqa: BLE001
                o["Cs"] = Exc(type(ex).__name__, str(ex))
            td_outcomes.append(o)
        return outcomes, td_outcomes
    finally:
        for m in mods:
            harness.forget_module(m)


class BatchCrash(Exception):
    def __init__(self, route, exc):
        super().__init__(f"{route}: {exc!r}")
        self.route = route
        self.exc = exc


_SINGLE: dict = {}


def eval_single(e: E) -> Optional[dict]:
    """Outcome for one expression (memoised); None if CPython cannot evaluate it."""
    if e.src in _SINGLE:
        return _SINGLE[e.src]
    if not runtime_valid(e):
        _SINGLE[e.src] = None
        return None
    try:
        o = eval_batch([e], [])[0][0]
    except BatchCrash as bc:
        o = {r: Exc("crash:" + type(bc.exc).__name__, str(bc.exc)) for r in ("A", "Bv")}
    _SINGLE[e.src] = o
    return o


def disagrees(o: dict) -> bool:
    return len(partition(o)) > 1


def prefetch(es) -> None:
    """Evaluate many single expressions in one go (fills the memo used by minimise)."""
    todo, seen = [], set()
    for e in es:
        if e.src in _SINGLE or e.src in seen:
            continue
        seen.add(e.src)
        if not runtime_valid(e):
            _SINGLE[e.src] = None
            continue
        todo.append(e)
    for i in range(0, len(todo), BATCH):
        chunk = todo[i:i + BATCH]
        try:
            outs = eval_batch(chunk, [])[0]
        except BatchCrash:
            for e in chunk:
                eval_single(e)
            continue
        for e, o in zip(chunk, outs):
            _SINGLE[e.src] = o


def descend(e: E) -> E:
    """The smallest sub-expression that still shows a route disagreement."""
    changed = True
    while changed:
        changed = False
        for k in e.kids:
            if context_of(k) != "param":
                continue
            o = eval_single(k)
            if o is not None and disagrees(o):
                e = k
                changed = True
                break
    return e


def plain_fill(e: E) -> Optional[E]:
    con = next((c for c in CONSTRUCTORS if c[0] == e.form), None)
    if con is None or not e.kids:
        return None
    return build(con, [INT, STR, INT][: con[1]])


def minimise(e: E) -> E:
    """Descend into the smallest disagreeing sub-expression, then replace children that do not matter by int/str."""
    e = descend(e)
    base = eval_single(e)
    if base is None or not e.kids:
        return e
    want = partition_text(base)
    con = next((c for c in CONSTRUCTORS if c[0] == e.form), None)
    if con is None:
        return e
    trial = plain_fill(e)
    if trial is not None:
        o = eval_single(trial)
        if o is not None and disagrees(o) and partition_text(o) == want:
            return trial
    kids = list(e.kids)
    for idx in range(len(kids)):
        for repl in (INT, STR):
            if kids[idx].src == repl.src:
                break
            trial_kids = list(kids)
            trial_kids[idx] = repl
            trial = build(con, trial_kids)
            o = eval_single(trial)
            if o is not None and disagrees(o) and partition_text(o) == want:
                kids = trial_kids
                break
    return build(con, kids)


_ALIAS = {"List": "list", "Dict": "dict", "Set": "set", "FrozenSet": "frozenset", "Tuple": "tuple", "Type": "type"}


def key_form(form: str) -> str:
    """Special form for the mechanism key. Spellings of one form are merged (typing.X / collections.abc.X / X,
    typing alias / builtin generic), so are the placements of a PEP 646 star or Unpack inside a tuple; ClassVar and
    Final are the two class-body qualifiers handled by one piece of code."""
    for prefix in ("typing.", "abc."):
        if form.startswith(prefix):
            form = form[len(prefix):]
    head, dot, rest = form.partition(".")
    form = _ALIAS.get(head, head) + dot + rest
    if "bitor" in form:
        return "bitor"
    if form.startswith("Union"):
        return "Union"
    if form in ("Annotated.call-metadata", "Annotated.display-metadata"):
        return "Annotated.non-literal-metadata"
    if form.startswith("Annotated"):
        return "Annotated"
    if form in ("Callable.list1", "Callable.empty"):
        return "Callable.list"
    if form in ("tuple.1", "tuple.3"):
        return "tuple.fixed"
    if form.startswith("tuple.star-"):
        return "tuple.star-unpack"
    if form.startswith("tuple.Unpack-"):
        return "tuple.Unpack"
    if form in ("ClassVar", "Final"):
        return "ClassVar/Final"
    return form


def _contains_form(e: E, form: str) -> bool:
    return key_form(e.form) == form or any(_contains_form(k, form) for k in e.kids)


def ann_key(e: E, o: dict) -> str:
    if _contains_form(e, "Annotated.non-literal-metadata"):
        # the routes that do or do not keep such metadata split the same way whatever is built around it (type[..] of
        # it, a union with it): one mechanism, the partition tells a different split apart
        return f"ann|Annotated.non-literal-metadata|{partition_text(o)}"
    essential = [key_form(k.form) for k in e.kids if k.src not in (INT.src, STR.src)]
    with_ = f"[{'+'.join(sorted(set(essential)))}]" if essential else ""
    return f"ann|{key_form(e.form)}{with_}|{partition_text(o)}"


def ann_what(e: E, o: dict, original: Optional[E] = None) -> str:
    s = f"annotation {e.src!r}: " + "; ".join(f"{r}={show(v)}" for r, v in o.items())
    if original is not None and original.src != e.src:
        s += f"  [minimised from {original.src!r}]"
    return s


def check_ann_batch(ctx, exprs: list, tdcases: list, depth_guard: int = 0) -> None:
    exprs = list(exprs)
    # every TypedDict case needs its field expression evaluated on its own in the same batch
    index = {e.src: i for i, e in enumerate(exprs)}
    for t in tdcases:
        if t.e.src not in index:
            index[t.e.src] = len(exprs)
            exprs.append(t.e)
    try:
        outcomes, td_outcomes = eval_batch(exprs, tdcases)
    except BatchCrash as bc:
        if len(exprs) + len(tdcases) <= 1 or depth_guard > 12:
            key = f"crash|{bc.route}|{type(bc.exc).__name__}"
            wit = {"kind": "ann", "e": exprs[0].to_json()} if exprs else {"kind": "td", "td": tdcases[0].to_json()}
            ctx.violation(key, f"checking the module raised {bc.exc!r}", wit)
            return
        h = len(exprs) // 2
        ht = len(tdcases) // 2
        check_ann_batch(ctx, exprs[:h], tdcases[:ht], depth_guard + 1)
        check_ann_batch(ctx, exprs[h:], tdcases[ht:], depth_guard + 1)
        return
    for e, o in zip(exprs, outcomes):
        _SINGLE.setdefault(e.src, o)
    # minimisation works on memoised single evaluations: fetch what it will need in bulk
    frontier = [e for e, o in zip(exprs, outcomes) if disagrees(o)]
    bad = list(frontier)
    for _ in range(4):
        kids = [k for e in frontier for k in e.kids if context_of(k) == "param"]
        if not kids:
            break
        prefetch(kids)
        frontier = [k for k in kids if _SINGLE.get(k.src) is not None and disagrees(_SINGLE[k.src])]
    prefetch([t for t in (plain_fill(descend(e)) for e in bad) if t is not None])
    for e, o in zip(exprs, outcomes):
        judge_expr(ctx, e, o)
    for t, o in zip(tdcases, td_outcomes):
        judge_td(ctx, t, o, outcomes[index[t.e.src]])


def judge_expr(ctx, e: E, o: dict) -> None:
    ctx.count("evaluations")
    ctx.count("ann_cases")
    if context_of(e) == "class":
        ctx.count("classbody_cases")
    n = len(o)
    ctx.count("route_pairs_compared", n * (n - 1) // 2)
    if e.depth >= 2 or e.form != "class":
        ctx.nontrivial(("ann", e.src))
    ctx.histo("top_form", e.form)
    ctx.histo("depth", str(e.depth))
    a = o.get("Cr")
    ctx.histo("value_class_on_runtime_route", type(a).__name__ if not isinstance(a, Exc) else "raised")
    if any(isinstance(v, Exc) for v in o.values()):
        ctx.count("cases_with_a_raising_route")
    if not disagrees(o):
        ctx.count("ann_all_routes_agree")
        from pyanalyze.value import AnySource, AnyValue

        if isinstance(a, AnyValue) and a.source is AnySource.error:
            # every route rejects the expression alike: agreement, but it says nothing about the form
            ctx.count("ann_agree_on_error_value")
            ctx.histo("forms_rejected_by_every_route", e.form)
        if len(ctx.samples) < 3 and e.depth >= 2:
            ctx.sample({"annotation": e.src, "agreed_value": show(o["A"])})
        return
    ctx.count("ann_disagreements")
    m = minimise(e)
    mo = eval_single(m) or o
    if not disagrees(mo):  # cannot happen unless evaluation is context dependent
        m, mo = e, o
        ctx.count("ann_disagreement_only_in_batch")
    key = ann_key(m, mo)
    ctx.histo("disagreement_partitions", partition_text(mo))
    ctx.violation(key, ann_what(m, mo, e), {"kind": "ann", "e": m.to_json()})


def judge_td(ctx, t: TDCase, o: dict, field_outcome: dict) -> None:
    from pyanalyze.value import TypedDictValue

    ctx.count("evaluations")
    ctx.count("td_cases")
    ctx.nontrivial(("td", t.label(), t.e.src))
    ctx.histo("td_shapes", t.label())
    n = len(o)
    ctx.count("route_pairs_compared", n * (n - 1) // 2)
    wit = {"kind": "td", "td": t.to_json()}
    src = " / ".join(_td_src(0, t))
    if disagrees(field_outcome):
        # the field expression is already reported on its own; nothing TypedDict-specific can be learnt
        ctx.count("td_skipped_field_expression_itself_disagrees")
        return
    if disagrees(o):
        key = f"td|{t.qual}|routes|{partition_text(o)}"
        ctx.violation(key, f"{src}: " + "; ".join(f"{r}={show(v)}" for r, v in o.items()), wit)
        return
    v = o["A"]
    if not isinstance(v, TypedDictValue) or "k" not in v.items:
        key = f"td|{t.qual}|not-a-typeddict|{v.typ if isinstance(v, Exc) else type(v).__name__}"
        ctx.violation(key, f"{src}: every route gives {show(v)}", wit)
        return
    entry = v.items["k"]
    for flag, have, want, why in (
        ("required", entry.required, t.expected_required(),
         "NotRequired" if "NotRequired" in t.qual else "Required" if t.qual == "Required" else f"total={t.total}"),
        ("readonly", entry.readonly, t.expected_readonly(), "ReadOnly" if "ReadOnly" in t.qual else "no-qualifier"),
    ):
        if have != want:
            # keyed by the flag and the part of the declaration that decides it; syntax / quoting are in the witness
            key = f"td|flags|{flag}|declared-by={why}|expected={want}"
            ctx.violation(key, f"{src}: entry has {flag}={have}, the declaration says {flag}={want}", wit)
            return
    ctx.count("td_field_type_compared")
    expected = field_outcome["Cr"]
    if not agree(entry.typ, expected):
        key = f"td|field-type|{t.qual}|{key_form(t.e.form)}"
        ctx.violation(key, f"{src}: field type is {show(entry.typ)} but {t.e.src!r} alone means {show(expected)}", wit)


TD_QUALS = ["plain", "Required", "NotRequired", "ReadOnly", "ReadOnly-NotRequired"]


def td_cases_for(exprs: list, rng, every: int) -> list:
    out = []
    combos = [(q, tot, syn, quo) for q in TD_QUALS for tot in (True, False) for syn in ("class", "functional") for quo in (False, True)]
    for n, e in enumerate(exprs):
        if context_of(e) != "param" or n % every:
            continue
        q, tot, syn, quo = combos[(n // every) % len(combos)] if rng.random() < 0.7 else rng.choice(combos)
        out.append(TDCase(e, q, tot, syn, quo))
    return out


# ---------------------------------------------------------------------------
# part 2: def headers

ANN_POS = [None, "int", "str", "Optional[int]", '"A"', "T", "list[int]", "Literal[1, 2]", "Callable[[int], str]"]
ANN_VA = [None, "int", '"A"', "T", "*tuple[int, str]", "Unpack[tuple[int, str]]", "Unpack[tuple[int, ...]]"]
ANN_VK = [None, "int", '"A"', "Unpack[TDK]"]
DEFAULTS = ["0", "'s'", "None", "...", "()", "-1", "1.5", "True"]
RETS = [None, "int", '"A"', "None", "T", "Optional[int]", "list[T]"]


# PEP 695 headers: the function declares its own type parameter U; old-style ParamSpec: *args: PS.args, **kwargs: PS.kwargs
TPARAMS = ["U", "U: A", "U: (int, str)"]
ANN_695 = ["U", "U | None", "Optional[U]", "list[U]", "int"]
RETS_695 = [None, "U", "list[U]", "int"]


def ann_label(a: Optional[str]) -> str:
    if a is None:
        return "unannotated"
    if re.search(r"\bU\b", a):
        return "pep695-bare-type-parameter" if a == "U" else "pep695-bitor" if "|" in a else "pep695-subscripted"
    if a.startswith("PS."):
        return "paramspec-args-kwargs"
    if a.startswith("*"):
        return "star-unpack"
    if a.startswith("Unpack["):
        return "Unpack"
    if a.startswith('"') or a.startswith("'"):
        return "fwdref"
    if "*" in a:
        return "contains-star-unpack"
    return "plain"


@dataclass(frozen=True)
class Header:
    sig: Sig
    anns: tuple      # ((name, text), ...)
    defaults: tuple  # ((name, text), ...)
    ret: Optional[str]
    is_async: bool
    calls: tuple     # of Call
    tparams: str = ""  # PEP 695 type parameter list, e.g. "U: A"

    def render_def(self, fname: str) -> str:
        params = self.sig.render_params(annotations=dict(self.anns), defaults=dict(self.defaults))
        ret = f" -> {self.ret}" if self.ret is not None else ""
        tp = f"[{self.tparams}]" if self.tparams else ""
        return f"{'async ' if self.is_async else ''}def {fname}{tp}({params}){ret}: ..."

    def to_json(self):
        return {
            "sig": [[p.name, p.kind, p.default] for p in self.sig.params], "anns": [list(x) for x in self.anns],
            "defaults": [list(x) for x in self.defaults], "ret": self.ret, "async": self.is_async,
            "calls": [{"npos": c.npos, "kws": list(c.kws), "star": c.star, "dstar": None if c.dstar is None else list(c.dstar)}
                      for c in self.calls],
            **({"tparams": self.tparams} if self.tparams else {}),
        }

    @staticmethod
    def from_json(j) -> "Header":
        return Header(
            Sig(tuple(Param(n, k, d) for n, k, d in j["sig"])), tuple(tuple(x) for x in j["anns"]),
            tuple(tuple(x) for x in j["defaults"]), j["ret"], j["async"],
            tuple(Call(c["npos"], tuple(c["kws"]), c["star"], None if c["dstar"] is None else tuple(c["dstar"])) for c in j["calls"]),
            j.get("tparams", ""),
        )


def make_calls(sig: Sig, rng, n: int = 6) -> tuple:
    names = sig.names()
    out = []
    seen = set()
    tries = 0
    while len(out) < n and tries < 60:
        tries += 1
        c = valid_call(sig, rng)
        if out:  # the first call is a plain valid one
            for _ in range(rng.randrange(0, 3)):
                c = mutate_call(c, names, rng)
        if c in seen:
            continue
        seen.add(c)
        out.append(c)
    return tuple(out)


def gen_headers(ctx):
    """Per signature shape: v0 unannotated, v1 all `int`/default 0, v2 = v0 with the first named parameter spelled
    `__name` (the PEP 484 positional-only spelling; never combined with annotations so that it is one mechanism),
    v3.. annotations/defaults/return drawn from the pools by the seeded rng (same stream in every shard).
    Two more variants from a stream of their own: every shape with *args and **kwargs once as
    (*args: PS.args, **kwargs: PS.kwargs) (old-style ParamSpec), every (quick: every third) shape with a named parameter
    once as a PEP 695 generic function  def f[U](..)  whose annotations use its own type parameter."""
    rng = gen_rng(ctx, "headers")
    rng2 = gen_rng(ctx, "headers-extra")
    variants = ctx.pick(4, 10)
    for n_shape, sig0 in enumerate(enumerate_sigs(ctx.pick(4, 5))):
        kinds = [p.kind for p in sig0.params]
        if VA in kinds and VK in kinds and KO not in kinds:  # PEP 612: nothing between *args: P.args and **kwargs: P.kwargs
            anns = []
            for p in sig0.params:
                a = "PS.args" if p.kind == VA else "PS.kwargs" if p.kind == VK else rng2.choice([None, "int", "str"])
                if a is not None:
                    anns.append((p.name, a))
            defaults = tuple((p.name, "0") for p in sig0.params if p.default)
            yield Header(sig0, tuple(anns), defaults, rng2.choice([None, "int"]), False, make_calls(sig0, rng2))
        if any(k in (PO, PK, KO) for k in kinds) and (not ctx.quick or n_shape % 3 == 0):
            anns, used = [], False
            for p in sig0.params:
                a = rng2.choice(ANN_695) if p.kind in (PO, PK, KO) else rng2.choice([None, "U", "int"])
                if p.kind in (PO, PK, KO) and not used:
                    a = rng2.choice(ANN_695[:4])  # at least one parameter uses the type parameter
                    used = True
                if a is not None:
                    anns.append((p.name, a))
            defaults = tuple((p.name, "None") for p in sig0.params if p.default)
            yield Header(sig0, tuple(anns), defaults, rng2.choice(RETS_695), False, make_calls(sig0, rng2), rng2.choice(TPARAMS))
        for v in range(variants):
            sig = sig0
            if v == 2:
                ps = list(sig.params)
                for i, p in enumerate(ps):
                    if p.kind in (PO, PK, KO):
                        ps[i] = Param("__" + p.name, p.kind, p.default)
                        break
                else:
                    continue
                sig = Sig(tuple(ps))
            anns, defaults = [], []
            for p in sig.params:
                if v in (0, 2):
                    a = None
                elif v == 1:
                    a = "int"
                else:
                    pool = ANN_VA if p.kind == VA else ANN_VK if p.kind == VK else ANN_POS
                    a = rng.choice(pool)
                if a is not None:
                    anns.append((p.name, a))
                if p.default:
                    defaults.append((p.name, "0" if v < 3 else rng.choice(DEFAULTS)))
            ret = None if v in (0, 2) else "int" if v == 1 else rng.choice(RETS)
            is_async = v >= 3 and rng.random() < 0.1
            yield Header(sig, tuple(anns), tuple(defaults), ret, is_async, make_calls(sig, rng))


_PREFIX_RE = re.compile(r"^In call to [^:]*: ")


def call_diag_set(ds) -> frozenset:
    # `~U` / `U`: how a TypeVar prints depends on whether typing made it for  def f[U]  or the def route made its own
    # for the same declaration (only the PEP 695 headers use the name U)
    return frozenset((d.code, re.sub(r"~(U\b)", r"\1", _PREFIX_RE.sub("", d.description))) for d in ds)


def diag_class(s: frozenset) -> str:
    if not s:
        return "clean"
    out = []
    for code, desc in sorted(s):
        d = re.sub(r"'[^']*'", "'N'", desc)
        d = re.sub(r"\bfor \w+:", "for N:", d)
        d = re.sub(r"\d+", "#", d)
        out.append(f"{code}:{d[:60]}")
    return " & ".join(out)


def eval_headers(headers: list) -> list:
    """-> per header: dict(static=CallableValue|Exc|None, runtime=Signature|Exc|None, calls=[(set_nested, set_imported, res_n, res_i)])"""
    from pyanalyze.analysis_lib import make_module

    prelude()
    chk = checker()
    d_lines = [HEADER]
    n_lines = [HEADER]
    u_lines = [HEADER]
    for i, h in enumerate(headers):
        d_lines.append(h.render_def(f"f{i}"))
        n_lines.append(f"def outer{i}():")
        n_lines.append("    " + h.render_def(f"f{i}"))
        u_lines.append(f"def caller{i}():")
        for j, c in enumerate(h.calls):
            src = c.render(f"f{i}")
            n_lines.append("    " + src)
            u_lines.append("    " + src)
        n_lines.append(f"    return f{i}")
        u_lines.append("    return None")
    dmod = make_module("\n".join(d_lines) + "\n")
    mods = [dmod]
    try:
        n_src = "\n".join(n_lines) + "\n"
        n_tree = ast.parse(n_src)
        n_res = harness.run(n_src, tree=n_tree, annotate=True, keep_module=True)
        mods.append(n_res.module)
        u_src = "\n".join(u_lines) + "\n"
        u_tree = ast.parse(u_src)
        scope = {f"f{i}": getattr(dmod, f"f{i}") for i in range(len(headers))}
        u_res = harness.run(u_src, tree=u_tree, annotate=True, keep_module=True, extra_scope=scope)
        mods.append(u_res.module)
        for r, name in ((n_res, "nested"), (u_res, "imported")):
            if r.exception is not None:
                raise BatchCrash(name, r.exception)
        n_by, u_by = n_res.by_line(), u_res.by_line()
        outers = {n.name: n for n in n_tree.body if isinstance(n, ast.FunctionDef)}
        callers = {n.name: n for n in u_tree.body if isinstance(n, ast.FunctionDef)}
        out = []
        for i, h in enumerate(headers):
            outer = outers[f"outer{i}"]
            fd = outer.body[0]
            static = internal_error_of([d for ln in range(outer.lineno, fd.lineno + 1) for d in n_by.get(ln, [])])
            if static is None:
                static = getattr(fd, "inferred_value", None)
            try:
                runtime = chk.get_signature(getattr(dmod, f"f{i}"))
            except Exception as ex:  # noqa: BLE001
                runtime = Exc(type(ex).__name__, str(ex))
            calls = []
            caller = callers[f"caller{i}"]
            for j, c in enumerate(h.calls):
                n_stmt = outer.body[1 + j]
                u_stmt = caller.body[j]
                ns_ = call_diag_set(n_by.get(n_stmt.lineno, []))
                us_ = call_diag_set(u_by.get(u_stmt.lineno, []))
                calls.append((ns_, us_, getattr(n_stmt.value, "inferred_value", None), getattr(u_stmt.value, "inferred_value", None)))
            out.append({"static": static, "runtime": runtime, "calls": calls})
        return out
    finally:
        for m in mods:
            harness.forget_module(m)


def compare_signatures(h: Header, static, runtime) -> list:
    """-> list of (key, what). Empty if the two signatures agree."""
    from pyanalyze.signature import Signature
    from pyanalyze.value import AnyValue, CallableValue, CanAssignError, KnownValue

    if isinstance(static, Exc) or isinstance(runtime, Exc) or static is None or runtime is None:
        if isinstance(static, Exc) and isinstance(runtime, Exc) and static.typ == runtime.typ:
            return []
        return [(f"sig|route-failed|static={show_kind(static)}|runtime={show_kind(runtime)}",
                 f"static route gives {show(static)}, runtime route gives {show(runtime)}")]
    if not isinstance(static, CallableValue) or not isinstance(static.signature, Signature) or not isinstance(runtime, Signature):
        return [(f"sig|not-a-signature|static={type(static).__name__}|runtime={type(runtime).__name__}",
                 f"static route gives {show(static)}, runtime route gives {show(runtime)}")]
    ssig = static.signature
    sp = list(ssig.parameters.values())
    rp = list(runtime.parameters.values())
    anns = dict(h.anns)
    kind_of = {p.name: p.kind for p in h.sig.params}
    out = []
    if [p.name for p in sp] != [p.name for p in rp]:
        # find the declared parameter responsible: first position where they differ
        k = next((i for i, (a, b) in enumerate(zip(sp, rp)) if a.name != b.name), min(len(sp), len(rp)))
        decl = h.sig.params[min(k, len(h.sig.params) - 1)] if h.sig.params else None
        out.append((f"sig|{decl.kind if decl else 'none'}|names|{ann_label(anns.get(decl.name)) if decl else ''}",
                    f"parameter names differ: static {[p.name for p in sp]} vs runtime {[p.name for p in rp]}"))
        return out
    for a, b in zip(sp, rp):
        dk = kind_of.get(a.name, "synthetic")
        dunder = "|dunder-name" if a.name.startswith("__") else ""
        if a.kind is not b.kind:
            out.append((f"sig|{dk}|kind|static={a.kind.name}|runtime={b.kind.name}{dunder}",
                        f"parameter {a.name}: kind {a.kind.name} from the def node, {b.kind.name} from the function object"))
            continue
        if (a.default is None) != (b.default is None):
            out.append((f"sig|{dk}|has-default|static={a.default is not None}|runtime={b.default is not None}",
                        f"parameter {a.name}: default {show(a.default)} from the def node, {show(b.default)} from the function object"))
            continue
        if a.default is not None and not agree(a.default, b.default):
            widened = (
                isinstance(b.default, KnownValue) and not isinstance(a.default, (KnownValue, AnyValue))
                and not isinstance(a.default.can_assign(b.default, checker()), CanAssignError)
            )
            if not widened:
                # kind is left out of the key on purpose: both routes treat defaults of every kind alike
                rd = type(b.default.val).__name__ if isinstance(b.default, KnownValue) else type(b.default).__name__
                out.append((f"sig|default-value|static={type(a.default).__name__}|runtime={type(b.default).__name__}:{rd}",
                            f"parameter {a.name}: default is {show(a.default)} from the def node, {show(b.default)} from the function object"))
                continue
        declared = anns.get(a.name)
        if declared is None and a.name in kind_of:
            ok = mutually_assignable(a.annotation, b.annotation)
        else:
            ok = agree(a.annotation, b.annotation)
        if not ok:
            lab = ann_label(declared)
            # one evaluator handles a function's own type parameter wherever it is written: no kind in the key
            out.append((f"sig|annotation|{lab}" if lab.startswith("pep695") else f"sig|{dk}|annotation|{lab}",
                        f"parameter {a.name}: {declared!r} is {show(a.annotation)} from the def node, {show(b.annotation)} from the function object"))
    if ssig.has_return_annotation != runtime.has_return_annotation:
        out.append((f"sig|return|has-annotation|static={ssig.has_return_annotation}|runtime={runtime.has_return_annotation}",
                    f"return annotation {h.ret!r}: present={ssig.has_return_annotation} vs {runtime.has_return_annotation}"))
    elif h.ret is not None and not agree(ssig.return_value, runtime.return_value):
        out.append((f"sig|annotation|{ann_label(h.ret)}" if ann_label(h.ret).startswith("pep695") else
                    f"sig|return|annotation|{ann_label(h.ret)}{'|async' if h.is_async else ''}",
                    f"return annotation {h.ret!r}: {show(ssig.return_value)} from the def node, {show(runtime.return_value)} from the function object"))
    elif h.ret is None and not mutually_assignable(ssig.return_value, runtime.return_value):
        out.append((f"sig|return|unannotated{'|async' if h.is_async else ''}",
                    f"no return annotation: {show(ssig.return_value)} from the def node, {show(runtime.return_value)} from the function object"))
    return out


def show_kind(v) -> str:
    if isinstance(v, Exc):
        return "raised:" + v.typ
    return type(v).__name__


def reduce_header(h: Header, key: str) -> Header:
    """Smallest header (fewer parameters) that still yields the same signature key."""
    best = h
    params = list(h.sig.params)
    i = 0
    budget = 12
    while i < len(params) and len(params) > 1 and budget > 0:
        budget -= 1
        trial_params = params[:i] + params[i + 1:]
        names = {p.name for p in trial_params}
        if dict(best.anns).get(params[i].name, "").startswith("PS."):
            i += 1  # P.args and P.kwargs are only legal together
            continue
        # dropping a non-default positional before defaulted ones is fine; dropping may create default-before-nondefault
        pos = [p for p in trial_params if p.kind in (PO, PK)]
        legal = all(not (pos[k].default and not pos[k + 1].default) for k in range(len(pos) - 1))
        if not legal:
            i += 1
            continue
        trial = Header(Sig(tuple(trial_params)), tuple(x for x in best.anns if x[0] in names),
                       tuple(x for x in best.defaults if x[0] in names), best.ret, best.is_async, (), best.tparams)
        try:
            r = eval_headers([trial])[0]
            keys = [k for k, _ in compare_signatures(trial, r["static"], r["runtime"])]
        except Exception:  # noqa: BLE001
            keys = []
        if key in keys:
            best = trial
            params = trial_params
        else:
            i += 1
    return best


def check_header_batch(ctx, headers: list, depth_guard: int = 0) -> None:
    try:
        results = eval_headers(headers)
    except BatchCrash as bc:
        if len(headers) <= 1 or depth_guard > 12:
            ctx.violation(f"crash|{bc.route}|{type(bc.exc).__name__}", f"checking the module raised {bc.exc!r}",
                          {"kind": "header", "h": headers[0].to_json()})
            return
        mid = len(headers) // 2
        check_header_batch(ctx, headers[:mid], depth_guard + 1)
        check_header_batch(ctx, headers[mid:], depth_guard + 1)
        return
    for h, r in zip(headers, results):
        judge_header(ctx, h, r)


def judge_header(ctx, h: Header, r: dict) -> None:
    ctx.count("evaluations")
    ctx.count("headers")
    text = h.render_def("f")
    if h.sig.params:
        ctx.nontrivial(("hdr", text, tuple(c.render("f") for c in h.calls)))
    ctx.histo("header_shapes", h.sig.shape())
    for _, a in h.anns:
        ctx.histo("header_annotation_kinds", ann_label(a))
    ctx.count("sig_params_compared", len(h.sig.params))
    if isinstance(r["static"], Exc) and isinstance(r["runtime"], Exc) and r["static"].typ == r["runtime"].typ:
        # both builders raise the same exception: a crash (C12), not a disagreement; nothing to compare
        ctx.count("headers_both_routes_raise_alike")
        ctx.histo("both_routes_raise", r["static"].typ)
        return
    diffs = compare_signatures(h, r["static"], r["runtime"])
    seen = set()
    for key, what in diffs:
        if key in seen:
            continue
        seen.add(key)
        # reduction re-checks up to a dozen modules: done for the first occurrences of a key in a shard only (the
        # smallest witnesses are the ones kept)
        small = reduce_header(h, key) if len(h.sig.params) > 1 and ctx.violation_counts.get(key, 0) < 3 else h
        hh = small if small is not h else h
        if hh is not h:
            try:
                rr = eval_headers([hh])[0]
                what = dict(compare_signatures(hh, rr["static"], rr["runtime"])).get(key, what)
            except Exception:  # noqa: BLE001
                pass
        ctx.violation(key, f"{hh.render_def('f')}: {what}" if hh is h else f"{hh.render_def('f')} (reduced from {text}): {what}",
                      {"kind": "header", "h": Header(hh.sig, hh.anns, hh.defaults, hh.ret, hh.is_async, (), hh.tparams).to_json()})
    if not diffs:
        ctx.count("signatures_agree")
    for c, (ns_, us_, rn, ru) in zip(h.calls, r["calls"]):
        ctx.count("calls_compared")
        both = "both_diagnosed" if ns_ and us_ else "both_clean" if not ns_ and not us_ else "one_sided"
        ctx.count("calls_" + both)
        for code, _ in ns_ | us_:
            ctx.histo("call_codes", code)
        if ns_ != us_:
            if diffs:
                ctx.count("call_differences_explained_by_signature_difference")
                continue
            key = f"call|nested={diag_class(ns_ - us_)}|imported={diag_class(us_ - ns_)}"
            if h.tparams and any(code == "undefined_name" and re.fullmatch(r"Undefined name: f\d+", desc) for code, desc in ns_):
                # whatever the importing module says about the arguments: the generic function's own name is unknown
                key = "call|nested=undefined_name:the-pep695-function-itself"
            ctx.violation(key, f"{text}; call {c.render('f')}: nested placement reports {sorted(ns_)}, imported placement reports {sorted(us_)}",
                          {"kind": "header", "h": Header(h.sig, h.anns, h.defaults, h.ret, h.is_async, (c,), h.tparams).to_json()})
        elif not ns_ and rn is not None and ru is not None and h.ret is not None:
            ctx.count("call_results_compared")
            if not agree(rn, ru) and not diffs:
                key = f"call|result-type|{ann_label(h.ret)}{'|async' if h.is_async else ''}"
                ctx.violation(key, f"{text}; call {c.render('f')}: result {show(rn)} when nested, {show(ru)} when imported",
                              {"kind": "header", "h": Header(h.sig, h.anns, h.defaults, h.ret, h.is_async, (c,), h.tparams).to_json()})


# ---------------------------------------------------------------------------
# part 2b: methods (the def statement sits in a class body)

# placement -> (opening lines, class path or None for a function-local class, indent depth of the class body,
#               class is generic, line closing a function-local placement)
PLACEMENTS = {
    "top": (["class K{i}:"], "K{i}", 1, False, None),
    "top-base": (["class K{i}(A):"], "K{i}", 1, False, None),
    "nested": (["class O{i}:", "    class K:"], "O{i}.K", 2, False, None),
    "nested-base": (["class O{i}(A):", "    class K(B):"], "O{i}.K", 2, False, None),
    "nested2": (["class O{i}:", "    class M:", "        class K:"], "O{i}.M.K", 3, False, None),
    "generic-top": (["class K{i}(Generic[T]):"], "K{i}", 1, True, None),
    "generic-nested": (["class O{i}:", "    class K(Generic[T]):"], "O{i}.K", 2, True, None),
    "local": (["def mk{i}():", "    class K:"], None, 2, False, "    return K"),
    "local-nested": (["def mk{i}():", "    class O:", "        class K:"], None, 3, False, "    return O.K"),
}
# method kind -> [(label, name of the first parameter, its annotation template)]
FIRSTS = {
    "plain": [("unannotated", "self", None), ("unannotated-odd-name", "this", None), ("own-quoted", "self", '"{path}"'),
              ("typevar", "self", "T"), ("other-class", "self", "A")],
    "class": [("unannotated", "cls", None), ("type-own-quoted", "cls", 'Type["{path}"]'), ("type-typevar", "cls", "type[T]")],
    "static": [("no-implicit-first", None, None)],
}
# *args / **kwargs annotations of methods: the element type only (the Unpack forms, which turn one declared parameter
# into several, are exercised on plain functions)
M_ANN_VA = [None, "int", '"A"', "T"]
M_ANN_VK = [None, "int", '"A"']
# first argument of an unbound call  Cls.m(<first>, ...)
UNBOUND_FIRST = [("own-instance", "{path}()"), ("int", "42"), ("other-instance", "A()")]


def placement_class(placement: str) -> str:
    """Placement for the mechanism key: how the class is reached, not how deep."""
    generic = "generic-" if PLACEMENTS[placement][3] else ""
    if placement.startswith("local"):
        return generic + "function-local"
    if "nested" in placement:
        return generic + "nested"
    return generic + "top-level"


@dataclass(frozen=True)
class MethodCase:
    placement: str
    kind: str     # "plain" | "static" | "class"
    first: str    # label in FIRSTS[kind]
    h: Header     # the remaining parameters, the return annotation and the argument lists of the calls

    def first_spec(self) -> tuple:
        return next(f for f in FIRSTS[self.kind] if f[0] == self.first)

    def path(self, i: int) -> Optional[str]:
        p = PLACEMENTS[self.placement][1]
        return None if p is None else p.format(i=i)

    def names(self) -> list:
        fname = self.first_spec()[1]
        return ([fname] if fname else []) + [p.name for p in self.h.sig.params]

    def first_annotation(self, i: int) -> Optional[str]:
        tmpl = self.first_spec()[2]
        return None if tmpl is None else tmpl.format(path=self.path(i) or "K")

    def declared_kinds(self) -> dict:
        """name -> inspect-style kind name, as written in the def statement."""
        m = {PO: "POSITIONAL_ONLY", PK: "POSITIONAL_OR_KEYWORD", VA: "VAR_POSITIONAL", KO: "KEYWORD_ONLY", VK: "VAR_KEYWORD"}
        out = {p.name: m[p.kind] for p in self.h.sig.params}
        fname = self.first_spec()[1]
        if fname:
            out[fname] = "POSITIONAL_ONLY" if any(p.kind == PO for p in self.h.sig.params) else "POSITIONAL_OR_KEYWORD"
        return out

    def def_lines(self, i: int) -> list:
        opening, _, depth, _, closing = PLACEMENTS[self.placement]
        ind = "    " * depth
        params = self.h.sig.render_params(annotations=dict(self.h.anns), defaults=dict(self.h.defaults))
        fname = self.first_spec()[1]
        if fname:
            fann = self.first_annotation(i)
            params = fname + (f": {fann}" if fann else "") + (", " + params if params else "")
        ret = f" -> {self.h.ret}" if self.h.ret is not None else ""
        lines = [ln.format(i=i) for ln in opening]
        if self.kind != "plain":
            lines.append(f"{ind}@{self.kind}method")
        lines.append(f"{ind}def m({params}){ret}:")
        lines.append(f"{ind}    ({''.join(n + ', ' for n in self.names())})")
        if closing:
            lines.append(closing)
        return lines

    def call_lines(self, i: int) -> list:
        """-> [(form label, first-argument label or None, source, Call)]; none for a function-local class (it has no
        name outside its function)."""
        path = self.path(i)
        if path is None:
            return []

        def with_first(target: str, c: Call, first: Optional[str]) -> str:
            s = c.render("F")[2:-1]
            if first is not None:
                s = first + (", " + s if s else "")
            return f"{target}({s})"

        out = []
        for n, c in enumerate(self.h.calls[:3]):
            out.append(("bound-to-instance", None, with_first(f"{path}().m", c, None), c))
            if self.kind == "plain":
                for lab, tmpl in (UNBOUND_FIRST if n == 0 else UNBOUND_FIRST[:1]):
                    out.append(("unbound", lab, with_first(f"{path}.m", c, tmpl.format(path=path)), c))
            else:
                out.append(("through-class", None, with_first(f"{path}.m", c, None), c))
        return out

    def text(self) -> str:
        return " / ".join(s.strip() for s in self.def_lines(0))

    def to_json(self):
        return {"placement": self.placement, "mkind": self.kind, "first": self.first, "h": self.h.to_json()}

    @staticmethod
    def from_json(j) -> "MethodCase":
        return MethodCase(j["placement"], j["mkind"], j["first"], Header.from_json(j["h"]))


def gen_methods(ctx):
    """Every (placement, method kind, first-parameter variant) with several headers for the remaining parameters:
    v0 no further parameter, v1 unannotated parameters, v2 all `int`, v3.. drawn from the pools of part 2."""
    rng = gen_rng(ctx, "methods")
    sigs = [s for s in enumerate_sigs(3) if s.params]
    for placement, (_, path, _, _, _) in PLACEMENTS.items():
        for kind, firsts in FIRSTS.items():
            for label, _, tmpl in firsts:
                if path is None and tmpl is not None and "{path}" in tmpl:
                    continue  # a function-local class cannot be named in an annotation string
                for v in range(ctx.pick(4, 12)):
                    sig = Sig(()) if v == 0 else rng.choice(sigs)
                    anns, defaults = [], []
                    for p in sig.params:
                        if v == 1:
                            a = None
                        elif v == 2:
                            a = "int"
                        else:
                            a = rng.choice(M_ANN_VA if p.kind == VA else M_ANN_VK if p.kind == VK else ANN_POS)
                        if a is not None:
                            anns.append((p.name, a))
                        if p.default:
                            defaults.append((p.name, "0" if v < 3 else rng.choice(DEFAULTS)))
                    ret = None if v < 2 else "int" if v == 2 else rng.choice(RETS)
                    yield MethodCase(placement, kind, label, Header(sig, tuple(anns), tuple(defaults), ret, False, make_calls(sig, rng, 3)))


def _find_def(node, name: str):
    for child in getattr(node, "body", []):
        if isinstance(child, (ast.FunctionDef, ast.AsyncFunctionDef)) and child.name == name:
            return child
        if isinstance(child, ast.ClassDef):
            found = _find_def(child, name)
            if found is not None:
                return found
    return None


def _runtime_class(mod, mc: MethodCase, i: int):
    path = mc.path(i)
    if path is None:
        return getattr(mod, f"mk{i}")()
    obj = mod
    for part in path.split("."):
        obj = getattr(obj, part)
    return obj


def eval_methods(cases: list) -> list:
    """One checked module M holding every class (def route: the values of the parameter names read in the method
    body, plus the value left on the def node), its never-checked twin D (runtime route: get_signature of what
    attribute access on the class / an instance yields) and an importing module U with the same calls as M."""
    from pyanalyze.analysis_lib import make_module

    prelude()
    chk = checker()
    m_lines, d_lines, u_lines = [HEADER], [HEADER], [HEADER]
    call_specs = []
    for i, mc in enumerate(cases):
        m_lines += mc.def_lines(i)
        d_lines += mc.def_lines(i)
    for i, mc in enumerate(cases):
        specs = mc.call_lines(i)
        call_specs.append(specs)
        for lines, fn in ((m_lines, "calls"), (u_lines, "caller")):
            lines.append(f"def {fn}{i}():")
            lines += ["    " + s for _, _, s, _ in specs] or ["    pass"]
    dmod = make_module("\n".join(d_lines) + "\n")
    mods = [dmod]
    try:
        m_src = "\n".join(m_lines) + "\n"
        m_tree = ast.parse(m_src)
        m_res = harness.run(m_src, tree=m_tree, annotate=True, keep_module=True)
        mods.append(m_res.module)
        u_src = "\n".join(u_lines) + "\n"
        u_tree = ast.parse(u_src)
        scope = {k: v for k, v in dmod.__dict__.items() if re.fullmatch(r"[KO]\d+", k)}
        u_res = harness.run(u_src, tree=u_tree, annotate=True, keep_module=True, extra_scope=scope)
        mods.append(u_res.module)
        for r, name in ((m_res, "defining"), (u_res, "importing")):
            if r.exception is not None:
                raise BatchCrash(name, r.exception)
        m_by, u_by = m_res.by_line(), u_res.by_line()
        m_top = {n.name: n for n in m_tree.body if isinstance(n, (ast.FunctionDef, ast.ClassDef))}
        u_top = {n.name: n for n in u_tree.body if isinstance(n, ast.FunctionDef)}

        def sig_of(getter):
            try:
                return chk.get_signature(getter())
            except Exception as ex:  # noqa: BLE001
                return Exc(type(ex).__name__, re.sub(r" at 0x[0-9a-f]+", "", str(ex)))

        out = []
        for i, mc in enumerate(cases):
            top = m_top[mc.def_lines(i)[0].split()[1].split("(")[0].rstrip(":")]
            fd = _find_def(top, "m")
            err = internal_error_of([d for ln in range(top.lineno, fd.body[-1].lineno + 1) for d in m_by.get(ln, [])])
            def_vals = {}
            for elt in fd.body[-1].value.elts:
                def_vals[elt.id] = err if err is not None else getattr(elt, "inferred_value", None)
            r = {"def_vals": def_vals, "node": err if err is not None else getattr(fd, "inferred_value", None)}
            for tag, mod in (("m", m_res.module), ("d", dmod)):
                r["class_" + tag] = sig_of(lambda mod=mod: getattr(_runtime_class(mod, mc, i), "m"))
                r["inst_" + tag] = sig_of(lambda mod=mod: getattr(_runtime_class(mod, mc, i)(), "m"))
            calls = []
            for j, (form, first, src, call) in enumerate(call_specs[i]):
                ms, us = m_top[f"calls{i}"].body[j], u_top[f"caller{i}"].body[j]
                # read in the defining module: the same class objects as the values of the def route
                first_val = getattr(ms.value.args[0], "inferred_value", None) if first is not None else None
                calls.append((form, first, src, call_diag_set(m_by.get(ms.lineno, [])), call_diag_set(u_by.get(us.lineno, [])), first_val, call))
            r["calls"] = calls
            out.append(r)
        return out
    finally:
        for m in mods:
            harness.forget_module(m)


def _vclass(v) -> str:
    if isinstance(v, Exc):
        return "raised:" + v.typ
    if v is None:
        return "no-value"
    from pyanalyze.value import AnyValue

    if isinstance(v, AnyValue):
        return f"Any[{v.source.name}]"
    return type(v).__name__


def _same_class_other_args(x, y) -> bool:
    from pyanalyze.value import TypedValue

    return isinstance(x, TypedValue) and isinstance(y, TypedValue) and _resolve_typ(x.typ) is _resolve_typ(y.typ)


def compare_method(mc: MethodCase, r: dict) -> tuple:
    """-> ([(key, what)], number of parameters compared, first parameter compared?)"""
    from pyanalyze.signature import BoundMethodSignature, Signature
    from pyanalyze.value import CallableValue

    pc = placement_class(mc.placement)
    names = mc.names()
    fname = mc.first_spec()[1]
    anns = dict(mc.h.anns)
    out: list = []
    sig = r["class_m"]
    if isinstance(sig, BoundMethodSignature):
        try:
            sig = sig.get_signature(ctx=checker())
        except Exception as ex:  # noqa: BLE001
            sig = Exc(type(ex).__name__, str(ex))
    if not isinstance(sig, Signature):
        return [(f"method|{mc.kind}|{pc}|runtime-route|{_vclass(sig)}",
                 f"get_signature of the method reached through its class gives {show(sig)}")], 0, False
    # what attribute access on the class hides: the class method's cls
    expected = names[1:] if mc.kind == "class" else names
    got = list(sig.parameters)
    if got != expected:
        return [(f"method|{mc.kind}|{pc}|names", f"the def statement declares {expected}, the runtime signature has {got}")], 0, False
    kinds = mc.declared_kinds()
    has_default = {p.name: p.default for p in mc.h.sig.params}
    compared = 0
    first_compared = False
    for n in expected:
        p = sig.parameters[n]
        if p.kind.name != kinds[n]:
            out.append((f"method|{mc.kind}|param-kind|declared={kinds[n]}|runtime={p.kind.name}",
                        f"parameter {n}: declared {kinds[n]}, runtime signature says {p.kind.name}"))
            continue
        if (p.default is not None) != bool(has_default.get(n, False)):
            out.append((f"method|{mc.kind}|has-default|declared={bool(has_default.get(n))}|runtime={p.default is not None}",
                        f"parameter {n}: default present={p.default is not None} in the runtime signature"))
            continue
        if kinds[n] in ("VAR_POSITIONAL", "VAR_KEYWORD"):
            continue  # the body sees the packed tuple/dict; the element type is compared on plain functions (part 2)
        dv = r["def_vals"].get(n)
        compared += 1
        if n == fname:
            first_compared = True
            declared = mc.first_annotation(0)
            # the type of an implicit first parameter is derived from the enclosing class by both routes: it is
            # part of the declaration, so it must be the same type, not merely compatible
            if not agree(dv, p.annotation):
                where = "generic-class" if _same_class_other_args(dv, p.annotation) else pc
                out.append((f"method|{mc.kind}|{where}|first-param|{mc.first.replace('-odd-name', '')}|def={_vclass(dv)}|runtime={_vclass(p.annotation)}",
                            f"first parameter {n} ({'unannotated' if declared is None else declared}): {show(dv)} inside the "
                            f"method body (def route), {show(p.annotation)} in the runtime signature"))
            continue
        declared = anns.get(n)
        if mc.kind == "class" and mc.first == "type-typevar" and declared is not None and re.search(r"\bT\b", declared):
            compared -= 1
            continue  # reaching the method through its class binds cls and thereby T: not the declared annotation any more
        if isinstance(dv, Exc) or dv is None:
            ok = False
        elif declared is None:
            ok = mutually_assignable(dv, p.annotation)
        else:
            ok = agree(dv, p.annotation)
        if not ok:
            out.append((f"method|{mc.kind}|annotation|{ann_label(declared)}",
                        f"parameter {n}: {declared!r} is {show(dv)} in the method body, {show(p.annotation)} in the runtime signature"))
    # a function-local class: the def node itself carries the signature computed from the def statement
    if isinstance(r["node"], CallableValue) and isinstance(r["node"].signature, Signature) and mc.kind == "plain":
        full = Header(Sig((Param(fname, PO if kinds[fname] == "POSITIONAL_ONLY" else PK),) + mc.h.sig.params),
                      mc.h.anns, mc.h.defaults, mc.h.ret, False, ())
        for key, what in compare_signatures(full, r["node"], sig):
            out.append(("method|" + pc + "|" + key, what))
    # the never-checked twin module and the instance-bound view tell the same story
    for tag, other in (("never-checked-module", r["class_d"]), ("bound-to-instance", r["inst_m"]), ("bound-to-instance", r["inst_d"])):
        if isinstance(other, BoundMethodSignature):
            try:
                other = other.get_signature(ctx=checker())
            except Exception as ex:  # noqa: BLE001
                other = Exc(type(ex).__name__, str(ex))
        if other is None and tag == "bound-to-instance" and mc.first == "other-class" and not PLACEMENTS[mc.placement][0][-1].endswith("(A):"):
            continue  # an instance of K is not an A: there is no bound method to describe
        if not isinstance(other, Signature):
            out.append((f"method|{mc.kind}|{pc}|{tag}|{_vclass(other)}", f"{tag}: get_signature gives {show(other)}"))
            continue
        want = expected[1:] if tag == "bound-to-instance" and mc.kind == "plain" else expected
        if list(other.parameters) != want:
            out.append((f"method|{mc.kind}|{pc}|{tag}|names", f"{tag}: parameters {list(other.parameters)}, expected {want}"))
            continue
        for n in want:
            a, b = other.parameters[n], sig.parameters[n]
            # binding an instance substitutes type variables: only the twin module's annotations are comparable
            if a.kind is not b.kind or (tag == "never-checked-module" and stable_str(a.annotation) != stable_str(b.annotation)):
                out.append((f"method|{mc.kind}|{pc}|{tag}|parameter|{'first' if n == fname else 'other'}",
                            f"{tag}: parameter {n} is {a.kind.name} {show(a.annotation)}, through the class of the "
                            f"checked module it is {b.kind.name} {show(b.annotation)}"))
                break
    return out, compared, first_compared


def judge_method(ctx, mc: MethodCase, r: dict, reduce: bool = True) -> None:
    from pyanalyze.value import CanAssignError

    ctx.count("evaluations")
    ctx.count("method_cases")
    text = mc.text()
    ctx.nontrivial(("method", text, tuple(s for _, _, s, _ in mc.call_lines(0))))
    ctx.histo("method_shapes", f"{mc.placement}|{mc.kind}|{mc.first}")
    diffs, compared, first_compared = compare_method(mc, r)
    ctx.count("method_params_compared", compared)
    if first_compared:
        ctx.count("method_first_param_compared")
        ctx.histo("method_first_param_value_on_def_route", f"{placement_class(mc.placement)}|{mc.kind}|{mc.first}|"
                  f"{_vclass(r['def_vals'].get(mc.first_spec()[1]))}")
    seen = set()
    for key, what in diffs:
        if key in seen:
            continue
        seen.add(key)
        small = mc
        if reduce and mc.h.sig.params and ctx.violation_counts.get(key, 0) < 3:
            trial = MethodCase(mc.placement, mc.kind, mc.first, Header(Sig(()), (), (), None, False, ()))
            try:
                tdiffs = dict(compare_method(trial, eval_methods([trial])[0])[0])
            except Exception:  # noqa: BLE001
                tdiffs = {}
            if key in tdiffs:
                small, what = trial, tdiffs[key]
        ctx.violation(key, f"{small.text()}: {what}",
                      {"kind": "method", "m": MethodCase(small.placement, small.kind, small.first,
                                                         Header(small.h.sig, small.h.anns, small.h.defaults, small.h.ret, False, ())).to_json()})
    if not diffs:
        ctx.count("method_signatures_agree")
    fname = mc.first_spec()[1]
    for form, first, src, ms, us, first_val, call in r["calls"]:
        ctx.count("method_calls_compared")
        ctx.histo("method_call_forms", form if first is None else f"{form}|{first}")
        one = Header(mc.h.sig, mc.h.anns, mc.h.defaults, mc.h.ret, False, (call,))
        wit = {"kind": "method", "m": MethodCase(mc.placement, mc.kind, mc.first, one).to_json(), "call": src}
        if ms != us:
            if diffs:
                ctx.count("call_differences_explained_by_signature_difference")
                continue
            key = f"method-call|{mc.kind}|{form}|defining={diag_class(ms - us)}|importing={diag_class(us - ms)}"
            ctx.violation(key, f"{text}; call {src}: the defining module reports {sorted(ms)}, the importing module {sorted(us)}", wit)
            continue
        if first is None or fname is None:
            continue
        # an unbound call: the first argument is judged against the type the def route gives the first parameter
        dv = r["def_vals"].get(fname)
        if dv is None or isinstance(dv, Exc) or first_val is None:
            continue
        try:
            accepts = not isinstance(dv.can_assign(first_val, checker()), CanAssignError)
        except Exception:  # noqa: BLE001
            continue
        if any(code == "incompatible_call" for code, _ in us):
            continue  # the arguments do not bind: their types are never looked at
        reported = any(code == "incompatible_argument" and desc.startswith(f"Incompatible argument type for {fname}:") for code, desc in us)
        ctx.count("method_unbound_first_arg_judged")
        ctx.histo("method_unbound_first_arg", f"{first}|def-route-{'accepts' if accepts else 'rejects'}|{'reported' if reported else 'not-reported'}")
        if reported and not accepts:
            ctx.count("method_unbound_first_arg_rejected_and_reported")
        if accepts == reported:
            key = (f"method-call|unbound|{placement_class(mc.placement)}|first-arg|{first}|def-route-"
                   f"{'accepts' if accepts else 'rejects'}|{'reported' if reported else 'not-reported'}")
            ctx.violation(key, f"{text}; call {src}: inside the method {fname} is {show(dv)}, the argument is {show(first_val)}, "
                               f"the call is {'reported' if reported else 'not reported'}: {sorted(us)}", wit)


def check_method_batch(ctx, cases: list, depth_guard: int = 0) -> None:
    try:
        results = eval_methods(cases)
    except BatchCrash as bc:
        if len(cases) <= 1 or depth_guard > 12:
            ctx.violation(f"crash|method|{bc.route}|{type(bc.exc).__name__}", f"checking the module raised {bc.exc!r}",
                          {"kind": "method", "m": cases[0].to_json()})
            return
        mid = len(cases) // 2
        check_method_batch(ctx, cases[:mid], depth_guard + 1)
        check_method_batch(ctx, cases[mid:], depth_guard + 1)
        return
    for mc, r in zip(cases, results):
        judge_method(ctx, mc, r)


# ---------------------------------------------------------------------------
# part 3: a quoted name inside an annotation belongs to the module that wrote it, whatever happened before
#
# typing keeps ONE alias object per spelling (List["A"] is List["A"], with one ForwardRef('A') inside) for the whole
# process, and typing.get_type_hints() stores what it resolved on that shared object.  Two modules that define
# different classes under the same names therefore share the very objects their annotations are made of.  Whatever the
# other module (or code inspecting it) did before, every route must resolve the module's own class: the same value
# as the annotation written without quotes.

OWN_CLASSES = "class A: pass\nclass B(A): pass\nclass Warning: pass\nclass TimeoutError(Exception): pass\n"
OWN_NAMES = ("A", "B", "Warning", "TimeoutError")
HISTORIES = ("none", "other-module-get_type_hints", "other-module-get_type_hints-include_extras")
TWIN_ROUTES = ("A", "Bv", "Bs", "Cr", "Cs", "Cf", "R")
TWIN_BATCH = 24  # typing's caches hold 128 entries: the two modules of a batch must meet each other's objects
FWD_ATOMS = [a for a in ATOMS if a.form.startswith("fwdref")]
CON_BY_FORM = {c[0]: c for c in CONSTRUCTORS}


def dequote(e: E) -> E:
    """The same expression with every forward-reference string replaced by what it says."""
    if not e.kids:
        if e.form.startswith("fwdref"):
            return E(ast.literal_eval(e.src), "class", (), 0)
        return e
    return build(CON_BY_FORM[e.form], [dequote(k) for k in e.kids])


def has_fwdref(e: E) -> bool:
    return e.form.startswith("fwdref") if not e.kids else any(has_fwdref(k) for k in e.kids)


def holder_spelling(e: E) -> str:
    """Spelling class of the innermost constructor that holds a quoted name (for the mechanism key)."""
    for k in e.kids:
        if k.kids and has_fwdref(k):
            return holder_spelling(k)
    if not e.kids:
        return "bare-string"
    tmpl = CON_BY_FORM[e.form][2]
    if "|" in tmpl:
        return "bitor"
    head = tmpl.split("[")[0]
    if head.startswith("collections.abc."):
        return "abc-generic"
    if head.startswith("contextlib."):
        return "contextlib-generic"
    if head in ("G", "PG"):
        return "user-generic"
    if head.startswith("typing.") or head[0].isupper():
        return "typing-form"
    return "builtin-generic"


def gen_twin(ctx):
    """(expression with >= 1 quoted name, history). Depth 1: every constructor x every slot x every forward-reference
    atom; depth 2: every constructor around every typing/builtin container of a quoted name; history round-robin."""
    seen = set()
    n = 0

    def emit(e):
        nonlocal n
        if e.src in seen or context_of(e) != "param" or _contains_form(e, "Annotated.non-literal-metadata"):
            return None  # (what the routes do with object metadata is part 1's business, not a matter of whose name)
        seen.add(e.src)
        n += 1
        return (e, HISTORIES[n % len(HISTORIES)])

    for a in FWD_ATOMS:
        r = emit(a)
        if r:
            yield r
    for con in INNER_CONSTRUCTORS:
        for slot in range(con[1]):
            for a in (FWD_ATOMS if slot == 0 or not ctx.quick else FWD_ATOMS[::3]):
                kids = [INT, STR, INT][: con[1]]
                kids[slot] = a
                r = emit(build(con, kids))
                if r:
                    yield r
    inner_pool = [c for c in INNER_CONSTRUCTORS if c[0] in ("List", "list", "Optional", "Union", "Dict", "Tuple.variadic", "Type",
                                                            "Callable.list1", "Sequence", "abc.Sequence", "Annotated", "user-generic")]
    rng = gen_rng(ctx, "twin")
    for outer in INNER_CONSTRUCTORS:
        for inner in (inner_pool if not ctx.quick else rng.sample(inner_pool, 3)):
            a = rng.choice(FWD_ATOMS)
            ikids = [INT, STR, INT][: inner[1]]
            ikids[rng.randrange(inner[1])] = a
            okids = [STR, INT, STR][: outer[1]]
            okids[rng.randrange(outer[1])] = build(inner, ikids)
            r = emit(build(outer, okids))
            if r:
                yield r


def _forward_refs(obj, out: list, depth: int = 0) -> list:
    import typing

    if depth > 8:
        return out
    if isinstance(obj, typing.ForwardRef):
        out.append(obj)
    elif isinstance(obj, (list, tuple)):
        for a in obj:
            _forward_refs(a, out, depth + 1)
    else:
        for a in getattr(obj, "__args__", None) or ():
            _forward_refs(a, out, depth + 1)
        if hasattr(obj, "__metadata__"):
            _forward_refs(getattr(obj, "__origin__", None), out, depth + 1)
    return out


def eval_twin(exprs: list, history: str) -> list:
    """-> per expression (outcome dict over TWIN_ROUTES, state of the typing objects when pyanalyze looked)."""
    import typing

    from pyanalyze.analysis_lib import make_module
    from pyanalyze.annotations import type_from_runtime

    prelude()
    chk = checker()
    deq = [dequote(e) for e in exprs]
    o_lines = [HEADER + "ROLE = 'the other module'\n" + OWN_CLASSES]
    t_lines = [HEADER + "ROLE = 'the module under test'\n" + OWN_CLASSES]
    f_lines = [FUTURE + HEADER + "".join(f"{n} = _T.{n}\n" for n in OWN_NAMES)]
    for i, e in enumerate(exprs):
        o_lines += [f"def f{i}(x: {e.src}):", "    x"]
        t_lines += [f"def f{i}(x: {e.src}):", "    x", f"def q{i}(x: {e.src!r}):", "    x", f"def r{i}(x: {deq[i].src}):", "    x"]
        f_lines += [f"def f{i}(x: {e.src}):", "    x"]
    mods = []
    try:
        omod = make_module("\n".join(o_lines) + "\n")
        mods.append(omod)
        t_src = "\n".join(t_lines) + "\n"
        tmod = make_module(t_src)
        mods.append(tmod)
        fmod = make_module("\n".join(f_lines) + "\n", {"_T": tmod})
        mods.append(fmod)
        # --- history: code that inspects the OTHER module
        if history != "none":
            for i in range(len(exprs)):
                try:
                    typing.get_type_hints(getattr(omod, f"f{i}"), include_extras=history.endswith("include_extras"))
                except Exception:  # noqa: BLE001
                    pass
        states = []
        for i in range(len(exprs)):
            mine = _forward_refs(getattr(tmod, f"f{i}").__annotations__["x"], [])
            theirs = {id(r) for r in _forward_refs(getattr(omod, f"f{i}").__annotations__["x"], [])}
            shared = [r for r in mine if id(r) in theirs]
            # nothing in this process ever evaluates typing objects in the namespace of the module under test
            foreign = [r for r in shared if r.__forward_evaluated__]
            states.append("no-typing-ForwardRef" if not mine else "not-shared" if not shared else
                          "shared+evaluated-elsewhere" if foreign else "shared+unevaluated")
        # --- the module under test
        t_tree = ast.parse(t_src)
        res = harness.run(t_src, tree=t_tree, annotate=True, module=tmod)
        if res.exception is not None:
            raise BatchCrash("A", res.exception)
        by_line = res.by_line()
        vis: dict = {}
        for node in t_tree.body:
            if isinstance(node, ast.FunctionDef) and node.name[0] in "fq" and node.name[1:].isdigit():
                ret = node.body[-1]
                v = internal_error_of([d for ln in range(node.lineno, ret.lineno + 1) for d in by_line.get(ln, [])])
                vis[node.name] = v if v is not None else getattr(ret.value, "inferred_value", None)
        ns = tmod.__dict__

        def guarded(fn):
            try:
                return fn()
            except Exception as ex:  # noqa: BLE001
                return Exc(type(ex).__name__, re.sub(r" at 0x[0-9a-f]+", "", str(ex)))

        def sig_ann(mod, name):
            sig = chk.get_signature(getattr(mod, name))
            return sig.parameters["x"].annotation if sig is not None else None

        out = []
        for i, e in enumerate(exprs):
            o = {
                "A": vis.get(f"f{i}"), "Bv": vis.get(f"q{i}"),
                "Bs": guarded(lambda: type_from_runtime(e.src, globals=ns)),
                "Cr": guarded(lambda: type_from_runtime(getattr(tmod, f"f{i}").__annotations__["x"], globals=ns)),
                "Cs": guarded(lambda: sig_ann(tmod, f"f{i}")),
                "Cf": guarded(lambda: sig_ann(fmod, f"f{i}")),
                "R": guarded(lambda: type_from_runtime(getattr(tmod, f"r{i}").__annotations__["x"], globals=ns)),
            }
            out.append((o, states[i], {r: _twin_show(v, tmod, omod) for r, v in o.items()}))
        return out
    finally:
        for m in mods:
            harness.forget_module(m)


def _twin_show(v, tmod, omod) -> str:
    if v is None or isinstance(v, Exc):
        return show(v)
    try:
        populate(v)
        text = str(v).replace(tmod.__name__, "<module under test>").replace(omod.__name__, "<THE OTHER MODULE>")
        return f"{harness.normalise_text(text)} ({type(v).__name__})"
    except Exception as e:  # noqa: BLE001
        return f"<str() raised {type(e).__name__}>"


def check_twin_batch(ctx, exprs: list, history: str, depth_guard: int = 0) -> None:
    try:
        results = eval_twin(exprs, history)
    except BatchCrash as bc:
        if len(exprs) <= 1 or depth_guard > 8:
            ctx.violation(f"crash|twin|{bc.route}|{type(bc.exc).__name__}", f"checking the module raised {bc.exc!r}",
                          {"kind": "twin", "e": exprs[0].to_json(), "history": history})
            return
        mid = len(exprs) // 2
        check_twin_batch(ctx, exprs[:mid], history, depth_guard + 1)
        check_twin_batch(ctx, exprs[mid:], history, depth_guard + 1)
        return
    hist = "no-history" if history == "none" else "after-get_type_hints-on-the-other-module"
    for e, (o, state, rendered) in zip(exprs, results):
        ctx.count("evaluations")
        ctx.count("twin_cases")
        ctx.nontrivial(("twin", e.src, history))
        ctx.histo("twin_history", history)
        ctx.histo("twin_typing_object_state", f"{history}|{state}")
        ctx.histo("twin_holder_spelling", holder_spelling(e))
        if state == "shared+evaluated-elsewhere":
            ctx.count("twin_cases_shared_object_evaluated_elsewhere")
        n = len(o)
        ctx.count("route_pairs_compared", n * (n - 1) // 2)
        if not disagrees(o):
            ctx.count("twin_all_routes_agree_with_unquoted")
            continue
        key = f"twin|{hist}|quoted-name-in-{holder_spelling(e)}|{partition_text(o)}"
        ctx.violation(key, f"two modules define their own A/B/Warning/TimeoutError; history: {history}; typing objects: {state}; "
                           f"in the module under test {e.src!r} (R = {dequote(e).src!r} without quotes): "
                           + "; ".join(f"{r}={t}" for r, t in rendered.items()),
                      {"kind": "twin", "e": e.to_json(), "history": history})


def run_twin(ctx, cases: list) -> None:
    """Batches per history, the untouched-history batches first (typing's shared objects keep what was stored on them)."""
    for history in HISTORIES:
        es = [e for e, h in cases if h == history]
        for i in range(0, len(es), TWIN_BATCH):
            chunk = [e for e in es[i:i + TWIN_BATCH] if runtime_valid(e) and runtime_valid(dequote(e))]
            ctx.count("twin_runtime_invalid", len(es[i:i + TWIN_BATCH]) - len(chunk))
            if chunk:
                check_twin_batch(ctx, chunk, history)


# ---------------------------------------------------------------------------


def shard(ctx) -> None:
    prelude()
    # part 1
    mine = []
    seen = set()
    idx = 0
    for e in gen_expressions(ctx):
        if e.src in seen:
            if ctx.shard == 0:
                ctx.count("duplicates_skipped")
            continue
        seen.add(e.src)
        idx += 1
        if not ctx.mine(idx):
            continue
        if not runtime_valid(e):
            ctx.count("runtime_invalid")
            ctx.histo("runtime_invalid_forms", e.form)
            continue
        mine.append(e)
    every = ctx.pick(6, 4)
    for i in range(0, len(mine), BATCH):
        chunk = mine[i:i + BATCH]
        check_ann_batch(ctx, chunk, td_cases_for(chunk, ctx.rng, every))
    # part 2
    hs = []
    idx = 0
    for h in gen_headers(ctx):
        idx += 1
        if ctx.mine(idx):
            hs.append(h)
    for i in range(0, len(hs), 60):
        check_header_batch(ctx, hs[i:i + 60])
    # part 2b
    ms = []
    idx = 0
    for mc in gen_methods(ctx):
        idx += 1
        if ctx.mine(idx):
            ms.append(mc)
    for i in range(0, len(ms), 40):
        check_method_batch(ctx, ms[i:i + 40])
    # part 3
    tw = []
    idx = 0
    for case in gen_twin(ctx):
        idx += 1
        if ctx.mine(idx):
            tw.append(case)
    run_twin(ctx, tw)


def replay(witness):
    from vp.core import Ctx

    ctx = Ctx(ID, "quick", 0, 0, 1)
    prelude()
    kind = witness.get("kind")
    if kind == "ann":
        e = E.from_json(witness["e"])
        if not runtime_valid(e):
            return None
        check_ann_batch(ctx, [e], [])
    elif kind == "td":
        check_ann_batch(ctx, [], [TDCase.from_json(witness["td"])])
    elif kind == "header":
        check_header_batch(ctx, [Header.from_json(witness["h"])])
    elif kind == "method":
        check_method_batch(ctx, [MethodCase.from_json(witness["m"])])
    elif kind == "twin":
        run_twin(ctx, [(E.from_json(witness["e"]), witness["history"])])
    for key, lst in ctx.violations.items():
        return key, lst[0]["what"]
    return None
