"""C13 — static and runtime views of declarations agree.

Monitor: a commuting diagram over pyanalyze's own evaluators, no external model.

Part 1 (annotation expressions).  Every generated annotation expression E is pushed through
    A   visitor route        `def f(x: E): x`   in the checked module (annotate=True, inferred value of the Name)
    Bv  visitor, quoted      `def f(x: "E"): x` in the checked module
    Bs  string route         type_from_runtime("E", globals=<module dict>)
    Cr  runtime route        type_from_runtime(eval(E), globals=<module dict>)
    Cs  imported function    Checker.get_signature(f).parameters["x"].annotation, f defined in a separately
                             built (never checked) module
    Cf  imported function whose module has `from __future__ import annotations`
and the results are compared pairwise (==, else mutual can_assign + identical str()).
`ClassVar[E]`/`Final[E]` are observed in class bodies, `Required/NotRequired/ReadOnly[E]` as TypedDict fields
(class and functional syntax) whose entry must carry the type E has on its own.

Part 2 (def headers).  Every signature of vp.sigs (all kinds / default patterns) decorated with annotations and
defaults from a small pool is rendered once NESTED in a function (signature from the def node:
compute_parameters) and once at module level of another module (signature from the function object:
arg_spec); parameters are compared attribute by attribute and 6 calls are diagnosed in both placements.
"""
from __future__ import annotations

import ast
import atexit
import importlib
import os
import re
import shutil
import sys
import tempfile
from dataclasses import dataclass
from typing import Optional

from vp import harness
from vp.sigs import KO, PK, PO, VA, VK, Call, Param, Sig, enumerate_sigs, mutate_call, valid_call

ID = "C13"
LEVEL = "exploration"
TECHNIQUE = "differential runtime monitoring: pyanalyze's own annotation/signature evaluators observed on the same declaration"
RULE = (
    "annotation case = (expression E, context); E built from 43 atoms (classes incl. two whose names shadow builtins, None/Any/Never, TypeVars plain/bound/"
    "constrained, NewType, TypedDict class+functional, Protocol, enum/int/str/bytes/bool/None Literals, forward-reference "
    "strings) and ~75 constructors (Optional/Union/|, typing.X[...] / builtin / collections.abc / attribute spellings, all "
    "tuple forms incl. tuple[()], *tuple[..] and Unpack, type[], Callable list/ellipsis/empty, Annotated, ClassVar/Final in "
    "class bodies, Required/NotRequired/ReadOnly TypedDict fields): depth 1 exhaustive over atoms, depth 2 every ordered "
    "pair of constructors, depth 3 seeded random; header case = (signature shape from vp.sigs n<=4/5, annotation+default "
    "assignment, 6 calls). Non-trivial = depth >= 2 or a special form (not a bare class) resp. a header with >= 1 parameter; "
    "distinct by normalised text."
)
ASSUMPTIONS = [
    "agreement tolerance is the statement's 'same type': == or (mutual can_assign and identical str()); union member order, "
    "KnownValue-vs-wrapper and source-location metadata are therefore not differences",
    "an exception / internal_error in exactly some routes is a route disagreement (also C12's business)",
    "expressions that CPython itself cannot evaluate (eval raises) are dropped before any route runs and counted as runtime_invalid",
    "what pyanalyze infers for an UNannotated parameter is not an annotation: compared by mutual assignability only",
    "default values are compared for presence, and for equality only when both routes hold a literal",
    "diagnostics of a call are compared as sets of (code, message with the 'In call to X: ' prefix removed)",
    "the result type of a call is compared only when the header declares a return type (a nested def without one gets "
    "its return type inferred from the body, which is inference, not a declaration)",
]
LEVEL_TEXT = (
    "exploration: exhaustive at depth 1 and over constructor pairs at depth 2, sampled at depth 3; "
    "agreement of the real evaluators on every generated declaration, nothing is proved beyond the explored cases"
)
FLOORS = {
    "quick": {"distinct_nontrivial": 6000, "ann_cases": 4500, "ann_all_routes_agree": 3500, "route_pairs_compared": 70000,
              "classbody_cases": 200, "td_cases": 600, "td_field_type_compared": 500, "headers": 800,
              "signatures_agree": 600, "sig_params_compared": 2800, "calls_compared": 5000,
              "calls_both_diagnosed": 2500, "calls_both_clean": 2000},
    "thorough": {"distinct_nontrivial": 45000, "ann_cases": 35000, "ann_all_routes_agree": 25000,
                 "route_pairs_compared": 450000, "classbody_cases": 600, "td_cases": 7000, "td_field_type_compared": 5000,
                 "headers": 5000, "signatures_agree": 4000, "sig_params_compared": 22000, "calls_compared": 30000,
                 "calls_both_diagnosed": 20000, "calls_both_clean": 8000},
}
NSHARDS = 16
WATCHDOG_S = {"quick": 900, "thorough": 7200}
BATCH = 200
PRELUDE_NAME = "c13_prelude"

PRELUDE_SRC = '''
import collections.abc
import contextlib
import enum
import typing
from typing import *
import typing_extensions
from typing_extensions import ReadOnly
TETypedDict = typing_extensions.TypedDict

class A: pass
class B(A): pass
class Color(enum.Enum):
    RED = 1
    BLUE = 2
class Num(enum.IntEnum):
    ONE = 1
T = TypeVar("T")
TB = TypeVar("TB", bound=A)
TC = TypeVar("TC", int, str)
TBF = TypeVar("TBF", bound="A")
NT = NewType("NT", int)
NTA = NewType("NTA", A)
class TD(TypedDict):
    a: int
    b: NotRequired[str]
TDF = TypedDict("TDF", {"a": Required[int], "b": "str"}, total=False)
class TDK(TypedDict):
    k: int
class P(Protocol):
    def meth(self) -> int: ...
class PG(Protocol[T]):
    def get(self) -> T: ...
class G(Generic[T]):
    pass
# module-level classes whose names shadow builtins: a name in a string annotation must resolve in the module first
class Warning:
    pass
class TimeoutError(Exception):
    pass
ANYV: Any = None
'''

_STATE: dict = {}


def prelude():
    """The shared vocabulary module: a real file imported by every generated module (same class objects on all routes)."""
    if "mod" in _STATE:
        return _STATE["mod"]
    base = os.environ.get("VERIF_SCRATCH")
    if base and os.path.isdir(base):
        d = tempfile.mkdtemp(prefix="c13-", dir=base)
    else:
        d = tempfile.mkdtemp(prefix="verif-c13-")
        atexit.register(shutil.rmtree, d, True)
    with open(os.path.join(d, PRELUDE_NAME + ".py"), "w") as f:
        f.write(PRELUDE_SRC)
    sys.path.insert(0, d)
    sys.modules.pop(PRELUDE_NAME, None)
    mod = importlib.import_module(PRELUDE_NAME)
    _STATE["mod"] = mod
    ns = {}
    exec(f"from {PRELUDE_NAME} import *\nimport typing, collections.abc, contextlib, {PRELUDE_NAME}\n", ns)
    _STATE["ns"] = ns
    return mod


def base_ns() -> dict:
    prelude()
    return _STATE["ns"]


HEADER = f"from {PRELUDE_NAME} import *\nimport typing, collections.abc, contextlib, {PRELUDE_NAME}\n"
FUTURE = "from __future__ import annotations\n"


def checker():
    return harness.constructor_kwargs()["checker"]


# ---------------------------------------------------------------------------
# expression terms


@dataclass(frozen=True)
class E:
    src: str
    form: str
    kids: tuple = ()
    depth: int = 0

    def to_json(self):
        return [self.src, self.form, [k.to_json() for k in self.kids], self.depth]

    @staticmethod
    def from_json(j) -> "E":
        return E(j[0], j[1], tuple(E.from_json(k) for k in j[2]), j[3])


def atom(src: str, form: Optional[str] = None) -> E:
    return E(src, form or "class", (), 0)


ATOMS = [
    atom("int"), atom("str"), atom("float"), atom("bytes"), atom("bool"), atom("object"), atom("complex"),
    atom("A"), atom("B"), atom("Color"), atom("Num"),
    atom("None", "None"), atom("Any", "Any"), atom("Never", "Never"), atom("NoReturn", "Never"),
    atom("LiteralString", "LiteralString"),
    atom("T", "TypeVar"), atom("TB", "TypeVar.bound"), atom("TC", "TypeVar.constrained"),
    atom("NT", "NewType"), atom("NTA", "NewType"),
    atom("TD", "TypedDict.class"), atom("TDF", "TypedDict.functional"),
    atom("P", "Protocol"), atom("G", "class"),
    atom("type", "bare.type"), atom("tuple", "bare.tuple"), atom("Tuple", "bare.Tuple"), atom("Type", "bare.Type"),
    atom("Callable", "bare.Callable"), atom("list", "bare.list"), atom("List", "bare.List"), atom("dict", "bare.dict"),
    atom('"A"', "fwdref"), atom('"int"', "fwdref"), atom("'B'", "fwdref"),
    atom('"List[A]"', "fwdref.generic"), atom('"Optional[A]"', "fwdref.Optional"), atom('"A | None"', "fwdref.bitor"),
    atom("TBF", "TypeVar.bound-fwdref"),
    atom("Warning", "class.shadows-builtin"), atom('"Warning"', "fwdref.shadows-builtin"),
    atom('"List[TimeoutError]"', "fwdref.generic-shadows-builtin"),
    atom(f"{PRELUDE_NAME}.A", "attribute.class"),
    atom("Literal[1]", "Literal.int"), atom("Literal['a']", "Literal.str"), atom("Literal[b'x']", "Literal.bytes"),
    atom("Literal[True]", "Literal.bool"), atom("Literal[None]", "Literal.None"), atom("Literal[Color.RED]", "Literal.enum"),
    atom("Literal[-1]", "Literal.negint"), atom("Literal[1, 'a']", "Literal.multi"),
    atom("Literal[Color.RED, Color.BLUE]", "Literal.multi-enum"), atom("Literal[1, None]", "Literal.multi-None"),
    atom("Literal[Num.ONE]", "Literal.intenum"), atom("Literal[1, True]", "Literal.int-bool"),
    atom("tuple[()]", "tuple.empty"), atom("Tuple[()]", "Tuple.empty"),
]
# atoms used where only a couple of fillers are wanted
INT, STR = ATOMS[0], ATOMS[1]
SIMPLE_ATOMS = [a for a in ATOMS if not a.form.startswith("bare.")]

# (form, arity, template). {0},{1},{2} are child expressions.
CONSTRUCTORS = [
    ("Optional", 1, "Optional[{0}]"), ("typing.Optional", 1, "typing.Optional[{0}]"),
    ("Union", 2, "Union[{0}, {1}]"), ("Union.1", 1, "Union[{0}]"), ("Union.3", 3, "Union[{0}, {1}, {2}]"),
    ("Union.None", 1, "Union[{0}, None]"),
    ("bitor", 2, "{0} | {1}"), ("bitor.None", 1, "{0} | None"), ("None.bitor", 1, "None | {0}"),
    ("List", 1, "List[{0}]"), ("list", 1, "list[{0}]"), ("typing.List", 1, "typing.List[{0}]"),
    ("Set", 1, "Set[{0}]"), ("set", 1, "set[{0}]"), ("FrozenSet", 1, "FrozenSet[{0}]"), ("frozenset", 1, "frozenset[{0}]"),
    ("Dict", 2, "Dict[{0}, {1}]"), ("dict", 2, "dict[{0}, {1}]"),
    ("Sequence", 1, "Sequence[{0}]"), ("abc.Sequence", 1, "collections.abc.Sequence[{0}]"),
    ("Iterable", 1, "Iterable[{0}]"), ("abc.Iterable", 1, "collections.abc.Iterable[{0}]"),
    ("Iterator", 1, "Iterator[{0}]"), ("Collection", 1, "Collection[{0}]"),
    ("Mapping", 2, "Mapping[{0}, {1}]"), ("abc.Mapping", 2, "collections.abc.Mapping[{0}, {1}]"),
    ("MutableMapping", 2, "MutableMapping[{0}, {1}]"), ("DefaultDict", 2, "DefaultDict[{0}, {1}]"),
    ("Deque", 1, "Deque[{0}]"), ("Awaitable", 1, "Awaitable[{0}]"), ("Generator", 3, "Generator[{0}, {1}, {2}]"),
    ("ContextManager", 1, "ContextManager[{0}]"), ("AbstractContextManager", 1, "contextlib.AbstractContextManager[{0}]"),
    ("AsyncContextManager", 1, "AsyncContextManager[{0}]"),
    ("user-generic", 1, "G[{0}]"), ("Protocol.generic", 1, "PG[{0}]"),
    ("Tuple.fixed", 2, "Tuple[{0}, {1}]"), ("tuple.fixed", 2, "tuple[{0}, {1}]"),
    ("Tuple.1", 1, "Tuple[{0}]"), ("tuple.1", 1, "tuple[{0}]"), ("tuple.3", 3, "tuple[{0}, {1}, {2}]"),
    ("Tuple.variadic", 1, "Tuple[{0}, ...]"), ("tuple.variadic", 1, "tuple[{0}, ...]"),
    ("typing.Tuple.fixed", 2, "typing.Tuple[{0}, {1}]"),
    ("tuple.star-variadic-suffix", 2, "tuple[{0}, *tuple[{1}, ...]]"),
    ("tuple.star-variadic-prefix", 2, "tuple[*tuple[{0}, ...], {1}]"),
    ("tuple.star-variadic-middle", 3, "tuple[{0}, *tuple[{1}, ...], {2}]"),
    ("tuple.star-fixed", 2, "tuple[*tuple[{0}, {1}]]"),
    ("tuple.star-Tuple", 2, "tuple[{0}, *Tuple[{1}, ...]]"),
    ("tuple.Unpack-variadic-suffix", 2, "tuple[{0}, Unpack[tuple[{1}, ...]]]"),
    ("tuple.Unpack-variadic-middle", 3, "tuple[{0}, Unpack[tuple[{1}, ...]], {2}]"),
    ("Tuple.Unpack-variadic-suffix", 2, "Tuple[{0}, Unpack[Tuple[{1}, ...]]]"),
    ("tuple.Unpack-fixed", 2, "tuple[Unpack[tuple[{0}, {1}]]]"),
    ("type", 1, "type[{0}]"), ("Type", 1, "Type[{0}]"), ("typing.Type", 1, "typing.Type[{0}]"),
    ("Callable.list", 3, "Callable[[{0}, {1}], {2}]"), ("Callable.list1", 2, "Callable[[{0}], {1}]"),
    ("Callable.empty", 1, "Callable[[], {0}]"), ("Callable.ellipsis", 1, "Callable[..., {0}]"),
    ("abc.Callable.list1", 2, "collections.abc.Callable[[{0}], {1}]"),
    ("abc.Callable.ellipsis", 1, "collections.abc.Callable[..., {0}]"),
    ("typing.Callable.list1", 2, "typing.Callable[[{0}], {1}]"),
    ("Annotated", 1, "Annotated[{0}, 'm']"), ("Annotated.2", 1, "Annotated[{0}, 1, 2]"),
    ("typing.Annotated", 1, "typing.Annotated[{0}, 'm']"),
    ("ClassVar", 1, "ClassVar[{0}]"), ("Final", 1, "Final[{0}]"),
    ("typing.ClassVar", 1, "typing.ClassVar[{0}]"), ("typing.Final", 1, "typing.Final[{0}]"),
]
CLASS_FORMS = {"ClassVar", "Final", "typing.ClassVar", "typing.Final"}
INNER_CONSTRUCTORS = [c for c in CONSTRUCTORS if c[0] not in CLASS_FORMS]


def build(con, kids) -> E:
    form, arity, tmpl = con
    src = tmpl.format(*[k.src for k in kids])
    return E(src, form, tuple(kids), 1 + max(k.depth for k in kids))


def context_of(e: E) -> str:
    return "class" if e.form in CLASS_FORMS else "param"


_VALID: dict = {}


def runtime_valid(e: E) -> bool:
    """CPython itself must be able to evaluate E (the defs are exec'd)."""
    r = _VALID.get(e.src)
    if r is None:
        try:
            eval(e.src, dict(base_ns()))
            r = True
        except Exception:  # noqa: BLE001
            r = False
        _VALID[e.src] = r
    return r


def gen_rng(ctx, what: str):
    import random

    return random.Random(f"{ID}/{ctx.seed}/{what}")


def gen_expressions(ctx):
    """Deterministic part (depth 1 exhaustive, depth 2 constructor pairs) + seeded random part. Yields E.
    The stream is a function of the seed only (not of the shard), so that `ctx.mine(index)` partitions it."""
    rng = gen_rng(ctx, "expressions")
    # depth 0
    for a in ATOMS:
        yield a
    # depth 1: every constructor, every atom in every slot (other slots int/str)
    for con in CONSTRUCTORS:
        form, arity, _ = con
        fill = [INT, STR, INT]
        for slot in range(arity):
            for a in (ATOMS if slot == 0 or not ctx.quick else ATOMS[::3]):
                kids = list(fill[:arity])
                kids[slot] = a
                yield build(con, kids)
    # depth 2: every ordered pair of constructors, inner in the first (quick) / every (thorough) slot of outer
    n_atoms = ctx.pick(1, 3)
    for outer in CONSTRUCTORS:
        for inner in INNER_CONSTRUCTORS:
            for slot in range(1 if ctx.quick else outer[1]):
                for rep in range(n_atoms):
                    if rep == 0:
                        ikids = [INT, STR, INT][: inner[1]]
                    else:
                        ikids = [rng.choice(SIMPLE_ATOMS) for _ in range(inner[1])]
                    okids = [STR, INT, STR][: outer[1]]
                    if rep > 0:
                        okids = [rng.choice(SIMPLE_ATOMS) for _ in range(outer[1])]
                    okids[slot] = build(inner, ikids)
                    yield build(outer, okids)
    # depth 3: random
    for _ in range(ctx.pick(2500, 45000)):
        yield random_expr(rng, 3, top=True)


def random_expr(rng, depth: int, top: bool = False) -> E:
    if depth == 0 or (not top and rng.random() < 0.3):
        return rng.choice(SIMPLE_ATOMS if rng.random() < 0.9 else ATOMS)
    con = rng.choice(CONSTRUCTORS if top and rng.random() < 0.08 else INNER_CONSTRUCTORS)
    kids = [random_expr(rng, depth - 1) for _ in range(con[1])]
    return build(con, kids)


# ---------------------------------------------------------------------------
# route outcomes and agreement


class Exc:
    """An exception (or internal_error diagnostic) seen on a route."""

    def __init__(self, typ: str, msg: str = ""):
        self.typ = typ
        self.msg = harness.normalise_text(msg)[:160]

    def __repr__(self):
        return f"<raised {self.typ}: {self.msg}>"

    __str__ = __repr__


def show(v) -> str:
    if v is None:
        return "<no value>"
    if isinstance(v, Exc):
        return repr(v)
    try:
        return f"{stable_str(v)} ({type(v).__name__})"
    except Exception as e:  # noqa: BLE001
        return f"<str() raised {type(e).__name__}>"


_RESOLVED: dict = {}


def _resolve_typ(typ):
    """TypedValue.typ is 'the underlying type, or a fully qualified reference to one': resolve the reference."""
    if not isinstance(typ, str):
        return typ
    if typ not in _RESOLVED:
        obj = typ
        mod, _, name = typ.rpartition(".")
        try:
            obj = getattr(importlib.import_module(mod), name)
        except Exception:  # noqa: BLE001
            pass
        _RESOLVED[typ] = obj
    return _RESOLVED[typ]


def _fields(obj):
    import dataclasses

    return [f.name for f in dataclasses.fields(obj) if f.compare]


def same(x, y, depth: int = 0) -> bool:
    """Structural equality of two values up to representation: union members as a set, a string reference to a class
    equals the class, cached type objects ignored."""
    import dataclasses

    from pyanalyze.value import MultiValuedValue, TypedValue

    if depth > 40:
        return False
    try:
        if x is y or x == y:
            return True
    except Exception:  # noqa: BLE001
        pass
    x, y = norm(x, depth), norm(y, depth)
    if isinstance(x, MultiValuedValue) and isinstance(y, MultiValuedValue):
        return (all(any(same(a, b, depth + 1) for b in y.vals) for a in x.vals)
                and all(any(same(a, b, depth + 1) for a in x.vals) for b in y.vals))
    if type(x) is not type(y):
        return False
    if isinstance(x, (tuple, list)):
        return len(x) == len(y) and all(same(a, b, depth + 1) for a, b in zip(x, y))
    if isinstance(x, dict):
        return list(x) == list(y) and all(same(x[k], y[k], depth + 1) for k in x)
    if dataclasses.is_dataclass(x) and not isinstance(x, type):
        for name in _fields(x):
            a, b = getattr(x, name), getattr(y, name)
            if name == "typ" and isinstance(x, TypedValue):
                a, b = _resolve_typ(a), _resolve_typ(b)
            if not same(a, b, depth + 1):
                return False
        return True
    return False


def populate(v, seen=None, depth: int = 0) -> None:
    """str() of a TypedValue depends on whether its type object has been looked up (a cache): look all of them up."""
    import dataclasses

    from pyanalyze.value import TypedValue

    if seen is None:
        seen = set()
    if id(v) in seen or depth > 40:
        return
    seen.add(id(v))
    if isinstance(v, (tuple, list)):
        for a in v:
            populate(a, seen, depth + 1)
    elif isinstance(v, dict):
        for a in v.values():
            populate(a, seen, depth + 1)
    elif dataclasses.is_dataclass(v) and not isinstance(v, type) and type(v).__module__.startswith("pyanalyze"):
        if isinstance(v, TypedValue):
            try:
                v.get_type_object(checker())
            except Exception:  # noqa: BLE001
                pass
        for f in dataclasses.fields(v):
            if f.name != "_type_object":
                populate(getattr(v, f.name, None), seen, depth + 1)


def stable_str(v) -> str:
    populate(v)
    return harness.normalise_text(str(v))


def distribute(v):
    """Annotated[X | Y, m] and Annotated[X, m] | Annotated[Y, m] are the same type; reading a variable yields the
    second spelling (flattened by pyanalyze's own annotate_value), evaluating an annotation the first. Compare in
    the distributed spelling (top level only)."""
    from pyanalyze.value import AnnotatedValue, MultiValuedValue, annotate_value

    if isinstance(v, AnnotatedValue) and isinstance(v.value, MultiValuedValue):
        return MultiValuedValue([annotate_value(m, v.metadata) for m in v.value.vals])
    return v


def norm(v, depth: int = 0):
    """A union is a set: Annotated distributed over it, duplicate members dropped, a one-member union is its member."""
    from pyanalyze.value import MultiValuedValue

    v = distribute(v)
    if isinstance(v, MultiValuedValue) and v.vals:
        uniq: list = []
        for m in v.vals:
            m = norm(m, depth + 1) if depth < 40 else m
            for u in (m.vals if isinstance(m, MultiValuedValue) else (m,)):
                if not any(same(u, w, depth + 1) for w in uniq):
                    uniq.append(u)
        if len(uniq) == 1:
            return uniq[0]
        return MultiValuedValue(uniq)
    return v


def agree(x, y) -> bool:
    """The statement's 'means the same type': structurally equal up to representation, or mutually assignable with
    the same rendering."""
    from pyanalyze.value import CanAssignError

    if isinstance(x, Exc) or isinstance(y, Exc):
        return isinstance(x, Exc) and isinstance(y, Exc) and x.typ == y.typ
    if x is None or y is None:
        return x is None and y is None
    if same(x, y):
        return True
    x, y = norm(x), norm(y)
    try:
        if stable_str(x) != stable_str(y):
            return False
        c = checker()
        return not isinstance(x.can_assign(y, c), CanAssignError) and not isinstance(y.can_assign(x, c), CanAssignError)
    except Exception:  # noqa: BLE001
        return False


def mutually_assignable(x, y) -> bool:
    from pyanalyze.value import CanAssignError

    try:
        c = checker()
        return not isinstance(x.can_assign(y, c), CanAssignError) and not isinstance(y.can_assign(x, c), CanAssignError)
    except Exception:  # noqa: BLE001
        return False


def partition(outcome: dict) -> list:
    """Greedy grouping of routes by agreement, in route order."""
    groups: list = []
    for name, v in outcome.items():
        for g in groups:
            if agree(outcome[g[0]], v):
                g.append(name)
                break
        else:
            groups.append([name])
    return groups


def partition_text(outcome: dict) -> str:
    parts = []
    for g in partition(outcome):
        v = outcome[g[0]]
        tag = f":{v.typ}" if isinstance(v, Exc) else (":no-value" if v is None else "")
        parts.append(",".join(g) + tag)
    return " / ".join(parts)


_INTERNAL_RE = re.compile(r"Internal error: (\w+)\((.*)", re.S)


def internal_error_of(diags) -> Optional[Exc]:
    for d in diags:
        if d.code == "internal_error":
            m = _INTERNAL_RE.search(d.description)
            if m:
                return Exc(m.group(1), re.sub(r" at 0x[0-9a-f]+", "", m.group(2))[:120])
            return Exc("internal_error", d.description[-120:])
    return None


# ---------------------------------------------------------------------------
# evaluating a batch of annotation cases on all routes


@dataclass(frozen=True)
class TDCase:
    e: E
    qual: str      # "plain" | "Required" | "NotRequired" | "ReadOnly" | "ReadOnly-NotRequired"
    total: bool
    syntax: str    # "class" | "functional"
    quoted: bool   # field annotation written as a string

    def field_src(self) -> str:
        inner = self.e.src
        if self.qual == "plain":
            s = inner
        elif self.qual == "ReadOnly-NotRequired":
            s = f"ReadOnly[NotRequired[{inner}]]"
        else:
            s = f"{self.qual}[{inner}]"
        return repr(s) if self.quoted else s

    def uses_te(self) -> bool:
        return "ReadOnly" in self.qual

    def expected_required(self) -> bool:
        if "NotRequired" in self.qual:
            return False
        if self.qual == "Required":
            return True
        return self.total

    def expected_readonly(self) -> bool:
        return "ReadOnly" in self.qual

    def label(self) -> str:
        return f"{self.syntax}|{self.qual}|total={self.total}|{'quoted' if self.quoted else 'plain'}"

    def to_json(self):
        return {"e": self.e.to_json(), "qual": self.qual, "total": self.total, "syntax": self.syntax, "quoted": self.quoted}

    @staticmethod
    def from_json(j) -> "TDCase":
        return TDCase(E.from_json(j["e"]), j["qual"], j["total"], j["syntax"], j["quoted"])


ROUTES = ("A", "Bv", "Bs", "Cr", "Cs", "Cf")


def _def_src(i: int, e: E, quoted: bool) -> list:
    ann = repr(e.src) if quoted else e.src
    if context_of(e) == "class":
        return [f"class K{i}:", f"    a: {ann} = ANYV", "    a"]
    return [f"def f{i}(x: {ann}):", "    x"]


def _td_src(i: int, t: TDCase) -> list:
    base = "TETypedDict" if t.uses_te() else "TypedDict"
    if t.syntax == "class":
        total = "" if t.total else ", total=False"
        return [f"class TDX{i}({base}{total}):", f"    k: {t.field_src()}"]
    total = "" if t.total else ", total=False"
    return [f"TDX{i} = {base}('TDX{i}', {{'k': {t.field_src()}}}{total})"]


def _read_module(res, tree, n: int, ntd: int) -> tuple:
    """-> ({i: value|Exc|None}, {i: value for td}) read from the annotated tree of one checked module."""
    by_line = res.by_line()
    out: dict = {}
    tds: dict = {}
    attr: dict = {}
    for node in tree.body:
        if isinstance(node, ast.FunctionDef):
            kind, idx = node.name[0], node.name[1:]
            if not idx.isdigit():
                continue
            ret = node.body[-1]
            # an internal error while visiting the def is an exception on this route, whatever placeholder the
            # visitor left on the nodes
            v = internal_error_of([d for ln in range(node.lineno, ret.lineno + 1) for d in by_line.get(ln, [])])
            if v is None:
                v = getattr(ret.value, "inferred_value", None)
            if kind == "f":
                out[int(idx)] = v
            elif kind == "t":
                tds[int(idx)] = v
            elif kind == "g":
                attr[int(idx)] = v
        elif isinstance(node, ast.ClassDef) and node.name.startswith("K") and node.name[1:].isdigit():
            read = node.body[-1]
            v = internal_error_of([d for ln in range(node.lineno, read.lineno + 1) for d in by_line.get(ln, [])])
            if v is None:
                v = getattr(read.value, "inferred_value", None)
            out[int(node.name[1:])] = v
    return out, tds, attr


def eval_batch(exprs: list, tdcases: list) -> tuple:
    """All routes for exprs (list of E) and TypedDict cases. Returns (outcomes, td_outcomes); each outcome is an
    ordered dict route -> Value | Exc | None."""
    from pyanalyze.analysis_lib import make_module
    from pyanalyze.annotations import type_from_runtime

    prelude()
    chk = checker()
    # --- the separately built ("imported") modules: never checked
    lines = [HEADER]
    for i, e in enumerate(exprs):
        lines += _def_src(i, e, False)
    for j, t in enumerate(tdcases):
        lines += _td_src(j, t)
        lines += [f"def t{j}(x: TDX{j}):", "    x"]
    d_src = "\n".join(lines) + "\n"
    dmod = make_module(d_src)
    lines = [FUTURE + HEADER]
    for i, e in enumerate(exprs):
        if context_of(e) == "param":
            lines += _def_src(i, e, False)
    fmod = make_module("\n".join(lines) + "\n")
    mods = [dmod, fmod]
    try:
        # --- checked module, unquoted
        lines = [HEADER]
        for i, e in enumerate(exprs):
            lines += _def_src(i, e, False)
            if context_of(e) == "class":
                lines += [f"def g{i}(k: _D.K{i}):", "    k.a"]
        for j, t in enumerate(tdcases):
            lines += _td_src(j, t)
            lines += [f"def t{j}(x: TDX{j}):", "    x"]
        a_src = "\n".join(lines) + "\n"
        a_tree = ast.parse(a_src)
        a_res = harness.run(a_src, tree=a_tree, annotate=True, keep_module=True, extra_scope={"_D": dmod})
        mods.append(a_res.module)
        # --- checked module, quoted
        lines = [HEADER]
        for i, e in enumerate(exprs):
            lines += _def_src(i, e, True)
        for j, t in enumerate(tdcases):
            lines += _td_src(j, t)
            lines += [f"def t{j}(x: 'TDX{j}'):", "    x"]
        b_src = "\n".join(lines) + "\n"
        b_tree = ast.parse(b_src)
        b_res = harness.run(b_src, tree=b_tree, annotate=True, keep_module=True)
        mods.append(b_res.module)
        for r, name in ((a_res, "A"), (b_res, "Bv")):
            if r.exception is not None:
                raise BatchCrash(name, r.exception)
        a_vals, a_tds, a_attr = _read_module(a_res, a_tree, len(exprs), len(tdcases))
        b_vals, b_tds, _ = _read_module(b_res, b_tree, len(exprs), len(tdcases))
        ns = a_res.module.__dict__
        outcomes = []
        for i, e in enumerate(exprs):
            o: dict = {"A": a_vals.get(i), "Bv": b_vals.get(i)}
            try:
                o["Bs"] = type_from_runtime(e.src, globals=ns)
            except Exception as ex:  # noqa: BLE001
                o["Bs"] = Exc(type(ex).__name__, re.sub(r" at 0x[0-9a-f]+", "", str(ex)))
            try:
                o["Cr"] = type_from_runtime(eval(e.src, ns), globals=ns)
            except Exception as ex:  # noqa: BLE001
                o["Cr"] = Exc(type(ex).__name__, re.sub(r" at 0x[0-9a-f]+", "", str(ex)))
            if context_of(e) == "param":
                for route, mod in (("Cs", dmod), ("Cf", fmod)):
                    try:
                        sig = chk.get_signature(getattr(mod, f"f{i}"))
                        o[route] = sig.parameters["x"].annotation if sig is not None else None
                    except Exception as ex:  # noqa: BLE001
                        o[route] = Exc(type(ex).__name__, re.sub(r" at 0x[0-9a-f]+", "", str(ex)))
            else:
                o["Cs"] = a_attr.get(i)
            outcomes.append(o)
        td_outcomes = []
        for j, t in enumerate(tdcases):
            o = {"A": a_tds.get(j), "Bv": b_tds.get(j)}
            try:
                o["Bs"] = type_from_runtime(f"TDX{j}", globals=ns)
            except Exception as ex:  # noqa: BLE001
                o["Bs"] = Exc(type(ex).__name__, str(ex))
            try:
                o["Cr"] = type_from_runtime(ns[f"TDX{j}"], globals=ns)
            except Exception as ex:  # noqa: BLE001
                o["Cr"] = Exc(type(ex).__name__, str(ex))
            try:
                sig = chk.get_signature(getattr(dmod, f"t{j}"))
                o["Cs"] = sig.parameters["x"].annotation if sig is not None else None
            except Exception as ex:  # noqa: BLE001
                o["Cs"] = Exc(type(ex).__name__, str(ex))
            td_outcomes.append(o)
        return outcomes, td_outcomes
    finally:
        for m in mods:
            harness.forget_module(m)


class BatchCrash(Exception):
    def __init__(self, route, exc):
        super().__init__(f"{route}: {exc!r}")
        self.route = route
        self.exc = exc


_SINGLE: dict = {}


def eval_single(e: E) -> Optional[dict]:
    """Outcome for one expression (memoised); None if CPython cannot evaluate it."""
    if e.src in _SINGLE:
        return _SINGLE[e.src]
    if not runtime_valid(e):
        _SINGLE[e.src] = None
        return None
    try:
        o = eval_batch([e], [])[0][0]
    except BatchCrash as bc:
        o = {r: Exc("crash:" + type(bc.exc).__name__, str(bc.exc)) for r in ("A", "Bv")}
    _SINGLE[e.src] = o
    return o


def disagrees(o: dict) -> bool:
    return len(partition(o)) > 1


def prefetch(es) -> None:
    """Evaluate many single expressions in one go (fills the memo used by minimise)."""
    todo, seen = [], set()
    for e in es:
        if e.src in _SINGLE or e.src in seen:
            continue
        seen.add(e.src)
        if not runtime_valid(e):
            _SINGLE[e.src] = None
            continue
        todo.append(e)
    for i in range(0, len(todo), BATCH):
        chunk = todo[i:i + BATCH]
        try:
            outs = eval_batch(chunk, [])[0]
        except BatchCrash:
            for e in chunk:
                eval_single(e)
            continue
        for e, o in zip(chunk, outs):
            _SINGLE[e.src] = o


def descend(e: E) -> E:
    """The smallest sub-expression that still shows a route disagreement."""
    changed = True
    while changed:
        changed = False
        for k in e.kids:
            if context_of(k) != "param":
                continue
            o = eval_single(k)
            if o is not None and disagrees(o):
                e = k
                changed = True
                break
    return e


def plain_fill(e: E) -> Optional[E]:
    con = next((c for c in CONSTRUCTORS if c[0] == e.form), None)
    if con is None or not e.kids:
        return None
    return build(con, [INT, STR, INT][: con[1]])


def minimise(e: E) -> E:
    """Descend into the smallest disagreeing sub-expression, then replace children that do not matter by int/str."""
    e = descend(e)
    base = eval_single(e)
    if base is None or not e.kids:
        return e
    want = partition_text(base)
    con = next((c for c in CONSTRUCTORS if c[0] == e.form), None)
    if con is None:
        return e
    trial = plain_fill(e)
    if trial is not None:
        o = eval_single(trial)
        if o is not None and disagrees(o) and partition_text(o) == want:
            return trial
    kids = list(e.kids)
    for idx in range(len(kids)):
        for repl in (INT, STR):
            if kids[idx].src == repl.src:
                break
            trial_kids = list(kids)
            trial_kids[idx] = repl
            trial = build(con, trial_kids)
            o = eval_single(trial)
            if o is not None and disagrees(o) and partition_text(o) == want:
                kids = trial_kids
                break
    return build(con, kids)


_ALIAS = {"List": "list", "Dict": "dict", "Set": "set", "FrozenSet": "frozenset", "Tuple": "tuple", "Type": "type"}


def key_form(form: str) -> str:
    """Special form for the mechanism key. Spellings of one form are merged (typing.X / collections.abc.X / X,
    typing alias / builtin generic), so are the placements of a PEP 646 star or Unpack inside a tuple; ClassVar and
    Final are the two class-body qualifiers handled by one piece of code."""
    for prefix in ("typing.", "abc."):
        if form.startswith(prefix):
            form = form[len(prefix):]
    head, dot, rest = form.partition(".")
    form = _ALIAS.get(head, head) + dot + rest
    if "bitor" in form:
        return "bitor"
    if form.startswith("Union"):
        return "Union"
    if form.startswith("Annotated"):
        return "Annotated"
    if form in ("Callable.list1", "Callable.empty"):
        return "Callable.list"
    if form in ("tuple.1", "tuple.3"):
        return "tuple.fixed"
    if form.startswith("tuple.star-"):
        return "tuple.star-unpack"
    if form.startswith("tuple.Unpack-"):
        return "tuple.Unpack"
    if form in ("ClassVar", "Final"):
        return "ClassVar/Final"
    return form


def ann_key(e: E, o: dict) -> str:
    essential = [key_form(k.form) for k in e.kids if k.src not in (INT.src, STR.src)]
    with_ = f"[{'+'.join(sorted(set(essential)))}]" if essential else ""
    return f"ann|{key_form(e.form)}{with_}|{partition_text(o)}"


def ann_what(e: E, o: dict, original: Optional[E] = None) -> str:
    s = f"annotation {e.src!r}: " + "; ".join(f"{r}={show(v)}" for r, v in o.items())
    if original is not None and original.src != e.src:
        s += f"  [minimised from {original.src!r}]"
    return s


def check_ann_batch(ctx, exprs: list, tdcases: list, depth_guard: int = 0) -> None:
    exprs = list(exprs)
    # every TypedDict case needs its field expression evaluated on its own in the same batch
    index = {e.src: i for i, e in enumerate(exprs)}
    for t in tdcases:
        if t.e.src not in index:
            index[t.e.src] = len(exprs)
            exprs.append(t.e)
    try:
        outcomes, td_outcomes = eval_batch(exprs, tdcases)
    except BatchCrash as bc:
        if len(exprs) + len(tdcases) <= 1 or depth_guard > 12:
            key = f"crash|{bc.route}|{type(bc.exc).__name__}"
            wit = {"kind": "ann", "e": exprs[0].to_json()} if exprs else {"kind": "td", "td": tdcases[0].to_json()}
            ctx.violation(key, f"checking the module raised {bc.exc!r}", wit)
            return
        h = len(exprs) // 2
        ht = len(tdcases) // 2
        check_ann_batch(ctx, exprs[:h], tdcases[:ht], depth_guard + 1)
        check_ann_batch(ctx, exprs[h:], tdcases[ht:], depth_guard + 1)
        return
    for e, o in zip(exprs, outcomes):
        _SINGLE.setdefault(e.src, o)
    # minimisation works on memoised single evaluations: fetch what it will need in bulk
    frontier = [e for e, o in zip(exprs, outcomes) if disagrees(o)]
    bad = list(frontier)
    for _ in range(4):
        kids = [k for e in frontier for k in e.kids if context_of(k) == "param"]
        if not kids:
            break
        prefetch(kids)
        frontier = [k for k in kids if _SINGLE.get(k.src) is not None and disagrees(_SINGLE[k.src])]
    prefetch([t for t in (plain_fill(descend(e)) for e in bad) if t is not None])
    for e, o in zip(exprs, outcomes):
        judge_expr(ctx, e, o)
    for t, o in zip(tdcases, td_outcomes):
        judge_td(ctx, t, o, outcomes[index[t.e.src]])


def judge_expr(ctx, e: E, o: dict) -> None:
    ctx.count("evaluations")
    ctx.count("ann_cases")
    if context_of(e) == "class":
        ctx.count("classbody_cases")
    n = len(o)
    ctx.count("route_pairs_compared", n * (n - 1) // 2)
    if e.depth >= 2 or e.form != "class":
        ctx.nontrivial(("ann", e.src))
    ctx.histo("top_form", e.form)
    ctx.histo("depth", str(e.depth))
    a = o.get("Cr")
    ctx.histo("value_class_on_runtime_route", type(a).__name__ if not isinstance(a, Exc) else "raised")
    if any(isinstance(v, Exc) for v in o.values()):
        ctx.count("cases_with_a_raising_route")
    if not disagrees(o):
        ctx.count("ann_all_routes_agree")
        from pyanalyze.value import AnySource, AnyValue

        if isinstance(a, AnyValue) and a.source is AnySource.error:
            # every route rejects the expression alike: agreement, but it says nothing about the form
            ctx.count("ann_agree_on_error_value")
            ctx.histo("forms_rejected_by_every_route", e.form)
        if len(ctx.samples) < 3 and e.depth >= 2:
            ctx.sample({"annotation": e.src, "agreed_value": show(o["A"])})
        return
    ctx.count("ann_disagreements")
    m = minimise(e)
    mo = eval_single(m) or o
    if not disagrees(mo):  # cannot happen unless evaluation is context dependent
        m, mo = e, o
        ctx.count("ann_disagreement_only_in_batch")
    key = ann_key(m, mo)
    ctx.histo("disagreement_partitions", partition_text(mo))
    ctx.violation(key, ann_what(m, mo, e), {"kind": "ann", "e": m.to_json()})


def judge_td(ctx, t: TDCase, o: dict, field_outcome: dict) -> None:
    from pyanalyze.value import TypedDictValue

    ctx.count("evaluations")
    ctx.count("td_cases")
    ctx.nontrivial(("td", t.label(), t.e.src))
    ctx.histo("td_shapes", t.label())
    n = len(o)
    ctx.count("route_pairs_compared", n * (n - 1) // 2)
    wit = {"kind": "td", "td": t.to_json()}
    src = " / ".join(_td_src(0, t))
    if disagrees(field_outcome):
        # the field expression is already reported on its own; nothing TypedDict-specific can be learnt
        ctx.count("td_skipped_field_expression_itself_disagrees")
        return
    if disagrees(o):
        key = f"td|{t.qual}|routes|{partition_text(o)}"
        ctx.violation(key, f"{src}: " + "; ".join(f"{r}={show(v)}" for r, v in o.items()), wit)
        return
    v = o["A"]
    if not isinstance(v, TypedDictValue) or "k" not in v.items:
        key = f"td|{t.qual}|not-a-typeddict|{v.typ if isinstance(v, Exc) else type(v).__name__}"
        ctx.violation(key, f"{src}: every route gives {show(v)}", wit)
        return
    entry = v.items["k"]
    for flag, have, want, why in (
        ("required", entry.required, t.expected_required(),
         "NotRequired" if "NotRequired" in t.qual else "Required" if t.qual == "Required" else f"total={t.total}"),
        ("readonly", entry.readonly, t.expected_readonly(), "ReadOnly" if "ReadOnly" in t.qual else "no-qualifier"),
    ):
        if have != want:
            # keyed by the flag and the part of the declaration that decides it; syntax / quoting are in the witness
            key = f"td|flags|{flag}|declared-by={why}|expected={want}"
            ctx.violation(key, f"{src}: entry has {flag}={have}, the declaration says {flag}={want}", wit)
            return
    ctx.count("td_field_type_compared")
    expected = field_outcome["Cr"]
    if not agree(entry.typ, expected):
        key = f"td|field-type|{t.qual}|{key_form(t.e.form)}"
        ctx.violation(key, f"{src}: field type is {show(entry.typ)} but {t.e.src!r} alone means {show(expected)}", wit)


TD_QUALS = ["plain", "Required", "NotRequired", "ReadOnly", "ReadOnly-NotRequired"]


def td_cases_for(exprs: list, rng, every: int) -> list:
    out = []
    combos = [(q, tot, syn, quo) for q in TD_QUALS for tot in (True, False) for syn in ("class", "functional") for quo in (False, True)]
    for n, e in enumerate(exprs):
        if context_of(e) != "param" or n % every:
            continue
        q, tot, syn, quo = combos[(n // every) % len(combos)] if rng.random() < 0.7 else rng.choice(combos)
        out.append(TDCase(e, q, tot, syn, quo))
    return out


# ---------------------------------------------------------------------------
# part 2: def headers

ANN_POS = [None, "int", "str", "Optional[int]", '"A"', "T", "list[int]", "Literal[1, 2]", "Callable[[int], str]"]
ANN_VA = [None, "int", '"A"', "T", "*tuple[int, str]", "Unpack[tuple[int, str]]", "Unpack[tuple[int, ...]]"]
ANN_VK = [None, "int", '"A"', "Unpack[TDK]"]
DEFAULTS = ["0", "'s'", "None", "...", "()", "-1", "1.5", "True"]
RETS = [None, "int", '"A"', "None", "T", "Optional[int]", "list[T]"]


def ann_label(a: Optional[str]) -> str:
    if a is None:
        return "unannotated"
    if a.startswith("*"):
        return "star-unpack"
    if a.startswith("Unpack["):
        return "Unpack"
    if a.startswith('"') or a.startswith("'"):
        return "fwdref"
    if "*" in a:
        return "contains-star-unpack"
    return "plain"


@dataclass(frozen=True)
class Header:
    sig: Sig
    anns: tuple      # ((name, text), ...)
    defaults: tuple  # ((name, text), ...)
    ret: Optional[str]
    is_async: bool
    calls: tuple     # of Call

    def render_def(self, fname: str) -> str:
        params = self.sig.render_params(annotations=dict(self.anns), defaults=dict(self.defaults))
        ret = f" -> {self.ret}" if self.ret is not None else ""
        return f"{'async ' if self.is_async else ''}def {fname}({params}){ret}: ..."

    def to_json(self):
        return {
            "sig": [[p.name, p.kind, p.default] for p in self.sig.params], "anns": [list(x) for x in self.anns],
            "defaults": [list(x) for x in self.defaults], "ret": self.ret, "async": self.is_async,
            "calls": [{"npos": c.npos, "kws": list(c.kws), "star": c.star, "dstar": None if c.dstar is None else list(c.dstar)}
                      for c in self.calls],
        }

    @staticmethod
    def from_json(j) -> "Header":
        return Header(
            Sig(tuple(Param(n, k, d) for n, k, d in j["sig"])), tuple(tuple(x) for x in j["anns"]),
            tuple(tuple(x) for x in j["defaults"]), j["ret"], j["async"],
            tuple(Call(c["npos"], tuple(c["kws"]), c["star"], None if c["dstar"] is None else tuple(c["dstar"])) for c in j["calls"]),
        )


def make_calls(sig: Sig, rng, n: int = 6) -> tuple:
    names = sig.names()
    out = []
    seen = set()
    tries = 0
    while len(out) < n and tries < 60:
        tries += 1
        c = valid_call(sig, rng)
        if out:  # the first call is a plain valid one
            for _ in range(rng.randrange(0, 3)):
                c = mutate_call(c, names, rng)
        if c in seen:
            continue
        seen.add(c)
        out.append(c)
    return tuple(out)


def gen_headers(ctx):
    """Per signature shape: v0 unannotated, v1 all `int`/default 0, v2 = v0 with the first named parameter spelled
    `__name` (the PEP 484 positional-only spelling; never combined with annotations so that it is one mechanism),
    v3.. annotations/defaults/return drawn from the pools by the seeded rng (same stream in every shard)."""
    rng = gen_rng(ctx, "headers")
    variants = ctx.pick(4, 10)
    for sig0 in enumerate_sigs(ctx.pick(4, 5)):
        for v in range(variants):
            sig = sig0
            if v == 2:
                ps = list(sig.params)
                for i, p in enumerate(ps):
                    if p.kind in (PO, PK, KO):
                        ps[i] = Param("__" + p.name, p.kind, p.default)
                        break
                else:
                    continue
                sig = Sig(tuple(ps))
            anns, defaults = [], []
            for p in sig.params:
                if v in (0, 2):
                    a = None
                elif v == 1:
                    a = "int"
                else:
                    pool = ANN_VA if p.kind == VA else ANN_VK if p.kind == VK else ANN_POS
                    a = rng.choice(pool)
                if a is not None:
                    anns.append((p.name, a))
                if p.default:
                    defaults.append((p.name, "0" if v < 3 else rng.choice(DEFAULTS)))
            ret = None if v in (0, 2) else "int" if v == 1 else rng.choice(RETS)
            is_async = v >= 3 and rng.random() < 0.1
            yield Header(sig, tuple(anns), tuple(defaults), ret, is_async, make_calls(sig, rng))


_PREFIX_RE = re.compile(r"^In call to [^:]*: ")


def call_diag_set(ds) -> frozenset:
    return frozenset((d.code, _PREFIX_RE.sub("", d.description)) for d in ds)


def diag_class(s: frozenset) -> str:
    if not s:
        return "clean"
    out = []
    for code, desc in sorted(s):
        d = re.sub(r"'[^']*'", "'N'", desc)
        d = re.sub(r"\bfor \w+:", "for N:", d)
        d = re.sub(r"\d+", "#", d)
        out.append(f"{code}:{d[:60]}")
    return " & ".join(out)


def eval_headers(headers: list) -> list:
    """-> per header: dict(static=CallableValue|Exc|None, runtime=Signature|Exc|None, calls=[(set_nested, set_imported, res_n, res_i)])"""
    from pyanalyze.analysis_lib import make_module

    prelude()
    chk = checker()
    d_lines = [HEADER]
    n_lines = [HEADER]
    u_lines = [HEADER]
    for i, h in enumerate(headers):
        d_lines.append(h.render_def(f"f{i}"))
        n_lines.append(f"def outer{i}():")
        n_lines.append("    " + h.render_def(f"f{i}"))
        u_lines.append(f"def caller{i}():")
        for j, c in enumerate(h.calls):
            src = c.render(f"f{i}")
            n_lines.append("    " + src)
            u_lines.append("    " + src)
        n_lines.append(f"    return f{i}")
        u_lines.append("    return None")
    dmod = make_module("\n".join(d_lines) + "\n")
    mods = [dmod]
    try:
        n_src = "\n".join(n_lines) + "\n"
        n_tree = ast.parse(n_src)
        n_res = harness.run(n_src, tree=n_tree, annotate=True, keep_module=True)
        mods.append(n_res.module)
        u_src = "\n".join(u_lines) + "\n"
        u_tree = ast.parse(u_src)
        scope = {f"f{i}": getattr(dmod, f"f{i}") for i in range(len(headers))}
        u_res = harness.run(u_src, tree=u_tree, annotate=True, keep_module=True, extra_scope=scope)
        mods.append(u_res.module)
        for r, name in ((n_res, "nested"), (u_res, "imported")):
            if r.exception is not None:
                raise BatchCrash(name, r.exception)
        n_by, u_by = n_res.by_line(), u_res.by_line()
        outers = {n.name: n for n in n_tree.body if isinstance(n, ast.FunctionDef)}
        callers = {n.name: n for n in u_tree.body if isinstance(n, ast.FunctionDef)}
        out = []
        for i, h in enumerate(headers):
            outer = outers[f"outer{i}"]
            fd = outer.body[0]
            static = internal_error_of([d for ln in range(outer.lineno, fd.lineno + 1) for d in n_by.get(ln, [])])
            if static is None:
                static = getattr(fd, "inferred_value", None)
            try:
                runtime = chk.get_signature(getattr(dmod, f"f{i}"))
            except Exception as ex:  # noqa: BLE001
                runtime = Exc(type(ex).__name__, str(ex))
            calls = []
            caller = callers[f"caller{i}"]
            for j, c in enumerate(h.calls):
                n_stmt = outer.body[1 + j]
                u_stmt = caller.body[j]
                ns_ = call_diag_set(n_by.get(n_stmt.lineno, []))
                us_ = call_diag_set(u_by.get(u_stmt.lineno, []))
                calls.append((ns_, us_, getattr(n_stmt.value, "inferred_value", None), getattr(u_stmt.value, "inferred_value", None)))
            out.append({"static": static, "runtime": runtime, "calls": calls})
        return out
    finally:
        for m in mods:
            harness.forget_module(m)


def compare_signatures(h: Header, static, runtime) -> list:
    """-> list of (key, what). Empty if the two signatures agree."""
    from pyanalyze.signature import Signature
    from pyanalyze.value import AnyValue, CallableValue, CanAssignError, KnownValue

    if isinstance(static, Exc) or isinstance(runtime, Exc) or static is None or runtime is None:
        if isinstance(static, Exc) and isinstance(runtime, Exc) and static.typ == runtime.typ:
            return []
        return [(f"sig|route-failed|static={show_kind(static)}|runtime={show_kind(runtime)}",
                 f"static route gives {show(static)}, runtime route gives {show(runtime)}")]
    if not isinstance(static, CallableValue) or not isinstance(static.signature, Signature) or not isinstance(runtime, Signature):
        return [(f"sig|not-a-signature|static={type(static).__name__}|runtime={type(runtime).__name__}",
                 f"static route gives {show(static)}, runtime route gives {show(runtime)}")]
    ssig = static.signature
    sp = list(ssig.parameters.values())
    rp = list(runtime.parameters.values())
    anns = dict(h.anns)
    kind_of = {p.name: p.kind for p in h.sig.params}
    out = []
    if [p.name for p in sp] != [p.name for p in rp]:
        # find the declared parameter responsible: first position where they differ
        k = next((i for i, (a, b) in enumerate(zip(sp, rp)) if a.name != b.name), min(len(sp), len(rp)))
        decl = h.sig.params[min(k, len(h.sig.params) - 1)] if h.sig.params else None
        out.append((f"sig|{decl.kind if decl else 'none'}|names|{ann_label(anns.get(decl.name)) if decl else ''}",
                    f"parameter names differ: static {[p.name for p in sp]} vs runtime {[p.name for p in rp]}"))
        return out
    for a, b in zip(sp, rp):
        dk = kind_of.get(a.name, "synthetic")
        dunder = "|dunder-name" if a.name.startswith("__") else ""
        if a.kind is not b.kind:
            out.append((f"sig|{dk}|kind|static={a.kind.name}|runtime={b.kind.name}{dunder}",
                        f"parameter {a.name}: kind {a.kind.name} from the def node, {b.kind.name} from the function object"))
            continue
        if (a.default is None) != (b.default is None):
            out.append((f"sig|{dk}|has-default|static={a.default is not None}|runtime={b.default is not None}",
                        f"parameter {a.name}: default {show(a.default)} from the def node, {show(b.default)} from the function object"))
            continue
        if a.default is not None and not agree(a.default, b.default):
            widened = (
                isinstance(b.default, KnownValue) and not isinstance(a.default, (KnownValue, AnyValue))
                and not isinstance(a.default.can_assign(b.default, checker()), CanAssignError)
            )
            if not widened:
                # kind is left out of the key on purpose: both routes treat defaults of every kind alike
                rd = type(b.default.val).__name__ if isinstance(b.default, KnownValue) else type(b.default).__name__
                out.append((f"sig|default-value|static={type(a.default).__name__}|runtime={type(b.default).__name__}:{rd}",
                            f"parameter {a.name}: default is {show(a.default)} from the def node, {show(b.default)} from the function object"))
                continue
        declared = anns.get(a.name)
        if declared is None and a.name in kind_of:
            ok = mutually_assignable(a.annotation, b.annotation)
        else:
            ok = agree(a.annotation, b.annotation)
        if not ok:
            out.append((f"sig|{dk}|annotation|{ann_label(declared)}",
                        f"parameter {a.name}: {declared!r} is {show(a.annotation)} from the def node, {show(b.annotation)} from the function object"))
    if ssig.has_return_annotation != runtime.has_return_annotation:
        out.append((f"sig|return|has-annotation|static={ssig.has_return_annotation}|runtime={runtime.has_return_annotation}",
                    f"return annotation {h.ret!r}: present={ssig.has_return_annotation} vs {runtime.has_return_annotation}"))
    elif h.ret is not None and not agree(ssig.return_value, runtime.return_value):
        out.append((f"sig|return|annotation|{ann_label(h.ret)}{'|async' if h.is_async else ''}",
                    f"return annotation {h.ret!r}: {show(ssig.return_value)} from the def node, {show(runtime.return_value)} from the function object"))
    elif h.ret is None and not mutually_assignable(ssig.return_value, runtime.return_value):
        out.append((f"sig|return|unannotated{'|async' if h.is_async else ''}",
                    f"no return annotation: {show(ssig.return_value)} from the def node, {show(runtime.return_value)} from the function object"))
    return out


def show_kind(v) -> str:
    if isinstance(v, Exc):
        return "raised:" + v.typ
    return type(v).__name__


def reduce_header(h: Header, key: str) -> Header:
    """Smallest header (fewer parameters) that still yields the same signature key."""
    best = h
    params = list(h.sig.params)
    i = 0
    budget = 12
    while i < len(params) and len(params) > 1 and budget > 0:
        budget -= 1
        trial_params = params[:i] + params[i + 1:]
        names = {p.name for p in trial_params}
        # dropping a non-default positional before defaulted ones is fine; dropping may create default-before-nondefault
        pos = [p for p in trial_params if p.kind in (PO, PK)]
        legal = all(not (pos[k].default and not pos[k + 1].default) for k in range(len(pos) - 1))
        if not legal:
            i += 1
            continue
        trial = Header(Sig(tuple(trial_params)), tuple(x for x in best.anns if x[0] in names),
                       tuple(x for x in best.defaults if x[0] in names), best.ret, best.is_async, ())
        try:
            r = eval_headers([trial])[0]
            keys = [k for k, _ in compare_signatures(trial, r["static"], r["runtime"])]
        except Exception:  # noqa: BLE001
            keys = []
        if key in keys:
            best = trial
            params = trial_params
        else:
            i += 1
    return best


def check_header_batch(ctx, headers: list, depth_guard: int = 0) -> None:
    try:
        results = eval_headers(headers)
    except BatchCrash as bc:
        if len(headers) <= 1 or depth_guard > 12:
            ctx.violation(f"crash|{bc.route}|{type(bc.exc).__name__}", f"checking the module raised {bc.exc!r}",
                          {"kind": "header", "h": headers[0].to_json()})
            return
        mid = len(headers) // 2
        check_header_batch(ctx, headers[:mid], depth_guard + 1)
        check_header_batch(ctx, headers[mid:], depth_guard + 1)
        return
    for h, r in zip(headers, results):
        judge_header(ctx, h, r)


def judge_header(ctx, h: Header, r: dict) -> None:
    ctx.count("evaluations")
    ctx.count("headers")
    text = h.render_def("f")
    if h.sig.params:
        ctx.nontrivial(("hdr", text, tuple(c.render("f") for c in h.calls)))
    ctx.histo("header_shapes", h.sig.shape())
    for _, a in h.anns:
        ctx.histo("header_annotation_kinds", ann_label(a))
    ctx.count("sig_params_compared", len(h.sig.params))
    if isinstance(r["static"], Exc) and isinstance(r["runtime"], Exc) and r["static"].typ == r["runtime"].typ:
        # both builders raise the same exception: a crash (C12), not a disagreement; nothing to compare
        ctx.count("headers_both_routes_raise_alike")
        ctx.histo("both_routes_raise", r["static"].typ)
        return
    diffs = compare_signatures(h, r["static"], r["runtime"])
    seen = set()
    for key, what in diffs:
        if key in seen:
            continue
        seen.add(key)
        small = reduce_header(h, key) if len(h.sig.params) > 1 else h
        hh = small if small is not h else h
        if hh is not h:
            try:
                rr = eval_headers([hh])[0]
                what = dict(compare_signatures(hh, rr["static"], rr["runtime"])).get(key, what)
            except Exception:  # noqa: BLE001
                pass
        ctx.violation(key, f"{hh.render_def('f')}: {what}" if hh is h else f"{hh.render_def('f')} (reduced from {text}): {what}",
                      {"kind": "header", "h": Header(hh.sig, hh.anns, hh.defaults, hh.ret, hh.is_async, ()).to_json()})
    if not diffs:
        ctx.count("signatures_agree")
    for c, (ns_, us_, rn, ru) in zip(h.calls, r["calls"]):
        ctx.count("calls_compared")
        both = "both_diagnosed" if ns_ and us_ else "both_clean" if not ns_ and not us_ else "one_sided"
        ctx.count("calls_" + both)
        for code, _ in ns_ | us_:
            ctx.histo("call_codes", code)
        if ns_ != us_:
            if diffs:
                ctx.count("call_differences_explained_by_signature_difference")
                continue
            key = f"call|nested={diag_class(ns_ - us_)}|imported={diag_class(us_ - ns_)}"
            ctx.violation(key, f"{text}; call {c.render('f')}: nested placement reports {sorted(ns_)}, imported placement reports {sorted(us_)}",
                          {"kind": "header", "h": Header(h.sig, h.anns, h.defaults, h.ret, h.is_async, (c,)).to_json()})
        elif not ns_ and rn is not None and ru is not None and h.ret is not None:
            ctx.count("call_results_compared")
            if not agree(rn, ru) and not diffs:
                key = f"call|result-type|{ann_label(h.ret)}{'|async' if h.is_async else ''}"
                ctx.violation(key, f"{text}; call {c.render('f')}: result {show(rn)} when nested, {show(ru)} when imported",
                              {"kind": "header", "h": Header(h.sig, h.anns, h.defaults, h.ret, h.is_async, (c,)).to_json()})


# ---------------------------------------------------------------------------


def shard(ctx) -> None:
    prelude()
    # part 1
    mine = []
    seen = set()
    idx = 0
    for e in gen_expressions(ctx):
        if e.src in seen:
            if ctx.shard == 0:
                ctx.count("duplicates_skipped")
            continue
        seen.add(e.src)
        idx += 1
        if not ctx.mine(idx):
            continue
        if not runtime_valid(e):
            ctx.count("runtime_invalid")
            ctx.histo("runtime_invalid_forms", e.form)
            continue
        mine.append(e)
    every = ctx.pick(6, 4)
    for i in range(0, len(mine), BATCH):
        chunk = mine[i:i + BATCH]
        check_ann_batch(ctx, chunk, td_cases_for(chunk, ctx.rng, every))
    # part 2
    hs = []
    idx = 0
    for h in gen_headers(ctx):
        idx += 1
        if ctx.mine(idx):
            hs.append(h)
    for i in range(0, len(hs), 60):
        check_header_batch(ctx, hs[i:i + 60])


def replay(witness):
    from vp.core import Ctx

    ctx = Ctx(ID, "quick", 0, 0, 1)
    prelude()
    kind = witness.get("kind")
    if kind == "ann":
        e = E.from_json(witness["e"])
        if not runtime_valid(e):
            return None
        check_ann_batch(ctx, [e], [])
    elif kind == "td":
        check_ann_batch(ctx, [], [TDCase.from_json(witness["td"])])
    elif kind == "header":
        check_header_batch(ctx, [Header.from_json(witness["h"])])
    for key, lst in ctx.violations.items():
        return key, lst[0]["what"]
    return None
