"""C14 — Value algebra: unions form a semilattice; equality, hashing, substitution.

Monitor: the laws of the property statement are evaluated on the *real return values* of
`unite_values` / `|` / `==` / `hash` / `substitute_typevars` / `walk_values` / `is_assignable`
(a real `Checker()` is the CanAssignContext) for generated operands (vp/valuegen.py), plus an in-situ
recording post-condition on the real `pyanalyze.value.unite_values` while a corpus of real programs
(bodies of the repo's @assert_passes tests) is checked through harness.run.
"""
from __future__ import annotations

import ast
import dataclasses
import enum
import glob
import os
import re
import sys
import textwrap
import types
from typing import TypeVar

from vp import harness  # noqa: F401  (asserts that pyanalyze is the tree under test)
from vp import valuegen as vg

import pyanalyze.value as pv
from pyanalyze.value import (
    NO_RETURN_VALUE,
    AnnotatedValue,
    AnySource,
    AnyValue,
    KnownValue,
    MultiValuedValue,
    SequenceValue,
    SubclassValue,
    TypedDictValue,
    TypeVarValue,
    Value,
    annotate_value,
    flatten_values,
    is_union,
)

ID = "C14"
LEVEL = "exploration"
TECHNIQUE = "algebraic laws evaluated on real return values + recording post-condition on unite_values in situ"
RULE = (
    "case = (a), (a,b) or (a,b,c) of generated Values (+ a type-variable map): every value of a pool "
    "(fixed core covering every Value class of the property's list incl. unhashable / 1-True-1.0 literals, "
    "is_many sequences, TypedDicts sharing keys, callables differing only in the described callable, annotated "
    "unions, free/bounded/constrained type variables, raw nested unions; + seeded random values) is used in all "
    "unary cases x all maps, all ordered pairs x all maps, all ordered triples; then random triples of depth<=3 "
    "values with random maps. Nesting matrix (enumerated, no rng): every slot of every constructor that holds a Value "
    "(Generic args, Sequence members incl. is_many, KVPair key/value, TypedDict items/extra_keys, SigParameter "
    "annotation of each kind po/pk/*args/ko/**kwargs, Signature return, Concatenate[..,P]/`...`/overloaded signatures, "
    "Annotated value/metadata, TypeGuard/TypeIs/ParameterTypeGuard/NoReturnGuard/HasAttr/HasAttrGuard extensions, "
    "Type[...] (+exactly), union members, TypeAlias type_arguments, AsyncTask value, bound-method composite) x every "
    "constructor placed in it with a type variable at the leaf (35 inner shapes incl. Type[List[T]], type[tuple[T,int]]), "
    "and slot x slot x {T, list[T]} (thorough: x all inner shapes); each x 19 maps (replacement values of every "
    "constructor, ParamSpec bound to a callable / Any / another ParamSpec) through the unary laws incl. "
    "substitution-completeness (walk_values AND an independent walk over dataclass fields) and substitution-by-parts "
    "(subst(C(x..)) == C(subst(x)..), Type[X].subst(m) == Type[X.subst(m)]), and paired with set[T]/int/T for "
    "subst-commutes-with-unite. Neighbour groups: the same parameters / keys / pairs / metadata in another order or "
    "with other flags - all ordered pairs and triples. The random grammar is the wide one (vp.valuegen.random_spec "
    "wide=True: Type[...] over every TypedValue subclass, aliases, async tasks, bound methods, overloaded/ParamSpec "
    "callables with several parameters per kind, all guard extensions; maps may bind P). "
    "Non-trivial = case with >=2 distinct operand specs, >=1 non-literal operand and a "
    "law whose two sides come from different call sequences (commutative/associative/subst-commutes); distinct by "
    "operand specs. In-situ: each real call of unite_values made while checking ~100 (quick) / ~450 (thorough) "
    "test-suite programs is one contract evaluation."
)
ASSUMPTIONS = [
    "equality is pyanalyze's own == as Python containers apply it (identical objects are equal - a KnownValue of an "
    "object whose __eq__ raises is not == itself); 'members of v' = list(flatten_values(v)); membership is list "
    "membership under that ==",
    "AnyValue(AnySource.unreachable), bare or annotated, is pyanalyze's marker for 'no value' (value.py "
    "_is_unreachable; unite_values drops it beside reachable members and returns the bare marker when nothing else "
    "is left): it is treated as a second spelling of Never - the two sides of a law may differ in how 'no value' is "
    "spelled (Never / marker / Annotated[Never|marker, ...]), the members law ignores markers, 'accepts' is not "
    "demanded for a marker operand; generated raw unions never contain Never or the marker as a member",
    "'accepts each operand' is only demanded for operands that are assignable to themselves "
    "(reflexivity of is_assignable is C04's subject); skipped cases are counted in accepts_skipped_not_reflexive",
    "generated values are in the normal form pyanalyze's own constructors produce: raw unions have >=2 pairwise "
    "different member specs, Annotated is not nested, Annotated metadata is hashable (docs/typesystem.md), "
    "TypeGuard/TypeIs extensions only as Annotated[bool, <one guard>] (annotations.py), *args/**kwargs of a "
    "CallableValue are not tuple-/TypedDict-annotated (Signature.make would expand them)",
    "which type variables occur in a generated value is known by construction (vp.valuegen.spec_typevars), "
    "not from walk_values()",
    "Checker() with default options is the CanAssignContext",
    "a ParamSpec is bound only to what Signature.substitute_typevars accepts (a plain callable whose parameters are "
    "spliced in, Any, another ParamSpec); a Concatenate-style callable has only required positional-only parameters "
    "before its ParamSpec; the type parameters of a generated type alias are never in a map's domain",
    "a bound-method value is never built over a literal that is not == itself (stacked_scopes.Composite.__eq__ "
    "applies a bare == to the value it holds, no identity shortcut)",
    "substitution-by-parts compares subst(a, m) with a's constructor applied to pyanalyze's substitution of a's direct "
    "parts; where the raw constructor is not closed under substitution the documented smart constructor is the "
    "reference (SubclassValue.make, annotate_value, unite_values); not evaluated when a bound ParamSpec's parameters "
    "are spliced, when Signature.make would expand a substituted *args/**kwargs annotation, or when a is not == a "
    "rebuilt copy of itself; a result that fails completeness is reported once (completeness), not twice",
]
FLOORS = {
    "quick": {
        "distinct_nontrivial": 140000, "evaluations": 140000, "ternary_cases": 140000, "binary_cases": 33000,
        "unary_cases": 30000, "law_evaluations": 2600000, "random_cases": 10000, "subst_changed": 8000,
        "subst_identity_checked": 50000, "subst_commutes_checked": 50000, "eq_pairs_hash_checked": 600000,
        "accepts_true": 200000, "insitu_contract_evaluations": 1500, "insitu_programs": 55,
        "nesting_cases": 1700, "nesting_pair_cases": 1700, "neighbour_pair_cases": 100, "subst_by_parts_checked": 25000,
        "subst_under_type_of_container": 1500,
    },
    "thorough": {
        "distinct_nontrivial": 550000, "evaluations": 550000, "ternary_cases": 550000, "binary_cases": 150000,
        "unary_cases": 150000, "law_evaluations": 10000000, "random_cases": 50000, "subst_changed": 40000,
        "subst_identity_checked": 250000, "subst_commutes_checked": 250000, "eq_pairs_hash_checked": 2500000,
        "accepts_true": 800000, "insitu_contract_evaluations": 6000, "insitu_programs": 220,
        "nesting_cases": 19000, "nesting_pair_cases": 57000, "neighbour_pair_cases": 100,
        "subst_by_parts_checked": 340000, "subst_under_type_of_container": 36000,
    },
}
NSHARDS = 16
WATCHDOG_S = {"quick": 900, "thorough": 3600}

_CHECKER = None


def checker():
    global _CHECKER
    if _CHECKER is None:
        from pyanalyze.checker import Checker

        _CHECKER = Checker()
    return _CHECKER


# ---------------------------------------------------------------------------
# small helpers on real values


def is_unreachable_marker(v) -> bool:
    while isinstance(v, AnnotatedValue):
        v = v.value
    return isinstance(v, AnyValue) and v.source is AnySource.unreachable


def safe_hash(x):
    try:
        return hash(x)
    except Exception:  # noqa: BLE001
        return None


def eq(x, y) -> bool:
    """== as containers apply it (list membership, tuple comparison, dict lookup): identity, else __eq__."""
    if x is y:
        return True
    try:
        return bool(x == y)
    except Exception:  # noqa: BLE001
        return False


def is_bottom(v) -> bool:
    """Never, or pyanalyze's Any[unreachable] marker (bare or annotated) - see ASSUMPTIONS."""
    while isinstance(v, AnnotatedValue):
        v = v.value
    return (isinstance(v, MultiValuedValue) and not v.vals) or is_unreachable_marker(v)


def eqm(x, y) -> bool:
    """== of pyanalyze, modulo the spelling of 'no value'."""
    return eq(x, y) or (is_bottom(x) and is_bottom(y))


def members(v) -> list:
    return list(flatten_values(v))


def has_dups(vals) -> bool:
    return any(eq(vals[i], vals[j]) for i in range(len(vals)) for j in range(i + 1, len(vals)))


def multiset_eq(xs, ys) -> bool:
    ys = list(ys)
    for x in xs:
        for k, y in enumerate(ys):
            if eq(x, y):
                del ys[k]
                break
        else:
            return False
    return not ys


_SKIP_FIELDS = {"typevars_of_params", "all_typevars"}


_FIELD_NAMES = {}


def _field_names(cls):
    names = _FIELD_NAMES.get(cls)
    if names is None:
        if dataclasses.is_dataclass(cls):
            names = tuple(
                f.name for f in dataclasses.fields(cls) if not f.name.startswith("_") and f.name not in _SKIP_FIELDS
            )
        else:
            names = False
        _FIELD_NAMES[cls] = names
    return names


def _fields(obj):
    """[(field name, value)] of a dataclass instance (public fields), None for anything else."""
    if isinstance(obj, type):
        return None
    names = _field_names(type(obj))
    if names is False:
        return None
    return [(name, getattr(obj, name, None)) for name in names]


def neq_bad(u, v) -> bool:
    return not eq(u, v)


def hash_bad(u, v) -> bool:
    """Do u and v contribute different hashes?  Unhashable builtin containers are judged by their items."""
    hu, hv = safe_hash(u), safe_hash(v)
    if hu is not None and hv is not None:
        return hu != hv
    if isinstance(u, dict) and isinstance(v, dict):
        return list(u) != list(v) or any(hash_bad(u[k], v[k]) for k in u)
    if isinstance(u, (list, tuple)) and isinstance(v, (list, tuple)):
        return len(u) != len(v) or any(hash_bad(a, b) for a, b in zip(u, v))
    return True


def non_normal(v):
    """Why a union is not in the form unite_values produces (None if it is)."""
    if not isinstance(v, MultiValuedValue):
        return None
    if len(v.vals) == 1:
        return "single-member"
    if any(is_union(m) for m in v.vals):
        return "nested"
    if len(v.vals) > 1 and any(is_unreachable_marker(m) for m in v.vals):
        return "unreachable-marker-member"
    if has_dups(v.vals):
        return "duplicate-members"
    return None


def deep_non_normal(root) -> bool:
    """Does any union nested anywhere inside `root` fail to be in unite_values' normal form?"""
    seen = set()

    def walk(obj, depth):
        if depth > 40 or id(obj) in seen:
            return False
        seen.add(id(obj))
        if isinstance(obj, MultiValuedValue) and non_normal(obj) is not None:
            return True
        fs = _fields(obj)
        if fs is not None:
            return any(walk(c, depth + 1) for _, c in fs)
        if isinstance(obj, (tuple, list)):
            return any(walk(c, depth + 1) for c in obj)
        if isinstance(obj, dict):
            return any(walk(c, depth + 1) for c in obj.values())
        return False

    return walk(root, 0)


def _annotated_union(v) -> bool:
    return isinstance(v, AnnotatedValue) and isinstance(v.value, MultiValuedValue)


def _annotated_not_normal(v) -> bool:
    """An Annotated that annotate_value() would not have built: nested Annotated, or repeated metadata."""
    if isinstance(v, MultiValuedValue):
        return any(_annotated_not_normal(m) for m in v.vals)
    if not isinstance(v, AnnotatedValue):
        return False
    if isinstance(v.value, AnnotatedValue):
        return True
    md = v.metadata
    return any(eq(md[i], md[j]) for i in range(len(md)) for j in range(i + 1, len(md)))


def diff_reason(x, y, bad, owner: str = "value", depth: int = 0) -> str:
    """Where do x and y part?  Follows the components for which bad(cx, cy) holds down to the innermost one and
    names it structurally (class.field + kind) - the mechanism, never the values."""
    if depth > 40:
        return owner + ":deep"
    if isinstance(x, Value) and isinstance(y, Value):
        if _annotated_union(x) != _annotated_union(y):
            return "annotated-union-vs-union-of-annotated"
        if _annotated_not_normal(x) != _annotated_not_normal(y):
            return "annotated-not-normalised"
        nx, ny = non_normal(x), non_normal(y)
        if (nx or ny) and (nx != ny or len(x.vals) != len(y.vals)):
            return "union-not-normalised"
    if isinstance(x, MultiValuedValue) and isinstance(y, MultiValuedValue):
        if (
            len(x.vals) == len(y.vals)
            and not all(eq(a, b) for a, b in zip(x.vals, y.vals))
            and multiset_eq(x.vals, y.vals)
        ):
            return "MultiValuedValue.vals:order"
        if len(x.vals) != len(y.vals):
            return "MultiValuedValue.vals:length"
    if type(x) is not type(y):
        if _fields(x) is None and _fields(y) is None:
            return owner  # two plain objects held in the same field
        return "class:" + "/".join(sorted([type(x).__name__, type(y).__name__]))
    if isinstance(x, KnownValue) and bad is hash_bad and safe_hash(x.val) is None:
        return "KnownValue.val:unhashable-object"
    fx = _fields(x)
    if fx is not None:
        fy = dict(_fields(y))
        for name, cx in fx:
            cy = fy.get(name)
            if cx is cy:
                continue
            if bad(cx, cy):
                return diff_reason(cx, cy, bad, f"{type(x).__name__}.{name}", depth + 1)
        return f"{type(x).__name__}:no-single-field"
    if isinstance(x, (tuple, list)):
        if len(x) != len(y):
            return owner + ":length"
        for cx, cy in zip(x, y):
            if cx is not cy and bad(cx, cy):
                return diff_reason(cx, cy, bad, owner, depth + 1)
        return owner + ":no-single-element"
    if isinstance(x, dict):
        if list(x) != list(y):
            return owner + (":key-order" if sorted(map(repr, x)) == sorted(map(repr, y)) else ":keys")
        for k in x:
            if x[k] is not y[k] and bad(x[k], y[k]):
                return diff_reason(x[k], y[k], bad, owner, depth + 1)
        return owner + ":no-single-item"
    if safe_hash(x) is None or safe_hash(y) is None:
        return owner + ":unhashable-object"
    return owner


_LEAF_TYPES = (str, int, float, complex, bytes, bool, type(None), type, enum.Enum, types.FunctionType,
               types.BuiltinFunctionType, types.ModuleType)


def find_typevar_holder(root, domain):
    """Independent structural walk (dataclass fields, tuples, lists, dict values - not pyanalyze's walk_values):
    a true value if a TypeVarValue of a variable in `domain`, or such a TypeVar itself (e.g. held by a CustomCheck),
    is reachable from `root`; None otherwise."""
    seen = set()
    stack = [root]
    pop, push, extend = stack.pop, stack.append, stack.extend
    while stack:
        obj = pop()
        if obj is None or isinstance(obj, _LEAF_TYPES):
            continue
        if isinstance(obj, TypeVarValue):
            if obj.typevar in domain:
                return "TypeVarValue"
        elif isinstance(obj, TypeVar) and obj in domain:
            return "TypeVar"
        i = id(obj)
        if i in seen:
            continue
        seen.add(i)
        names = _field_names(type(obj))
        if names:
            for name in names:
                push(getattr(obj, name, None))
        elif isinstance(obj, (tuple, list)):
            extend(obj)
        elif isinstance(obj, dict):
            extend(obj.values())
    return None


# ---------------------------------------------------------------------------
# the laws.  Each takes real values and calls rec(law, reason, what) for every violated clause.


class Stats:
    """counter sink that is cheap in the hot loop; flushed into ctx at the end."""

    def __init__(self):
        self.c = {}
        self.h = {}

    def count(self, name, n=1):
        self.c[name] = self.c.get(name, 0) + n

    def histo(self, name, key, n=1):
        d = self.h.setdefault(name, {})
        d[key] = d.get(key, 0) + n

    def flush(self, ctx):
        for k, v in self.c.items():
            ctx.count(k, v)
        for name, d in self.h.items():
            for k, v in d.items():
                ctx.histo(name, k, v)
        self.c, self.h = {}, {}


def check_eq_hash(x, y, rec, st, src: str, ms=None) -> None:
    """x == y  =>  hash(x) == hash(y) whenever both hash."""
    if not eq(x, y):
        return
    hx, hy = safe_hash(x), safe_hash(y)
    if hx is None or hy is None:
        st.count("eq_pairs_unhashable")
        return
    st.count("eq_pairs_hash_checked")
    st.count("law_evaluations")
    if hx != hy:
        rec("eq-hash", diff_reason(x, y, hash_bad), lambda: f"[{src}] {x} == {y} but their hashes differ", ms)


def check_result_shape(r, ops, rec, st, via: str) -> None:
    """no nested union; equal alternatives merged; members exactly the operands' members; accepts operands."""
    st.count("law_evaluations", 3)
    st.count("results_inspected")
    vals = r.vals if isinstance(r, MultiValuedValue) else None
    if vals is not None:
        for v in vals:
            if is_union(v):
                rec("no-nest", f"{type(v).__name__} inside .vals", f"{via}: {r!r} has a union among its members")
                break
        done = False
        for i in range(len(vals)):
            for j in range(i + 1, len(vals)):
                if eq(vals[i], vals[j]):
                    hi, hj = safe_hash(vals[i]), safe_hash(vals[j])
                    u, v = vals[i], vals[j]
                    text = lambda: f"{via}: result {r} keeps two equal alternatives {u} and {v}"  # noqa: E731
                    if hi is None or hj is None:
                        rec("merged", "unhashable-members-not-deduplicated", text)
                    elif hi != hj:
                        # the statement's own causal chain: equal values must hash equal *so that* they merge
                        st.count("unmerged_because_hashes_differ")
                        rec("eq-hash", diff_reason(u, v, hash_bad), lambda: text() + " (equal, different hashes)")
                    else:
                        rec("merged", "equal-members-same-hash", text)
                    done = True
                    break
            if done:
                break
    # members
    expected = []
    for op in ops:
        for m in members(op):
            if not any(eq(m, e) for e in expected):
                expected.append(m)
    had_marker = any(is_unreachable_marker(e) for e in expected)
    if had_marker:
        st.count("members_unreachable_marker_operand")
    expected = [e for e in expected if not is_unreachable_marker(e)]
    got_all = members(r)
    got = [g for g in got_all if not is_unreachable_marker(g)]
    if len(got) != len(got_all) and not had_marker:
        rec("members", "extra-in-result:unreachable-marker", f"{via}: {r} contains Any[unreachable] but no operand does")
    for g in got:
        if not any(eq(g, e) for e in expected):
            rec("members", f"extra-in-result:{type(g).__name__}", f"{via}: {g} is a member of {r} but of no operand")
            break
    for e in expected:
        if not any(eq(g, e) for g in got):
            rec("members", f"missing-from-result:{type(e).__name__}", f"{via}: operand member {e} is not a member of {r}")
            break


_EXT_FAMILY = {"TypeGuardExtension": "return-guard-extension", "TypeIsExtension": "return-guard-extension"}


def _cls(v, rejected=None, ctx=None) -> str:
    """Class of a value for a mechanism key; for an Annotated result, which kind of metadata does the rejecting."""
    if isinstance(v, MultiValuedValue) and not v.vals:
        return "Never"
    if isinstance(v, AnnotatedValue):
        if rejected is not None:
            names = set()
            try:
                if v.value.is_assignable(rejected, ctx):
                    for ext in v.get_metadata_of_type(pv.Extension):
                        if not isinstance(ext.can_assign(rejected, ctx), dict):
                            names.add(_EXT_FAMILY.get(type(ext).__name__, type(ext).__name__))
            except Exception:  # noqa: BLE001
                pass
            if names:
                return f"Annotated[{'+'.join(sorted(names))}]"
        return f"Annotated({type(v.value).__name__})"
    return type(v).__name__


def check_accepts(r, ops, rec, st, via: str) -> None:
    ctx = checker()
    for op in ops:
        if is_unreachable_marker(op):
            st.count("accepts_skipped_unreachable_marker")
            continue
        st.count("law_evaluations")
        try:
            if r.is_assignable(op, ctx):
                st.count("accepts_true")
                continue
            reflexive = op.is_assignable(op, ctx)
        except Exception as e:  # noqa: BLE001
            st.histo("is_assignable_raised", type(e).__name__)
            continue
        if not reflexive:
            st.count("accepts_skipped_not_reflexive")
            st.histo("not_reflexive_operand", type(op).__name__)
            continue
        rec("accepts", f"{_cls(op)} rejected by {_cls(r, op, ctx)}", f"{via}: result {r} does not accept operand {op}")


def laws_unary(a, spec, maps, rec, st, builder=None) -> None:
    st.count("unary_cases")
    u = pv.unite_values
    aa = a | a
    st.count("law_evaluations", 4)
    # a raw union whose members are == under the tree's own equality (two different specs may build equal values)
    # is not a value unite_values could have produced: a|a == a cannot be demanded of it
    core = a.value if isinstance(a, AnnotatedValue) else a
    normal = non_normal(core) is None
    if not normal:
        st.count("operand_union_not_in_normal_form")
        st.histo("operand_union_not_in_normal_form", non_normal(core))
    if not normal:
        pass
    elif not eqm(aa, a):
        rec("idempotent", diff_reason(aa, a, neq_bad), f"a|a = {aa!r} != a = {a!r}")
    else:
        check_eq_hash(aa, a, rec, st, "a|a, a")
    for r, how in ((a | NO_RETURN_VALUE, "a|Never"), (NO_RETURN_VALUE | a, "Never|a"), (u(a), "unite_values(a)")):
        if not normal:
            continue
        if not eqm(r, a):
            rec("never-identity", diff_reason(r, a, neq_bad), f"{how} = {r!r} != a = {a!r}")
        else:
            check_eq_hash(r, a, rec, st, how)
    check_result_shape(aa, (a,), rec, st, "a|a")
    check_accepts(aa, (a,), rec, st, "a|a")
    if isinstance(a, MultiValuedValue):
        # the raw constructor must flatten too
        st.count("law_evaluations")
        for v in a.vals:
            if is_union(v):
                rec("no-nest", f"{type(v).__name__} inside .vals", f"raw constructor: {a!r} has a union among its members")
                break
    # a structurally identical value built separately must be equal and hash equal
    twin = vg.Builder().build(spec)
    st.count("law_evaluations")
    if eq(a, twin):
        check_eq_hash(a, twin, rec, st, "a, separately built copy of a")
        at = a | twin
        check_result_shape(at, (a, twin), rec, st, "a|copy")
    else:
        st.histo("twin_not_equal", type(a).__name__)
    # substitution
    tvs = vg.spec_typevars(spec)
    below = holders_of_typevars(spec)
    parts_cache = {}
    # substitution rebuilds nested values, so for subst(a, m) == a every union *inside* a must be normal too
    subst_id_ok = normal and not deep_non_normal(a)
    if normal and not subst_id_ok:
        st.count("operand_nested_union_not_in_normal_form")
    for mspec, m in maps:
        st.count("law_evaluations", 2)
        try:
            r = a.substitute_typevars(m)
        except Exception as e:  # noqa: BLE001
            rec("subst-raises", f"{type(e).__name__} in {type(a).__name__}", f"subst({a}, {m}) raised {e!r}", mspec)
            continue
        dom = {name for name in mspec}
        if not (tvs & dom) and subst_id_ok:
            st.count("subst_identity_checked")
            if not eqm(r, a):
                rec("subst-identity", diff_reason(r, a, neq_bad), f"subst({a!r}, m) = {r!r} although no variable of m occurs", mspec)
            else:
                check_eq_hash(r, a, rec, st, "subst(a,m), a", mspec)
        elif tvs & dom:
            st.count("subst_changed")
            for holder, names in below.items():
                if names & dom:
                    st.histo("subst_of_variable_held_by", holder)
                    if holder == "Subclass(container)":
                        st.count("subst_under_type_of_container")
        complete = check_subst_complete(r, m, rec, st, lambda: f"subst({a}, m)", mspec)
        # a result that still mentions a variable differs from the reference for that very reason: one report
        if builder is not None and (tvs & dom) and complete:
            check_subst_by_parts(builder, a, spec, r, mspec, m, rec, st, parts_cache)


def _has_leftover(obj, m) -> bool:
    if find_typevar_holder(obj, m) is not None:
        return True
    walk = getattr(obj, "walk_values", None)
    if walk is not None:
        try:
            return any(isinstance(w, TypeVarValue) and w.typevar in m for w in walk())
        except Exception:  # noqa: BLE001
            return False
    return False


def _substitutable_children(obj, depth=0):
    """Nearest sub-objects (through tuples/dicts/plain dataclasses) that have their own substitute_typevars."""
    out = []

    def visit(c, d):
        if d > 6:
            return
        if hasattr(c, "substitute_typevars") and not isinstance(c, type):
            out.append(c)
        elif isinstance(c, (tuple, list)):
            for x in c:
                visit(x, d + 1)
        elif isinstance(c, dict):
            for x in c.values():
                visit(x, d + 1)
        else:
            fs = _fields(c)
            if fs is not None:
                for _, x in fs:
                    visit(x, d + 1)

    fs = _fields(obj)
    if fs is not None:
        for _, c in fs:
            visit(c, 0)
    elif isinstance(obj, (tuple, list)):  # e.g. stacked_scopes.Composite (a NamedTuple with its own substitution)
        for c in obj:
            visit(c, 0)
    return out


def subst_culprit(node, m, depth: int = 0) -> str:
    """The class whose substitute_typevars leaves the variable: the deepest node that still mentions it after
    being substituted (again) although none of its substitutable children does."""
    if depth > 30:
        return type(node).__name__
    for c in _substitutable_children(node):
        if isinstance(c, TypeVarValue) or not _has_leftover(c, m):
            continue
        try:
            again = c.substitute_typevars(m)
        except Exception:  # noqa: BLE001
            return type(c).__name__
        if _has_leftover(again, m):
            return subst_culprit(c, m, depth + 1)
    return type(node).__name__


def _text(what) -> str:
    return what() if callable(what) else what


def check_subst_complete(r, m, rec, st, what, ms=None) -> bool:
    """No variable of the map's domain may be reachable in r - neither by pyanalyze's walk_values() nor by an
    independent walk over the dataclass fields / tuples / dicts of the result.  Returns whether that holds."""
    leftover = None
    st.count("subst_complete_checked")
    try:
        for w in r.walk_values():
            if isinstance(w, TypeVarValue) and w.typevar in m:
                leftover = w
                break
    except Exception as e:  # noqa: BLE001
        rec("walk-raises", type(e).__name__, lambda: f"walk_values of {_text(what)} raised {e!r}", ms)
        return True
    if leftover is not None or find_typevar_holder(r, m) is not None:
        rec(
            "subst-complete",
            f"not substituted by {subst_culprit(r, m)}",
            lambda: f"{_text(what)} = {r} still mentions a substituted variable",
            ms,
        )
        return False
    return True


def holders_of_typevars(spec) -> dict:
    """constructor kind -> names of the type variables somewhere below a value of that kind inside `spec`.
    Type[...] is split into Type[T] ("Subclass") and Type[<value mentioning T>] ("Subclass(container)")."""
    out = {}
    for s in vg.walk_spec(spec):
        if not vg.children(s) and s[0] != "annotated":
            continue
        names = vg.spec_typevars(s)
        if not names:
            continue
        kind = vg.skeleton(s, 1)
        if s[0] == "subclass" and s[1][0] not in ("typevar", "paramspec"):
            kind = "Subclass(container)"
        out.setdefault(kind, set()).update(names)
    return out


def _splices_paramspec(spec, dom) -> bool:
    """Does a callable in `spec` (direct) end in a ParamSpec that the map binds?  Its parameters are then spliced."""
    sigs = [spec] if spec[0] == "callable" else spec[1] if spec[0] == "overloaded" else []
    return any(k == "ps" and a[0] == "paramspec" and a[1] in dom for sg in sigs for _, k, _, a in sg[1])


def subst_by_parts(builder, a, spec, mspec, m, cache=None):
    """Reference result of subst(a, m), one level deep: substitute in the direct parts (pyanalyze's substitution of
    the *parts*), then apply a's own constructor to them - the documented smart constructor where the raw one is not
    closed under substitution (Type[...]: SubclassValue.make, Annotated: annotate_value, unions: unite_values).
    Returns (expected, None) or (None, why_skipped)."""
    kind = spec[0]
    if kind == "typevar":
        tv = vg.TYPEVARS[spec[1]][0]
        return (m[tv] if tv in m else a), None
    if cache is None:
        cache = {}
    if "kids" not in cache:  # the parts of a, built once per value (not once per map)
        kids = vg.children(spec)
        cache["kids"] = [builder.build(k) for k in kids]
        cache["same"] = bool(kids) and eq(a, builder.build(spec))
        cache["metas"] = [builder.build_meta(x) for x in spec[2]] if kind == "annotated" else []
    if not cache["kids"]:
        return None, "no-parts"
    if _splices_paramspec(spec, set(mspec)):
        return None, "paramspec-parameters-spliced"
    if not cache["same"]:
        return None, "value-not-equal-to-a-rebuilt-copy"  # e.g. it holds a literal that is not == itself
    new = [k.substitute_typevars(m) for k in cache["kids"]]
    if kind == "subclass":
        return SubclassValue.make(new[0], exactly=bool(spec[2])), None
    if kind == "union":
        return pv.unite_values(*new), None
    if kind == "annotated":
        return annotate_value(new[0], [x.substitute_typevars(m) for x in cache["metas"]]), None
    if kind in ("callable", "overloaded"):
        sigs = [spec] if kind == "callable" else spec[1]
        at = 0
        for sg in sigs:
            for (_, k, _, _), v in zip(sg[1], new[at:]):
                # Signature.make (the builder's constructor) would expand these into several parameters
                if (k == "va" and isinstance(v, SequenceValue)) or (k == "vk" and isinstance(v, TypedDictValue)):
                    return None, "variadic-parameter-expanded-by-Signature.make"
            at += len(sg[1]) + 1
    return builder.build_shell(spec, new), None


def check_subst_by_parts(builder, a, spec, r, mspec, m, rec, st, cache=None) -> None:
    """subst(C(x1..xn), m) == C(subst(x1, m) .. subst(xn, m)): every occurrence is replaced, by the map's value, and
    nothing else changes (Type[X].subst(m) == Type[X.subst(m)], ...)."""
    try:
        expected, skipped = subst_by_parts(builder, a, spec, mspec, m, cache)
    except Exception as e:  # noqa: BLE001
        st.histo("subst_by_parts_reference_raised", f"{spec[0]}:{type(e).__name__}")
        return
    if expected is None:
        st.histo("subst_by_parts_skipped", skipped)
        return
    st.count("subst_by_parts_checked")
    st.count("law_evaluations")
    st.histo("subst_by_parts_constructor", vg.skeleton(spec, 1))
    if not eqm(r, expected):
        rec(
            "subst-by-parts",
            f"{vg.skeleton(spec, 1)}:{diff_reason(r, expected, neq_bad)}",
            f"subst({a}, m) = {r!r} but its constructor over the substituted parts gives {expected!r}",
            mspec,
        )
    else:
        check_eq_hash(r, expected, rec, st, "subst(a,m), constructor over substituted parts", mspec)


def laws_binary(a, b, maps, rec, st) -> None:
    st.count("binary_cases")
    st.count("law_evaluations", 2)
    ab = a | b
    ba = b | a
    if not eqm(ab, ba):
        rec("commutative", diff_reason(ab, ba, neq_bad), f"a|b = {ab!r} != b|a = {ba!r}")
    else:
        check_eq_hash(ab, ba, rec, st, "a|b, b|a")
    check_eq_hash(a, b, rec, st, "a, b")
    check_result_shape(ab, (a, b), rec, st, "a|b")
    check_accepts(ab, (a, b), rec, st, "a|b")
    for mspec, m in maps:
        st.count("law_evaluations")
        st.count("subst_commutes_checked")
        try:
            lhs = ab.substitute_typevars(m)
            rhs = a.substitute_typevars(m) | b.substitute_typevars(m)
        except Exception as e:  # noqa: BLE001
            rec("subst-raises", f"{type(e).__name__} in union", f"subst({ab}, {m}) raised {e!r}", mspec)
            continue
        if not eqm(lhs, rhs):
            rec(
                "subst-commutes-with-unite",
                diff_reason(lhs, rhs, neq_bad),
                f"subst(a|b, m) = {lhs!r} != subst(a, m)|subst(b, m) = {rhs!r}",
                mspec,
            )
        else:
            check_eq_hash(lhs, rhs, rec, st, "subst(a|b), subst(a)|subst(b)", mspec)
        check_subst_complete(lhs, m, rec, st, "subst(a|b, m)", mspec)


def laws_ternary(a, b, c, rec, st, ab=None, bc=None, accepts: bool = True) -> None:
    st.count("ternary_cases")
    st.count("law_evaluations", 2)
    if ab is None:
        ab = a | b
    if bc is None:
        bc = b | c
    left = ab | c
    right = a | bc
    flat = pv.unite_values(a, b, c)
    if not eqm(left, right):
        rec("associative", diff_reason(left, right, neq_bad), f"(a|b)|c = {left!r} != a|(b|c) = {right!r}")
    else:
        check_eq_hash(left, right, rec, st, "(a|b)|c, a|(b|c)")
    if not eqm(left, flat):
        rec("associative", "nary:" + diff_reason(left, flat, neq_bad), f"(a|b)|c = {left!r} != unite_values(a,b,c) = {flat!r}")
    else:
        check_eq_hash(left, flat, rec, st, "(a|b)|c, unite_values(a,b,c)")
    check_result_shape(left, (a, b, c), rec, st, "(a|b)|c")
    if right is not left:
        check_result_shape(right, (a, b, c), rec, st, "a|(b|c)")
    if accepts:
        check_accepts(left, (a, b, c), rec, st, "(a|b)|c")


# ---------------------------------------------------------------------------
# evaluating a recorded case (used for replay and for witness minimisation)


def evaluate(ops, mapspecs):
    """ops: list of 1-3 specs; mapspecs: list of map specs. Returns [(law, reason, what)]."""
    b = vg.Builder()
    vals = [b.build(s) for s in ops]
    maps = [(ms, b.build_map(ms)) for ms in (mapspecs or [])]
    out = []
    st = Stats()

    def rec(law, reason, what, ms=None):
        out.append((law, reason, what() if callable(what) else what))

    if len(vals) == 1:
        laws_unary(vals[0], ops[0], maps, rec, st, builder=b)
    elif len(vals) == 2:
        laws_binary(vals[0], vals[1], maps, rec, st)
    else:
        laws_ternary(vals[0], vals[1], vals[2], rec, st)
    return out


ATOMS = [["typed", "int"], ["typed", "str"], ["known", "1"], ["known", "None"]]


def _variants(spec, deep: int = 3):
    """Strictly smaller candidate replacements for one operand: a sub-value, an atom, the same constructor with one
    element dropped, or the same constructor with one sub-value replaced by one of *its* variants."""
    size = vg.spec_size(spec)
    out = list(vg.children(spec))
    if spec[0] == "union" and len(spec[1]) > 2:
        for i in range(len(spec[1])):
            out.append(["union", spec[1][:i] + spec[1][i + 1:]])
    if spec[0] == "annotated" and len(spec[2]) > 1:
        for i in range(len(spec[2])):
            out.append(["annotated", spec[1], spec[2][:i] + spec[2][i + 1:]])
    if spec[0] == "seq" and len(spec[2]) > 1:
        for i in range(len(spec[2])):
            out.append(["seq", spec[1], spec[2][:i] + spec[2][i + 1:]])
    if spec[0] == "dict" and len(spec[1]) > 1:
        for i in range(len(spec[1])):
            out.append(["dict", spec[1][:i] + spec[1][i + 1:]])
    if spec[0] == "callable" and spec[1]:
        out.append(["callable", [], spec[2], spec[3]])
    if spec[0] == "typeddict" and (len(spec[1]) > 1 or spec[2] is not None):
        for k in spec[1]:
            out.append(["typeddict", {kk: v for kk, v in spec[1].items() if kk != k}, spec[2], spec[3]])
        out.append(["typeddict", spec[1], None, False])
    if size > 1:
        out.extend(ATOMS)
    if deep > 0:
        kids = vg.children(spec)
        for i, kid in enumerate(kids):
            if vg.spec_size(kid) > 1:
                for v in _variants(kid, deep - 1):
                    out.append(vg.with_children(spec, kids[:i] + [v] + kids[i + 1:]))
    seen, res = set(), []
    for s in out:
        r = repr(s)
        if r not in seen and vg.spec_size(s) < size:
            seen.add(r)
            res.append(s)
    res.sort(key=vg.spec_size)
    return res


def minimise(ops, mapspec, law, reason, budget: int = 400):
    """Greedy structural shrinking that keeps the same (law, reason)."""
    ops = [s for s in ops]
    maps = [mapspec] if mapspec else []

    def still(o, ms):
        try:
            return any(l == law and r == reason for l, r, _ in evaluate(o, ms))
        except Exception:  # noqa: BLE001
            return False

    used = 0
    changed = True
    while changed and used < budget:
        changed = False
        for i in range(len(ops)):
            for cand in _variants(ops[i]):
                trial = ops[:i] + [cand] + ops[i + 1:]
                used += 1
                if still(trial, maps):
                    ops = trial
                    changed = True
                    break
                if used >= budget:
                    break
            if changed or used >= budget:
                break
        if not changed and maps:
            # shrink the map: drop entries, simplify replacement values
            m = maps[0]
            for k in list(m):
                if len(m) > 1:
                    trial = {kk: v for kk, v in m.items() if kk != k}
                    used += 1
                    if still(ops, [trial]):
                        maps = [trial]
                        changed = True
                        break
                for cand in _variants(m[k]):
                    if vg.spec_typevars(cand) & set(m):
                        continue
                    trial = dict(m)
                    trial[k] = cand
                    used += 1
                    if still(ops, [trial]):
                        maps = [trial]
                        changed = True
                        break
                if changed:
                    break
    return ops, (maps[0] if maps else None)


_ADDRESS = re.compile(r" at 0x[0-9a-fA-F]+")


class Recorder:
    """Turns law failures into ctx.violation with a mechanism key and a (minimised) replayable witness."""

    MINIMISE_PER_KEY = 3

    def __init__(self, ctx):
        self.ctx = ctx
        self.per_key = {}

    def report(self, ops, mapspec, law, reason, what):
        key = f"{law}|{reason}"
        n = self.per_key.get(key, 0)
        self.per_key[key] = n + 1
        if n >= 40:
            self.ctx.violation_counts[key] = self.ctx.violation_counts.get(key, 0) + 1
            return
        if callable(what):
            what = what()
        if n < self.MINIMISE_PER_KEY:
            ops, mapspec = minimise(ops, mapspec, law, reason)
            for l, r, w in evaluate(ops, [mapspec] if mapspec else []):
                if l == law and r == reason:
                    what = w
                    break
        witness = {
            "kind": "laws", "law": law, "key": key, "ops": ops, "map": mapspec,
            "expr": [vg.to_expr(s) for s in ops] + ([vg.map_expr(mapspec)] if mapspec else []),
        }
        self.ctx.violation(key, _ADDRESS.sub("", what)[:600], witness)


# ---------------------------------------------------------------------------
# in-situ contract on the real unite_values


class UniteContract:
    """Recording post-condition; never raises into pyanalyze."""

    def __init__(self):
        self.active = False
        self.busy = False
        self.calls = 0
        self.events = []  # (clause, reason, what)
        self.st = Stats()
        self.installed = 0
        self.orig = None

    def install(self):
        if self.orig is not None:
            return
        orig = pv.unite_values
        self.orig = orig
        contract = self

        def unite_values(*values):
            result = orig(*values)
            if contract.active and not contract.busy:
                contract.busy = True
                try:
                    contract.check(values, result)
                except BaseException as e:  # noqa: BLE001 - a contract must never raise into pyanalyze
                    contract.st.histo("insitu_contract_internal_error", type(e).__name__)
                finally:
                    contract.busy = False
            return result

        unite_values.__wrapped__ = orig
        unite_values.__doc__ = orig.__doc__
        for name, mod in list(sys.modules.items()):
            if mod is None or not (name == "pyanalyze" or name.startswith("pyanalyze.")):
                continue
            d = getattr(mod, "__dict__", {})
            for attr, val in list(d.items()):
                if val is orig:
                    setattr(mod, attr, unite_values)
                    self.installed += 1

    def check(self, values, result):
        st = self.st
        self.calls += 1
        st.count("insitu_contract_evaluations")
        st.histo("insitu_arity", str(min(len(values), 6)))
        for v in values:
            st.histo("insitu_operand_class", type(v).__name__)
        st.histo("insitu_result_class", type(result).__name__)

        def rec(law, reason, what, ms=None):
            self.events.append((law, reason, what() if callable(what) else what))

        sub = Stats()
        check_result_shape(result, values, rec, sub, "unite_values in situ")
        if len(values) <= 8:
            check_accepts(result, values, rec, sub, "unite_values in situ")
        for k in ("accepts_true", "accepts_skipped_not_reflexive", "members_unreachable_marker_dropped"):
            if k in sub.c:
                st.count("insitu_" + k, sub.c[k])
        for name, d in sub.h.items():
            for k, v in d.items():
                st.histo("insitu_" + name, k, v)


_CONTRACT = UniteContract()


def test_snippets():
    """(name, source) for every @assert_passes test body of the tree under test, in a fixed order."""
    out = []
    for path in sorted(glob.glob(os.path.join(harness.REPO, "pyanalyze", "test_*.py"))):
        try:
            with open(path) as f:
                text = f.read()
            tree = ast.parse(text)
        except (OSError, SyntaxError):
            continue
        lines = text.splitlines()
        for node in ast.walk(tree):
            if not isinstance(node, ast.FunctionDef) or not node.body:
                continue
            if not any(
                (isinstance(d, ast.Call) and getattr(d.func, "id", None) == "assert_passes" and not d.keywords)
                for d in node.decorator_list
            ):
                continue
            first, last = node.body[0].lineno, node.body[-1].end_lineno
            src = textwrap.dedent("\n".join(lines[first - 1 : last])) + "\n"
            out.append((f"{os.path.basename(path)}::{node.name}", src))
    return out


def run_insitu(source: str):
    """Check one program with the contract active; returns the contract events of this program."""
    c = _CONTRACT
    c.install()
    checker()  # build the contract's CanAssignContext outside the monitored region
    c.events = []
    c.active = True
    try:
        try:
            ast.parse(source)
        except SyntaxError:
            return None
        res = harness.run(source, check_attributes=False)
    except BaseException as e:  # noqa: BLE001
        if isinstance(e, (KeyboardInterrupt, SystemExit)):
            raise
        c.st.histo("insitu_harness_exception", type(e).__name__)
        return []
    finally:
        c.active = False
    if res.exception is not None:
        c.st.histo("insitu_checker_exception", type(res.exception).__name__)
    return list(c.events)


def insitu_phase(ctx) -> None:
    snippets = test_snippets()
    want = ctx.pick(110, 460)
    stride = max(1, len(snippets) // want)
    chosen = [s for i, s in enumerate(snippets) if (i + ctx.seed) % stride == 0]
    ctx.count("insitu_corpus_size", len(chosen) if ctx.shard == 0 else 0)
    for idx, (name, src) in enumerate(chosen):
        if not ctx.mine(idx):
            continue
        before = _CONTRACT.calls
        events = run_insitu(src)
        if events is None:
            continue
        ctx.count("insitu_programs")
        if _CONTRACT.calls > before:
            ctx.count("insitu_programs_reaching_unite")
        seen = set()
        for law, reason, what in events:
            key = f"{law}|{reason}"
            ctx.histo("insitu_violations", key)
            if key in seen:
                ctx.violation_counts[key] = ctx.violation_counts.get(key, 0) + 1
                continue
            seen.add(key)
            ctx.violation(key, f"{name}: {what}"[:600], {"kind": "insitu", "name": name, "source": src, "key": key})
    _CONTRACT.st.flush(ctx)
    if _CONTRACT.calls == 0 and any(ctx.mine(i) for i in range(len(chosen))):
        ctx.note(f"shard {ctx.shard}: in-situ contract on unite_values saw 0 evaluations (rebinding reached {_CONTRACT.installed} names)")
    if ctx.shard == 0:
        ctx.histo("insitu_rebound_names", str(_CONTRACT.installed))


# ---------------------------------------------------------------------------
# shard


def _nontrivial(specs) -> bool:
    distinct = len({repr(s) for s in specs}) >= 2
    nonlit = any(s[0] not in ("known", "known_u") for s in specs)
    return distinct and nonlit


def shard(ctx) -> None:
    import random

    rng_pool = random.Random(f"C14-pool/{ctx.seed}")  # the pool is the same in every shard of a run
    n_pool = ctx.pick(64, 100)
    specs = vg.pool_specs(rng_pool, n_pool, depth=2)
    builder = vg.Builder()
    vals = [builder.build(s) for s in specs]
    mapspecs = vg.map_specs(rng_pool, ctx.pick(10, 14))
    maps = [(ms, builder.build_map(ms)) for ms in mapspecs]
    recorder = Recorder(ctx)
    st = Stats()
    n = len(vals)
    is_lit = [s[0] in ("known", "known_u") for s in specs]
    if ctx.shard == 0:
        for s in specs:
            for cls in vg.spec_classes(s):
                ctx.histo("pool_spec_kinds", cls)
        for v in vals:
            ctx.histo("pool_value_class", type(v).__name__)
            ctx.histo("pool_value_hashable", "yes" if safe_hash(v) is not None else "no")
        ctx.histo("pool_size", str(n))
        ctx.sample({"pool_example": vg.to_expr(specs[-1]), "map_example": vg.map_expr(mapspecs[-1])})

    cur = {"ops": None}

    def rec(law, reason, what, ms=None):
        st.histo("violated_law", law)
        recorder.report(cur["ops"], ms, law, reason, what)

    # ---- unary: every pool value x every map
    for i in range(n):
        if not ctx.mine(i):
            continue
        cur["ops"] = [specs[i]]
        laws_unary(vals[i], specs[i], maps, rec, st, builder=builder)
        ctx.count("evaluations")

    # ---- binary (x every map) + ternary: every ordered pair / triple of the pool
    unions = {}
    for i in range(n):
        for j in range(n):
            unions[i, j] = vals[i] | vals[j]
    pair_index = 0
    for i in range(n):
        for j in range(n):
            pair_index += 1
            if not ctx.mine(pair_index):
                continue
            cur["ops"] = [specs[i], specs[j]]
            laws_binary(vals[i], vals[j], maps, rec, st)
            ctx.count("evaluations")
            if i != j and not (is_lit[i] and is_lit[j]):
                ctx.nontrivial(("pair", i, j))
            a, b, ab = vals[i], vals[j], unions[i, j]
            for k in range(n):
                cur["ops"] = [specs[i], specs[j], specs[k]]
                laws_ternary(a, b, vals[k], rec, st, ab=ab, bc=unions[j, k], accepts=((i + j + k) % 4 == 0))
                if (i != j or j != k) and not (is_lit[i] and is_lit[j] and is_lit[k]):
                    ctx.nontrivial(("triple", i, j, k))
            ctx.count("evaluations", n)
    st.flush(ctx)

    # ---- nesting matrix: every slot of every constructor x every constructor (type variable at the leaf)
    nest = vg.nesting_specs(levels=2, level2_inners=ctx.pick(("TypeVar", "Generic"), None))
    nb = vg.Builder()
    nmapspecs = [dict(m) for m in vg.CORE_MAPS] + [dict(m) for m in vg.NEST_MAPS]
    nmaps = [(ms, nb.build_map(ms)) for ms in nmapspecs]
    k = len(vg.CORE_MAPS)
    pair_maps = nmaps[:4] + nmaps[k:k + 2] + nmaps[-4:-3]
    # two-level nestings test propagation through two constructors: the quick tier gives them one replacement value
    # per constructor family (the one-level nestings get every map)
    deep_maps = ctx.pick([nmaps[i] for i in (0, 2, 3, 4, 5, k, k + 3, k + 6, k + 9)], nmaps)
    partner_specs = [["generic", "set", [["typevar", "T"]]], ["typed", "int"], ["typevar", "T"]]
    partners = [nb.build(x) for x in partner_specs]
    n_level1 = len(vg.nesting_specs(levels=1))
    for idx, (tag, spec) in enumerate(nest):
        if not ctx.mine(idx):
            continue
        a = nb.build(spec)
        cur["ops"] = [spec]
        laws_unary(a, spec, nmaps if idx < n_level1 else deep_maps, rec, st, builder=nb)
        ctx.count("evaluations")
        ctx.count("nesting_cases")
        st.histo("nesting_slot", tag.split(" <- ")[0])
        st.histo("nesting_inner", tag.split(" <- ")[-1])
        st.histo("nesting_depth", str(tag.count(" <- ")))
        ctx.nontrivial(("nest", tag))
        if idx < n_level1 or ctx.tier != "quick":
            for ps, pval in zip(partner_specs, partners):
                cur["ops"] = [spec, ps]
                laws_binary(a, pval, pair_maps, rec, st)
                ctx.count("nesting_pair_cases")
    # ---- neighbouring values (same parts in another order / other flags): all ordered pairs and triples of a group
    gi = 0
    for group in vg.NEIGHBOUR_GROUPS:
        gi += 1
        if not ctx.mine(gi):
            continue
        gvals = [nb.build(x) for x in group]
        for i, x in enumerate(gvals):
            cur["ops"] = [group[i]]
            laws_unary(x, group[i], nmaps[:3], rec, st, builder=nb)
            for j, y in enumerate(gvals):
                cur["ops"] = [group[i], group[j]]
                laws_binary(x, y, nmaps[:3], rec, st)
                ctx.count("neighbour_pair_cases")
                if eq(x, y) and i != j:
                    st.count("neighbour_pairs_equal")
                for kk, z in enumerate(gvals):
                    cur["ops"] = [group[i], group[j], group[kk]]
                    laws_ternary(x, y, z, rec, st)
            ctx.count("evaluations")
    st.flush(ctx)

    # ---- random deeper cases (wide grammar: see vg.random_spec)
    rng = ctx.rng
    n_random = ctx.pick(20800, 104000) // ctx.nshards  # total work does not depend on --jobs
    ops = None
    for t in range(n_random):
        depth = rng.choice([1, 2, 2, 3])
        ops = [vg.random_spec(rng, depth, True, True) for _ in range(3)]
        if rng.random() < 0.25:
            ops[rng.randrange(3)] = rng.choice(specs)
        if rng.random() < 0.15:
            ops[2] = ops[0]
        rmaps = [vg.random_map_spec(rng, rng.choice([0, 1, 1, 2]), True), rng.choice(mapspecs)]
        if any("method" in vg.spec_classes(s) for s in ops) or any("method" in vg.spec_classes(v) for ms in rmaps for v in ms.values()):
            # a bound method compares the value it is bound to with a bare == (stacked_scopes.Composite.__eq__)
            ops = [vg.without_flaky(s) for s in ops]
            rmaps = [{name: vg.without_flaky(v) for name, v in ms.items()} for ms in rmaps]
        b = vg.Builder()
        try:
            vs = [b.build(s) for s in ops]
        except Exception as e:  # noqa: BLE001
            ctx.histo("generator_build_failed", type(e).__name__)
            continue
        bm = [(ms, b.build_map(ms)) for ms in rmaps]
        for x in range(3):
            cur["ops"] = [ops[x]]
            laws_unary(vs[x], ops[x], bm, rec, st, builder=b)
        for x, y in ((0, 1), (1, 2), (2, 0)):
            cur["ops"] = [ops[x], ops[y]]
            laws_binary(vs[x], vs[y], bm, rec, st)
        cur["ops"] = ops
        laws_ternary(vs[0], vs[1], vs[2], rec, st)
        ctx.count("evaluations")
        ctx.count("random_cases")
        for s in ops:
            st.histo("random_operand_kind", s[0])
        st.histo("random_depth", str(depth))
        if _nontrivial(ops):
            ctx.nontrivial(ops)
    st.flush(ctx)
    if ops is not None and ctx.shard == 1 % ctx.nshards:
        ctx.sample({"random_case": [vg.to_expr(s) for s in ops]})

    c = ctx.counters
    for law, n in {
        "idempotent": c.get("unary_cases", 0), "never-identity": 3 * c.get("unary_cases", 0),
        "commutative": c.get("binary_cases", 0), "associative": 2 * c.get("ternary_cases", 0),
        "no-nest+merged+members (results inspected)": c.get("results_inspected", 0),
        "accepts": c.get("accepts_true", 0) + c.get("accepts_skipped_not_reflexive", 0),
        "eq-hash": c.get("eq_pairs_hash_checked", 0), "subst-identity": c.get("subst_identity_checked", 0),
        "subst-complete": c.get("subst_complete_checked", 0), "subst-commutes-with-unite": c.get("subst_commutes_checked", 0),
        "subst-by-parts": c.get("subst_by_parts_checked", 0),
    }.items():
        ctx.histo("law_evaluations_by_law", law, n)

    # ---- in-situ contract over real programs
    insitu_phase(ctx)


# ---------------------------------------------------------------------------
# replay


def replay(witness):
    if witness.get("kind") == "insitu":
        events = run_insitu(witness["source"]) or []
        keys = [(f"{law}|{reason}", what) for law, reason, what in events]
        for k, what in keys:
            if k == witness.get("key"):
                return k, what
        return keys[0] if keys else None
    found = evaluate(witness["ops"], [witness["map"]] if witness.get("map") else [])
    for law, reason, what in found:
        if f"{law}|{reason}" == witness.get("key"):
            return f"{law}|{reason}", what
    want = witness.get("law")
    for law, reason, what in found:
        if want is None or law == want:
            return f"{law}|{reason}", what
    return None
