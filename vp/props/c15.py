"""C15 — type-variable solutions satisfy the bounds they were solved from.

Monitor, two parts, both observing the real pyanalyze:

(1) direct: `pyanalyze.typevar.resolve_bounds_map` is fed every multiset of <= 4 public Bound objects
    (LowerBound / UpperBound / IsOneOf / OrBound over a pool of static values) in EVERY permutation, with a real
    `Checker()` as context.  The oracle is pyanalyze's own assignability relation applied to the value that came
    back: every LowerBound(v) needs solution.is_assignable(v), every UpperBound(v) needs v.is_assignable(solution),
    IsOneOf(cs) needs solution == some c in cs.  No error + a violated bound = violation; the same multiset giving
    "error" in one permutation and "no error" in another = order-dependent.
(2) end-to-end: generic functions are called with literal / typed arguments in a never-called function; every
    permutation of (parameters, arguments) together must get the same verdict; for *accepted* calls the solver
    invocation of that call (observed in situ through a recording wrapper around signature.resolve_bounds_map) is
    put through the same oracle.
"""
from __future__ import annotations

import itertools
import re

from vp import harness

ID = "C15"
LEVEL = "exploration"
TECHNIQUE = "runtime monitoring: algebraic oracle (pyanalyze's own is_assignable) on real solver return values + permutation differential"
RULE = (
    "direct case = a multiset of Bound objects: LowerBound/UpperBound over a 14-value pool (bool,int,float,str,object,"
    "None,Literal[1],list[int],list[object],int|str,int|None,A,B(A),C; thorough 21 values: + Literal['x'],complex,"
    "bytes,Literal[True],A|C,list[A],list[B]), IsOneOf over 6 [thorough 10] constraint lists, 1 [2] OrBound; "
    "enumerated EXHAUSTIVELY for sizes 1..4 (quick: with repetition up to size 3, size 4 without - the solver drops "
    "duplicates first; thorough: with repetition throughout), every distinct permutation passed to "
    "resolve_bounds_map; thorough adds a seeded sample of size-5 sets, all 120 permutations each. Non-trivial = the "
    "multiset has >= 2 mutually incomparable bounds of one kind, or bounds of >= 2 different kinds; distinct by "
    "multiset. end-to-end case = (generic signature family, argument tuple): 19 families (T,T / list[T],T / "
    "dict[K,V],K / Callable[[T],U],T / two Callable[[T],None] / the same + T / T,T,T / bounded / constrained) x the "
    "cross product of literal and typed argument expressions; every permutation of parameters+arguments is checked "
    "in one generated module, the verdicts compared, reveal_type of each call recorded, and the solver call made for "
    "each accepted call judged in situ by the same oracle."
)
LEVEL_TEXT = (
    "exhaustive over the stated bound pool up to 4 bounds in all orders (so every key is seed-independent); sampled "
    "beyond; the oracle is pyanalyze's own assignability relation, so a defect shared by solver and relation is "
    "invisible here (C03/C04 own the relation)"
)
ASSUMPTIONS = [
    "the oracle is pyanalyze's own Value.is_assignable with a fresh Checker() (the relation the property's wording "
    "'accepts' refers to); a tiny membership model over runtime objects is reported as a secondary histogram only",
    "IsOneOf: 'is one of the declared constraints' = solution == c for some declared c; an Any solution for "
    "Any-free bounds is not one of them",
    "OrBound is not mentioned by the property statement: recorded (orbound_* histogram), never deciding",
    "end-to-end 'diagnosed' = incompatible_call / incompatible_argument on the call's line; 'accepted' = none",
    "in-situ observation rebinds pyanalyze.signature.resolve_bounds_map to a pass-through recording wrapper",
]
FLOORS = {
    "quick": {"distinct_nontrivial": 32000, "multisets": 30000, "solver_calls": 650000, "verdict_error": 500000,
              "verdict_ok": 30000, "e2e_cases": 2000, "e2e_accepted": 1500, "e2e_diagnosed": 3400,
              "e2e_insitu_checked": 3200},
    "thorough": {"distinct_nontrivial": 230000, "multisets": 230000, "size5_multisets": 19000,
                 "solver_calls": 5000000, "verdict_ok": 250000, "e2e_cases": 2000, "e2e_insitu_checked": 3200},
}
NSHARDS = 16
WATCHDOG_S = {"quick": 900, "thorough": 7200}
EXHAUSTIVE = {"quick": False, "thorough": False}
E2E_CODES = {"incompatible_call", "incompatible_argument"}
BATCH = 240


class A:
    pass


class B(A):
    pass


class C:
    pass


# ---------------------------------------------------------------------------
# pool

_STATE: dict = {}


def _st():
    if _STATE:
        return _STATE
    from typing import TypeVar

    from pyanalyze.checker import Checker
    from pyanalyze.value import (
        AnyValue,
        GenericValue,
        IsOneOf,
        KnownValue,
        LowerBound,
        MultiValuedValue,
        OrBound,
        TypedValue,
        UpperBound,
    )

    T = TypeVar("T")
    tv = lambda t: TypedValue(t)  # noqa: E731
    vals = {
        "bool": tv(bool), "int": tv(int), "float": tv(float), "str": tv(str), "object": tv(object),
        "None": KnownValue(None), "Literal[1]": KnownValue(1), "Literal['x']": KnownValue("x"),
        "list[int]": GenericValue(list, [tv(int)]), "list[object]": GenericValue(list, [tv(object)]),
        "int|str": MultiValuedValue([tv(int), tv(str)]), "int|None": MultiValuedValue([tv(int), KnownValue(None)]),
        "A": tv(A), "B": tv(B), "C": tv(C),
        # thorough only / helper values
        "complex": tv(complex), "bytes": tv(bytes), "Literal[True]": KnownValue(True),
        "A|C": MultiValuedValue([tv(A), tv(C)]), "list[A]": GenericValue(list, [tv(A)]),
        "list[B]": GenericValue(list, [tv(B)]),
        "str|None": MultiValuedValue([tv(str), KnownValue(None)]),
    }
    _STATE.update(
        T=T, vals=vals, checker=Checker(), LowerBound=LowerBound, UpperBound=UpperBound, IsOneOf=IsOneOf,
        OrBound=OrBound, AnyValue=AnyValue, KnownValue=KnownValue, TypedValue=TypedValue,
        GenericValue=GenericValue, MultiValuedValue=MultiValuedValue, cache={}, memo={},
    )
    return _STATE


QUICK_VALUES = ["bool", "int", "float", "str", "object", "None", "Literal[1]", "list[int]", "list[object]", "int|str",
                "int|None", "A", "B", "C"]
THOROUGH_VALUES = QUICK_VALUES + ["Literal['x']", "complex", "bytes", "Literal[True]", "A|C", "list[A]", "list[B]"]
QUICK_CONSTRAINTS = ["int,str", "int,float", "A,C", "A,B", "int|None,str|None", "list[int],list[object]"]
THOROUGH_CONSTRAINTS = QUICK_CONSTRAINTS + ["str,bytes", "float,str", "object,int", "B,C"]
QUICK_ORBOUNDS = ["L:int/L:str"]
THOROUGH_ORBOUNDS = QUICK_ORBOUNDS + ["U:int/U:A"]


def bound_ids(tier: str) -> list:
    """Bound identifiers are JSON-able pairs (kind, name)."""
    quick = tier == "quick"
    values = QUICK_VALUES if quick else THOROUGH_VALUES
    out = [("L", v) for v in values] + [("U", v) for v in values]
    out += [("O", c) for c in (QUICK_CONSTRAINTS if quick else THOROUGH_CONSTRAINTS)]
    out += [("Or", o) for o in (QUICK_ORBOUNDS if quick else THOROUGH_ORBOUNDS)]
    return out


_BOUNDS: dict = {}


def make_bound(bid):
    b = _BOUNDS.get(bid)
    if b is None:
        b = _BOUNDS[bid] = _make_bound(bid)
    return b


def _make_bound(bid):
    st = _st()
    kind, name = bid
    T, vals = st["T"], st["vals"]
    if kind == "L":
        return st["LowerBound"](T, vals[name])
    if kind == "U":
        return st["UpperBound"](T, vals[name])
    if kind == "O":
        return st["IsOneOf"](T, tuple(vals[n] for n in name.split(",")))
    if kind == "Or":
        alts = []
        for alt in name.split("/"):
            k, n = alt.split(":")
            alts.append((make_bound((k, n)),))
        return st["OrBound"](tuple(alts))
    raise ValueError(bid)


def bound_text(bid) -> str:
    kind, name = bid
    return {"L": f"T >= {name}", "U": f"T <= {name}", "O": f"T in ({name})", "Or": f"Or({name})"}[kind]


# ---------------------------------------------------------------------------
# oracle (pyanalyze's own relation, memoised)


def accepts(left, right) -> bool:
    """left.is_assignable(right): does `left` accept `right`."""
    st = _st()
    cache = st["cache"]
    try:
        k = (left, right)
        r = cache.get(k)
    except TypeError:
        return left.is_assignable(right, st["checker"])
    if r is None:
        r = left.is_assignable(right, st["checker"])
        cache[k] = r
    return r


def has_any(value) -> bool:
    AnyValue = _st()["AnyValue"]
    return any(isinstance(v, AnyValue) for v in value.walk_values())


def bound_has_any(b) -> bool:
    st = _st()
    if isinstance(b, (st["LowerBound"], st["UpperBound"])):
        return has_any(b.value)
    if isinstance(b, st["IsOneOf"]):
        return any(has_any(c) for c in b.constraints)
    if isinstance(b, st["OrBound"]):
        return any(bound_has_any(x) for alt in b.bounds for x in alt)
    return True


def kind_of(b) -> str:
    st = _st()
    if isinstance(b, st["LowerBound"]):
        return "L"
    if isinstance(b, st["UpperBound"]):
        return "U"
    if isinstance(b, st["IsOneOf"]):
        return "O"
    if isinstance(b, st["OrBound"]):
        return "Or"
    return type(b).__name__


def judge(bounds, solution) -> list:
    """Which clauses of the property does `solution` break for these Bound objects?  -> list of (sig, text)."""
    st = _st()
    out = []
    anyfree = not any(bound_has_any(b) for b in bounds)
    for b in bounds:
        k = kind_of(b)
        if k == "L":
            if not accepts(solution, b.value):
                out.append(("lower", f"solution {solution} does not accept lower bound {b.value}"))
        elif k == "U":
            if not accepts(b.value, solution):
                out.append(("upper", f"upper bound {b.value} does not accept solution {solution}"))
        elif k == "O":
            if not any(solution == c for c in b.constraints):
                if isinstance(solution, st["AnyValue"]):
                    if anyfree:
                        out.append((f"constraint:Any[{solution.source.name}]",
                                    f"solution {solution} is none of the constraints ({', '.join(map(str, b.constraints))})"))
                else:
                    out.append(("constraint:non-member",
                                f"solution {solution} is none of the constraints ({', '.join(map(str, b.constraints))})"))
    return out


def or_satisfied(b, solution) -> bool:
    for alt in b.bounds:
        if not judge(list(alt), solution):
            return True
    return False


# secondary, non-deciding: a membership model over a small universe of runtime objects
_UNIVERSE = [True, 1, 2, 1.5, "x", "y", None, [1], ["a"], [], A(), B(), C(), object(), b"q", 1j]


def members(value):
    st = _st()
    if isinstance(value, st["MultiValuedValue"]):
        s = set()
        for v in value.vals:
            m = members(v)
            if m is None:
                return None
            s |= m
        return s
    if isinstance(value, st["KnownValue"]):
        return {i for i, o in enumerate(_UNIVERSE) if type(o) is type(value.val) and o == value.val}
    if isinstance(value, st["GenericValue"]):
        if value.typ is list and len(value.args) == 1:
            inner = members(value.args[0])
            if inner is None:
                return None
            return {i for i, o in enumerate(_UNIVERSE) if isinstance(o, list)
                    and all(any(e is _UNIVERSE[j] or (type(e) is type(_UNIVERSE[j]) and e == _UNIVERSE[j]) for j in inner) for e in o)}
        return None
    if type(value) is st["TypedValue"]:
        t = value.typ
        if not isinstance(t, type):
            return None
        promo = {float: (float, int), complex: (complex, float, int)}.get(t, (t,))
        return {i for i, o in enumerate(_UNIVERSE) if isinstance(o, promo)}
    return None


def model_report(ctx, bounds, solution) -> None:
    ms = members(solution)
    if ms is None:
        ctx.histo("membership_model", "solution-not-modelled")
        return
    for b in bounds:
        k = kind_of(b)
        if k not in ("L", "U"):
            continue
        mb = members(b.value)
        if mb is None:
            continue
        ok = mb <= ms if k == "L" else ms <= mb
        ctx.histo("membership_model", f"{k}:{'subset-holds' if ok else 'subset-fails'}")


# ---------------------------------------------------------------------------
# direct part


def solve_once(bounds):
    """-> (solution or None, n_errors, exception or None)"""
    from pyanalyze.typevar import resolve_bounds_map

    st = _st()
    try:
        tv_map, errors = resolve_bounds_map({st["T"]: list(bounds)}, st["checker"])
    except Exception as e:  # noqa: BLE001
        return None, 0, e
    return tv_map.get(st["T"]), len(errors), None


def distinct_perms(ids: tuple):
    if len(set(ids)) == len(ids):
        return itertools.permutations(ids)
    return sorted(set(itertools.permutations(ids)))


def analyse(ids: tuple, ctx=None) -> dict:
    """Run every distinct permutation of the multiset `ids` (a sorted tuple of bound ids) through the solver.

    -> {sig: (perm, text)} for every clause signature broken by some permutation (first such permutation)."""
    st = _st()
    memo = st["memo"]
    if ctx is None and ids in memo:
        return memo[ids]
    found: dict = {}
    verdicts: dict = {}
    sols = set()
    for perm in distinct_perms(ids):
        bounds = [make_bound(b) for b in perm]
        sol, nerr, exc = solve_once(bounds)
        if ctx is not None:
            ctx.count("solver_calls")
        if exc is not None:
            found.setdefault(f"exception:{type(exc).__name__}", (perm, f"resolve_bounds_map raised {exc!r}"))
            continue
        if nerr:
            verdicts.setdefault("error", perm)
            if ctx is not None:
                ctx.count("verdict_error")
            continue
        verdicts.setdefault("ok", perm)
        broken = judge(bounds, sol)
        if ctx is not None:
            ctx.count("verdict_ok")
            ctx.count("bounds_judged", len(bounds))
            sols.add(str(sol))
            for b in bounds:
                if kind_of(b) == "Or":
                    ctx.histo("orbound_non_deciding", "satisfied" if or_satisfied(b, sol) else "not-satisfied")
            if len(ids) <= 2:
                model_report(ctx, bounds, sol)
        for sig, text in broken:
            found.setdefault(sig, (perm, text))
    if len(verdicts) == 2:
        found["order-dependent"] = (
            verdicts["ok"],
            f"no error in this order but an error in order [{', '.join(bound_text(b) for b in verdicts['error'])}]",
        )
    if ctx is not None:
        ctx.histo("verdicts_per_multiset", "+".join(sorted(verdicts)) or "exception")
        if len(sols) > 1:
            ctx.count("multisets_solution_varies_with_order_nondeciding")
    if len(ids) <= 3 or len(memo) < 400000:
        memo[ids] = found
    return found


# --- mechanism classification (never deciding; only names the violation) ------------------------------------


def minimise(bounds: list, sig: str) -> list:
    """Greedy removal, order preserved, while the solver still answers 'no error' and the same clause is broken."""
    changed = True
    while changed and len(bounds) > 1:
        changed = False
        for i in range(len(bounds)):
            sub = bounds[:i] + bounds[i + 1:]
            sol, nerr, exc = solve_once(sub)
            if sig.startswith("exception:"):
                hit = exc is not None and f"exception:{type(exc).__name__}" == sig
            else:
                hit = exc is None and not nerr and any(s == sig for s, _ in judge(sub, sol))
            if hit:
                bounds = sub
                changed = True
                break
    return bounds


def atoms(value) -> list:
    st = _st()
    if isinstance(value, st["MultiValuedValue"]):
        out = []
        for v in value.vals:
            out.extend(atoms(v))
        return out
    return [value]


def participants(bounds: list, sig: str, solution) -> list:
    """The violated bound plus the bounds the returned value was taken from (observed by comparing values)."""
    st = _st()
    clause_kind = {"lower": "L", "upper": "U"}.get(sig, "O")
    violated = None
    for b in bounds:
        if kind_of(b) == clause_kind and any(s == sig for s, _ in judge([b], solution)):
            violated = b
            break
    if violated is None or solution is None:
        return list(bounds)
    if isinstance(solution, st["AnyValue"]):
        return [violated]
    prov = None
    for b in bounds:
        if kind_of(b) == "O" and any(solution == c for c in b.constraints):
            prov = [b]
    if prov is None:
        sol_atoms = atoms(solution)
        for k in ("L", "U"):
            cand = [b for b in bounds if kind_of(b) == k and all(a in sol_atoms for a in atoms(b.value))]
            covered = [a for b in cand for a in atoms(b.value)]
            if cand and all(a in covered for a in sol_atoms):
                prov = cand
                break
    if prov is None:
        return list(bounds)
    out = [violated]
    for b in prov:
        if b not in out:
            out.append(b)
    return out


def relation_features(bounds: list) -> str:
    """Structural relation among same-kind bounds: are there mutually incomparable lower / upper bounds?"""
    feats = []
    for k in ("L", "U"):
        vs = [b.value for b in bounds if kind_of(b) == k]
        if len(vs) >= 2:
            inc = any(not accepts(a, b) and not accepts(b, a) for a, b in itertools.combinations(vs, 2))
            feats.append(f"{k}:{'incomparable' if inc else 'comparable'}")
    return ",".join(feats) or "-"


def kinds_text(bounds) -> str:
    return "+".join(sorted(kind_of(b) for b in bounds))


def classify(bounds: list, sig: str) -> tuple:
    """-> (mechanism features 'kinds|relation|clause', minimised bound list, solution on the minimised list)"""
    small = minimise(list(bounds), sig)
    sol, _, _ = solve_once(small)
    if sig.startswith("exception:") or sig == "order-dependent":
        parts = small
    else:
        parts = participants(small, sig, sol)
    rel = matching_feature(small) if sig.startswith("constraint:Any") else relation_features(parts)
    return f"{kinds_text(parts)}|{rel}|{sig}", small, sol


def matching_feature(bounds: list) -> str:
    """For an Any answer to a constrained variable: how many declared constraints accept the other bounds' values
    (all lower bounds if there are any, else all upper bounds) - 0, 1 or 2+ (2+ = 'ambiguous')."""
    cons = [b for b in bounds if kind_of(b) == "O"]
    if not cons:
        return "-"
    anchor = [b.value for b in bounds if kind_of(b) == "L"] or [b.value for b in bounds if kind_of(b) == "U"]
    n = sum(1 for c in cons[-1].constraints if all(accepts(c, v) for v in anchor))
    return f"matching:{'2+' if n >= 2 else n}"


VALUE_SIGS = ("lower", "upper", "constraint:")


def is_value_sig(sig: str) -> bool:
    return sig.startswith(VALUE_SIGS) or sig.startswith("exception:")


def nontrivial_multiset(ids: tuple) -> bool:
    if len({k for k, _ in ids}) >= 2:
        return True
    return "incomparable" in relation_features([make_bound(b) for b in ids if b[0] in ("L", "U")])


def report_sequence(ctx, seq: tuple, sig: str, text: str) -> None:
    """seq: ordered bound ids for which the solver reported no error but clause `sig` is broken."""
    ids_of = {}
    bounds = []
    for bid in seq:
        b = make_bound(bid)
        ids_of[id(b)] = bid
        bounds.append(b)
    feats, small, sol = classify(bounds, sig)
    small_ids = [ids_of[id(b)] for b in small]
    broken = [t for s, t in judge(small, sol) if s == sig] if sol is not None else []
    what = (
        f"bounds [{', '.join(bound_text(b) for b in small_ids)}] (in this order): no error, "
        f"{broken[0] if broken else text}"
    )
    what = what.replace(__name__ + ".", "")
    ctx.violation(f"direct|{feats}", what, {"kind": "direct", "bounds": [list(b) for b in small_ids], "sig": sig})


def report_order_dependence(ctx, ids: tuple, found: dict) -> None:
    perm, text = found["order-dependent"]
    if any(is_value_sig(s) for s in found):
        # the flip is a consequence of a wrong value this very multiset already exhibits (reported under that clause)
        ctx.count("order_dependent_multisets_explained_by_value_violation")
        return
    seen = set()
    for i in range(len(ids)):
        sub = ids[:i] + ids[i + 1:]
        if sub and sub not in seen:
            seen.add(sub)
            if "order-dependent" in analyse(sub):
                ctx.count("order_dependent_multisets_subsumed_by_smaller")
                return
    bounds = [make_bound(b) for b in ids]
    key = f"direct|{kinds_text(bounds)}|{relation_features(bounds)}|order-dependent"
    what = f"bounds [{', '.join(bound_text(b) for b in perm)}]: {text}"
    ctx.violation(key, what, {"kind": "direct", "bounds": [list(b) for b in perm], "sig": "order-dependent"})


def check_multiset(ctx, ids: tuple) -> None:
    found = analyse(ids, ctx)
    ctx.count("evaluations")
    ctx.count("multisets")
    ctx.histo("multisets_by_kinds", "+".join(sorted(k for k, _ in ids)))
    if nontrivial_multiset(ids):
        ctx.nontrivial(ids)
    for sig, (perm, text) in found.items():
        ctx.histo("broken_clause_all_multisets", sig)
        if sig == "order-dependent":
            report_order_dependence(ctx, ids, found)
        else:
            report_sequence(ctx, perm, sig, text)


def direct_part(ctx) -> None:
    bids = bound_ids(ctx.tier)
    ctx.count("bound_objects_in_pool", len(bids) if ctx.shard == 0 else 0)
    demo = (("L", "bool"), ("L", "int"), ("O", "int,float"), ("U", "float"))
    sol, nerr, _ = solve_once([make_bound(b) for b in demo])
    ctx.sample({"direct": [bound_text(b) for b in demo], "solution": str(sol), "errors": nerr})
    idx = 0
    for size in (1, 2, 3, 4):
        # resolve_bounds_map drops duplicate bounds first, so repetition is only enumerated up to size 3 in quick
        gen = itertools.combinations if (size == 4 and ctx.quick) else itertools.combinations_with_replacement
        for ids in gen(bids, size):
            idx += 1
            if not ctx.mine(idx):
                continue
            check_multiset(ctx, tuple(sorted(ids)))
    if ctx.tier == "thorough":
        n = 2500
        for _ in range(n):
            ids = tuple(sorted(ctx.rng.sample(bids, 5)))
            if sum(1 for k, _ in ids if k == "O") > 2:
                continue
            ctx.count("size5_multisets")
            check_multiset(ctx, ids)


# ---------------------------------------------------------------------------
# end-to-end part

PRELUDE = '''
from typing import Callable, Optional, TypeVar, Union
from typing_extensions import reveal_type
T = TypeVar("T"); U = TypeVar("U"); K = TypeVar("K"); V = TypeVar("V")
TB = TypeVar("TB", bound=float)
TA = TypeVar("TA", bound="A")
TC = TypeVar("TC", int, str)
TF = TypeVar("TF", int, float)
TAC = TypeVar("TAC", "A", "C")
TN = TypeVar("TN", Optional[int], Optional[str])
class A: pass
class B(A): pass
class C: pass
def cb_i(x: int) -> None: pass
def cb_s(x: str) -> None: pass
def cb_o(x: object) -> None: pass
def cb_f(x: float) -> None: pass
def cb_b(x: bool) -> None: pass
def cb_A(x: A) -> None: pass
def cb_B(x: B) -> None: pass
def cb_C(x: C) -> None: pass
def cb_ios(x: Union[int, str]) -> None: pass
def cb_i_s(x: int) -> str: return ""
def cb_s_i(x: str) -> int: return 0
def cb_o_A(x: object) -> A: return A()
'''
CALLER_PARAMS = (
    "i: int, s: str, fl: float, o: object, bo: bool, li: list[int], lo: list[object], ls: list[str], lb: list[bool], "
    "a: A, b: B, c: C, ios: Union[int, str], ion: Optional[int], dis: dict[int, str], dss: dict[str, str], "
    "dos: dict[object, str], dbs: dict[bool, str], dAi: dict[A, int]"
)
PLAIN = ["1", "True", "1.5", "'x'", "None", "i", "s", "fl", "o", "bo", "li", "lo", "a", "b", "c", "ios", "ion", "[1]"]
LISTS = ["li", "lo", "ls", "lb", "[1]", "['x']", "[]"]
DICTS = ["dis", "dss", "dos", "dbs", "dAi", "{1: 'x'}", "{}"]
CBS_NONE = ["cb_i", "cb_s", "cb_o", "cb_f", "cb_b", "cb_A", "cb_B", "cb_C", "cb_ios"]
CBS_RET = CBS_NONE + ["cb_i_s", "cb_s_i", "cb_o_A"]

# family -> (parameter annotations, return annotation, argument pools per parameter)
FAMILIES = {
    "T,T": (["T", "T"], "T", [PLAIN, PLAIN]),
    "list[T],T": (["list[T]", "T"], "T", [LISTS, PLAIN]),
    "dict[K,V],K": (["dict[K, V]", "K"], "V", [DICTS, PLAIN]),
    "Callable[[T],U],T": (["Callable[[T], U]", "T"], "U", [CBS_RET, PLAIN]),
    "Callable[[T],None]x2": (["Callable[[T], None]", "Callable[[T], None]"], "T", [CBS_NONE, CBS_NONE]),
    "Callable[[T],None]x2,T": (["Callable[[T], None]", "Callable[[T], None]", "T"], "T",
                               [CBS_NONE[:6], CBS_NONE[:6], ["1", "True", "'x'", "i", "s", "fl", "a", "b", "None"]]),
    "T,T,T": (["T", "T", "T"], "T", [["1", "i", "s", "fl", "b", "None"], ["True", "i", "o", "a", "ios"], ["'x'", "s", "bo", "c", "ion"]]),
    "bound:TB,TB": (["TB", "TB"], "TB", [PLAIN, PLAIN]),
    "bound:list[TB],TB": (["list[TB]", "TB"], "TB", [LISTS, PLAIN]),
    "bound:Callable[[TB],None],TB": (["Callable[[TB], None]", "TB"], "TB", [CBS_NONE, PLAIN]),
    "bound:Callable[[TB],None]x2": (["Callable[[TB], None]", "Callable[[TB], None]"], "TB", [CBS_NONE, CBS_NONE]),
    "bound:TA,TA": (["TA", "TA"], "TA", [PLAIN, PLAIN]),
    "constrained:TC,TC": (["TC", "TC"], "TC", [PLAIN, PLAIN]),
    "constrained:list[TC],TC": (["list[TC]", "TC"], "TC", [LISTS, PLAIN]),
    "constrained:Callable[[TC],None],TC": (["Callable[[TC], None]", "TC"], "TC", [CBS_NONE, PLAIN]),
    "constrained:Callable[[TC],None]x2": (["Callable[[TC], None]", "Callable[[TC], None]"], "TC", [CBS_NONE, CBS_NONE]),
    "constrained:TF,TF": (["TF", "TF"], "TF", [PLAIN, PLAIN]),
    "constrained:TAC,TAC": (["TAC", "TAC"], "TAC", [PLAIN, PLAIN]),
    "constrained:TN,TN": (["TN", "TN"], "TN", [PLAIN, PLAIN]),
}
FAMILY_NAMES = list(FAMILIES)

_INSITU = {"on": False, "log": [], "installed": False}


def install_insitu() -> None:
    if _INSITU["installed"]:
        return
    import pyanalyze.signature as sigmod

    orig = sigmod.resolve_bounds_map

    def recording_resolve_bounds_map(bounds_map, ctx, **kw):
        res = orig(bounds_map, ctx, **kw)
        if _INSITU["on"]:
            try:
                checking = ctx._is_checking()
                line = getattr(getattr(ctx, "current_statement", None), "lineno", None)
            except Exception:  # noqa: BLE001
                checking, line = None, None
            if checking:
                _INSITU["log"].append((line, {tv: list(bs) for tv, bs in bounds_map.items()}, res))
        return res

    sigmod.resolve_bounds_map = recording_resolve_bounds_map
    _INSITU["installed"] = True


def fname(fam: str, perm) -> str:
    return f"f{FAMILY_NAMES.index(fam)}_" + "".join(map(str, perm))


def e2e_source(cases) -> tuple:
    """cases: list of (family, args tuple).  -> (source, {(case index, perm): lineno})"""
    lines = [PRELUDE]
    fams = []
    for fam, _ in cases:
        if fam not in fams:
            fams.append(fam)
    for fam in fams:
        anns, ret, _ = FAMILIES[fam]
        for perm in itertools.permutations(range(len(anns))):
            params = ", ".join(f"p{j}: {anns[j]}" for j in perm)
            lines.append(f"def {fname(fam, perm)}({params}) -> {ret}: raise NotImplementedError")
    lines.append(f"def caller({CALLER_PARAMS}):")
    source = "\n".join(lines)
    lineno = source.count("\n") + 1
    where = {}
    body = []
    for ci, (fam, args) in enumerate(cases):
        for perm in itertools.permutations(range(len(args))):
            call = f"{fname(fam, perm)}({', '.join(args[j] for j in perm)})"
            body.append(f"    reveal_type({call})")
            lineno += 1
            where[(ci, perm)] = lineno
    return source + "\n" + "\n".join(body) + "\n", where


def diag_class(ds) -> str:
    if not ds:
        return "accepted"
    d = ds[0].description
    d = re.sub(r"^In call to [^:]*: ", "", d)
    d = re.sub(r" for p\d+", " for P", d)
    d = re.sub(r"expected .*", "expected ...", d, flags=re.S)
    return f"{ds[0].code}:{d[:60]}"


def check_e2e_batch(ctx, cases) -> None:
    install_insitu()
    source, where = e2e_source(cases)
    _INSITU["log"] = []
    _INSITU["on"] = True
    try:
        res = harness.run(source)
    finally:
        _INSITU["on"] = False
    log = _INSITU["log"]
    _INSITU["log"] = []
    if res.exception is not None:
        ctx.violation(f"e2e|harness-exception|{type(res.exception).__name__}", f"check raised {res.exception!r}",
                      {"kind": "e2e-batch", "cases": [[f, list(a)] for f, a in cases]})
        return
    by_line = res.by_line()
    reveals = harness.reveal_types(res)
    insitu_by_line: dict = {}
    for line, bmap, r in log:
        insitu_by_line.setdefault(line, []).append((bmap, r))
    for ci, (fam, args) in enumerate(cases):
        ctx.count("evaluations")
        ctx.count("e2e_cases")
        ctx.nontrivial(("e2e", fam, args))
        verdicts = {}
        revealed = {}
        anns = FAMILIES[fam][0]
        wit = {"kind": "e2e", "family": fam, "args": list(args)}
        value_violations = []
        for perm in itertools.permutations(range(len(args))):
            line = where[(ci, perm)]
            ds = [d for d in by_line.get(line, []) if d.code in E2E_CODES]
            for d in by_line.get(line, []):
                if d.code not in E2E_CODES and d.code != "reveal_type":
                    ctx.histo("e2e_other_codes_on_call_lines", d.code)
            ctx.count("e2e_calls_checked")
            ctx.count("e2e_diagnosed" if ds else "e2e_accepted")
            ctx.histo("e2e_verdict_by_family", f"{fam}:{'diagnosed' if ds else 'accepted'}")
            verdicts[perm] = ds
            rv = (reveals.get(line) or ["<none>"])[0]
            revealed[perm] = rv
            if perm == tuple(range(len(args))):
                ctx.histo("e2e_revealed_type", f"{fam} -> {rv}")
            kinds_seen = set()
            for bmap, (tv_map, errors) in insitu_by_line.get(line, []):
                for tvar, raw_bounds in bmap.items():
                    bounds = list(dict.fromkeys(raw_bounds))
                    kinds_seen.add(kinds_text(bounds))
                    if ds or errors:
                        continue  # the call is diagnosed: the property asks nothing of the value
                    sol = tv_map.get(tvar)
                    if sol is None:
                        continue
                    ctx.count("e2e_insitu_checked")
                    for sig, text in judge(bounds, sol):
                        value_violations.append((perm, tvar, bounds, sol, sig, text, rv))
            for k in kinds_seen:
                ctx.histo("e2e_insitu_bound_kinds", k)
        flags = {p: bool(ds) for p, ds in verdicts.items()}
        flips = len(set(flags.values())) > 1
        flip_text = ""
        if flips:
            acc = next(p for p, f in flags.items() if not f)
            dia = next(p for p, f in flags.items() if f)
            flip_text = (
                f"def f({', '.join(anns[j] for j in acc)}) called with ({', '.join(args[j] for j in acc)}) is accepted "
                f"(revealed {revealed[acc]}); with parameters and arguments reordered to ({', '.join(anns[j] for j in dia)}) / "
                f"({', '.join(args[j] for j in dia)}) it is diagnosed: {verdicts[dia][0].short()}"
            )
        reported = set()
        for perm, tvar, bounds, sol, sig, text, rv in value_violations:
            feats, small, _ = classify(bounds, sig)
            key = f"e2e|{feats}"
            if key in reported:
                continue
            reported.add(key)
            what = (
                f"def f({', '.join(anns[j] for j in perm)}) called with ({', '.join(args[j] for j in perm)}) is accepted "
                f"(revealed {rv}); the solver was given [{'; '.join(harness.normalise_text(str(b)) for b in bounds)}] and chose "
                f"{tvar} = {harness.normalise_text(str(sol))}: {harness.normalise_text(text)}"
            )
            if flips:
                what += " -- the verdict also flips with the argument order: " + flip_text
            ctx.violation(key, what, dict(wit, clause=sig))
        if flips:
            if value_violations:
                ctx.count("e2e_order_flips_explained_by_value_violation")
            else:
                ctx.violation(f"e2e|{fam}|order-dependent|{diag_class(verdicts[dia])}", flip_text,
                              dict(wit, clause="order-dependent"))
        elif len(set(revealed.values())) > 1:
            ctx.count("e2e_revealed_type_varies_with_order_nondeciding")
            ctx.histo("e2e_reveal_varies_family_nondeciding", fam)
    if len(ctx.samples) < 3:
        fam, args = cases[0]
        ctx.sample({"family": fam, "args": list(args)})


def e2e_part(ctx) -> None:
    cases = []
    idx = 0
    for fam in FAMILY_NAMES:
        pools = FAMILIES[fam][2]
        for args in itertools.product(*pools):
            idx += 1
            if ctx.mine(idx):
                cases.append((fam, tuple(args)))
    # keep each batch below BATCH call lines
    batch, n = [], 0
    for case in cases:
        k = 2 if len(case[1]) == 2 else 6
        if n + k > BATCH and batch:
            check_e2e_batch(ctx, batch)
            batch, n = [], 0
        batch.append(case)
        n += k
    if batch:
        check_e2e_batch(ctx, batch)


def shard(ctx) -> None:
    direct_part(ctx)
    e2e_part(ctx)


def replay(witness):
    from vp.core import Ctx

    ctx = Ctx(ID, "quick", 0, 0, 1)
    kind = witness.get("kind")
    if kind == "direct":
        seq = tuple(tuple(b) for b in witness["bounds"])
        want = witness.get("sig")
        if want == "order-dependent":
            ids = tuple(sorted(seq))
            found = analyse(ids)
            if "order-dependent" in found:
                report_order_dependence(ctx, ids, found)
        else:
            bounds = [make_bound(b) for b in seq]
            sol, nerr, exc = solve_once(bounds)
            if exc is not None:
                sigs = [(f"exception:{type(exc).__name__}", repr(exc))]
            elif nerr:
                sigs = []
            else:
                sigs = judge(bounds, sol)
            for sig, text in sigs:
                if want is None or sig == want:
                    report_sequence(ctx, seq, sig, text)
                    break
    elif kind == "e2e":
        check_e2e_batch(ctx, [(witness["family"], tuple(witness["args"]))])
    elif kind == "e2e-batch":
        check_e2e_batch(ctx, [(f, tuple(a)) for f, a in witness["cases"]])
    else:
        return None
    want = witness.get("clause") or witness.get("sig")
    best = None
    for key, lst in ctx.violations.items():
        if want is not None and (key.endswith("|" + want) or f"|{want}|" in key):
            return key, lst[0]["what"]
        if best is None:
            best = (key, lst[0]["what"])
    return best if want is None else None
