"""C15 — type-variable solutions satisfy the bounds they were solved from.

Monitor, two parts, both observing the real pyanalyze:

(1) direct: `pyanalyze.typevar.resolve_bounds_map` is fed every multiset of <= 4 public Bound objects
    (LowerBound / UpperBound / IsOneOf / OrBound over a pool of static values) in EVERY permutation, with a real
    `Checker()` as context.  The oracle is pyanalyze's own assignability relation applied to the value that came
    back: every LowerBound(v) needs solution.is_assignable(v), every UpperBound(v) needs v.is_assignable(solution),
    IsOneOf(cs) needs solution == some c in cs.  No error + a violated bound = violation; no error although no value
    can exist (a lower bound some upper bound rejects / no declared constraint fits) = violation; the same multiset
    giving "error" in one permutation and "no error" in another = order-dependent.  "Special" bounds - a lower bound
    Any of every AnySource the checker produces for arguments, list[Any] as lower and upper bound, an upper bound
    Any - join the ordinary multisets in every position (special_part).
(2) end-to-end: generic functions are called with literal / typed / Any-typed arguments in a never-called function;
    every permutation of (parameters, arguments) together must get the same verdict; for *accepted* calls the solver
    invocation of that call (observed in situ through a recording wrapper around signature.resolve_bounds_map) is
    put through the same oracle, and the ARGUMENTS themselves (observed through a recording wrapper around
    Signature._check_param_type_compatibility: which value met which annotation) are judged against the declared
    bound / constraints and the chosen solution.  Generic callees with defaults come in twin groups that differ only
    in the default: explicit arguments must get the same verdict from every twin.
"""
from __future__ import annotations

import itertools
import re

from vp import harness

ID = "C15"
LEVEL = "exploration"
TECHNIQUE = "runtime monitoring: algebraic oracle (pyanalyze's own is_assignable) on real solver return values + permutation differential"
RULE = (
    "direct case = a multiset of Bound objects: LowerBound/UpperBound over a 14-value pool (bool,int,float,str,object,"
    "None,Literal[1],list[int],list[object],int|str,int|None,A,B(A),C; thorough 21 values: + Literal['x'],complex,"
    "bytes,Literal[True],A|C,list[A],list[B]), IsOneOf over 6 [thorough 10] constraint lists, 1 [2] OrBound; "
    "enumerated EXHAUSTIVELY for sizes 1..4 (quick: with repetition up to size 3, size 4 without - the solver drops "
    "duplicates first; thorough: with repetition throughout), every distinct permutation passed to "
    "resolve_bounds_map; thorough adds a seeded sample of size-5 sets, all 120 permutations each. PLUS 8 special "
    "bounds - T >= Any[explicit|unannotated|from_another|inference|generic_argument], T >= list[Any], T <= list[Any], "
    "T <= Any[explicit]: each joins every multiset of 1..2 ordinary bounds, each pair of them joins every multiset of "
    "0..1 [thorough 0..2] ordinary bounds, and every 3-set of ordinary bounds gets one in rotation (quick: when the "
    "set has an ordinary bound of the special's kind; thorough: one Any lower bound + one of the other three) - all "
    "permutations, so Any stands in every position. Non-trivial = the "
    "multiset has >= 2 mutually incomparable bounds of one kind, or bounds of >= 2 different kinds; distinct by "
    "multiset. end-to-end case = (generic signature family, argument tuple): 19 families (T,T / list[T],T / "
    "dict[K,V],K / Callable[[T],U],T / two Callable[[T],None] / the same + T / T,T,T / bounded / constrained) x the "
    "cross product of literal and typed argument expressions (incl. an Any-typed argument, list[Any], a callback "
    "taking Any); 5 three-parameter 'any:' families (TC,TC,TC / TB,TB,TB / T,T,Callable[[T],None] / LT,LT,LT with LT "
    "in (list[int],list[str]) / list[T],list[T],T) whose first argument is Any of each AnySource (any_, un, un.x, "
    "getattr(un,'x'), bl[0]) or partially Any (list[Any], [any_], bare list, Any|Literal) and whose other two range "
    "over values that do / do not conflict under the constraints, the bound or the callback's parameter; Type[T] "
    "families (class objects as arguments; alone, twice, with bound, with constraints); Union[T,list[T]] families; "
    "'tv:' families (arguments typed with the generic caller's own type variables); every permutation of "
    "parameters+arguments is checked in one generated module, the verdicts compared, reveal_type of each call "
    "recorded, the solver call made for each accepted call judged in situ by the same oracle, and the argument "
    "values judged against the declaration. 'dflt:' twin groups = {T,TB,TC} x {(tv) / (tv,tv) / (list[tv])} x "
    "{positional, keyword-only} x 6 defaults of the last parameter (None,0,1.5,'x',[],['a'] - satisfying or "
    "violating the bound/constraints), called with the parameter omitted, passed each of the 6 default expressions "
    "(so equal to exactly one twin's default) and passed an int / an Any; all twins of a group in one module."
)
LEVEL_TEXT = (
    "exhaustive over the stated bound pool up to 4 bounds in all orders (so every key is seed-independent); sampled "
    "beyond; the oracle is pyanalyze's own assignability relation, so a defect shared by solver and relation is "
    "invisible here (C03/C04 own the relation)"
)
ASSUMPTIONS = [
    "the oracle is pyanalyze's own Value.is_assignable with a fresh Checker() (the relation the property's wording "
    "'accepts' refers to); a tiny membership model over runtime objects is reported as a secondary histogram only",
    "IsOneOf: 'is one of the declared constraints' = solution == c for some declared c; an Any solution for "
    "Any-free bounds is not one of them",
    "'no such value exists' is only claimed when it can be shown from Any-free bounds: pure-Any bounds demand nothing, "
    "the oracle abstains when a bound is partially Any (list[Any], bare list), otherwise a lower bound that some upper "
    "bound does not accept (transitivity) or, with constraint lists, no declared constraint that accepts every lower "
    "bound and is accepted by every upper bound",
    "OrBound is not mentioned by the property statement's direct quantifier: in the direct part recorded (orbound_* "
    "histogram), never deciding; end-to-end (a Union[T, list[T]] parameter) it takes part in the existence clause as a "
    "disjunction",
    "end-to-end 'diagnosed' = incompatible_call / incompatible_argument on the call's line; 'accepted' = none",
    "end-to-end 'argument-derived lower bound' is evaluated for parameters annotated with the bare type variable (the "
    "argument's inferred value IS the lower bound); an omitted parameter's default is not an argument; an IsOneOf "
    "that is not the variable's own declaration (constraints of a type variable the argument is typed with) is "
    "counted, not demanded",
    "twin oracle: two generic callees that differ only in a default value must give the same verdict to a call that "
    "passes every parameter explicitly",
    "in-situ observation rebinds pyanalyze.signature.resolve_bounds_map and "
    "Signature._check_param_type_compatibility to pass-through recording wrappers",
    "mechanism keys: a minimal violating bound list that contains (partially) Any lower/upper bounds is keyed "
    "any-bound[kind:class] whatever the symptom (naming only; never deciding)",
]
FLOORS = {
    "quick": {"distinct_nontrivial": 39000, "multisets": 36000, "special_multisets": 5700, "solver_calls": 730000,
              "verdict_error": 680000, "verdict_ok": 50000, "e2e_cases": 3600, "e2e_accepted": 3500,
              "e2e_diagnosed": 5500, "e2e_insitu_checked": 7300, "e2e_special_calls": 4100,
              "e2e_argument_oracle_checked": 3500, "e2e_twin_groups_compared": 108, "e2e_default_omitted_calls": 72},
    "thorough": {"distinct_nontrivial": 230000, "multisets": 230000, "size5_multisets": 19000, "special_multisets": 50000,
                 "solver_calls": 5000000, "verdict_ok": 250000, "e2e_cases": 3600, "e2e_insitu_checked": 7300,
                 "e2e_special_calls": 4100, "e2e_argument_oracle_checked": 3500, "e2e_twin_groups_compared": 108},
}
NSHARDS = 16
WATCHDOG_S = {"quick": 900, "thorough": 7200}
EXHAUSTIVE = {"quick": False, "thorough": False}
E2E_CODES = {"incompatible_call", "incompatible_argument"}
BATCH = 240


class A:
    pass


class B(A):
    pass


class C:
    pass


# ---------------------------------------------------------------------------
# pool

_STATE: dict = {}


def _st():
    if _STATE:
        return _STATE
    from typing import TypeVar

    from pyanalyze.checker import Checker
    from pyanalyze.value import (
        AnySource,
        AnyValue,
        GenericValue,
        IsOneOf,
        KnownValue,
        LowerBound,
        MultiValuedValue,
        OrBound,
        TypedValue,
        UpperBound,
    )

    T = TypeVar("T")
    tv = lambda t: TypedValue(t)  # noqa: E731
    vals = {
        "bool": tv(bool), "int": tv(int), "float": tv(float), "str": tv(str), "object": tv(object),
        "None": KnownValue(None), "Literal[1]": KnownValue(1), "Literal['x']": KnownValue("x"),
        "list[int]": GenericValue(list, [tv(int)]), "list[object]": GenericValue(list, [tv(object)]),
        "int|str": MultiValuedValue([tv(int), tv(str)]), "int|None": MultiValuedValue([tv(int), KnownValue(None)]),
        "A": tv(A), "B": tv(B), "C": tv(C),
        # thorough only / helper values
        "complex": tv(complex), "bytes": tv(bytes), "Literal[True]": KnownValue(True),
        "A|C": MultiValuedValue([tv(A), tv(C)]), "list[A]": GenericValue(list, [tv(A)]),
        "list[B]": GenericValue(list, [tv(B)]),
        "str|None": MultiValuedValue([tv(str), KnownValue(None)]),
        # "special" values: every AnySource the checker produces for call arguments, and a partially-Any generic
        "list[Any]": GenericValue(list, [AnyValue(AnySource.explicit)]),
        "list[str]": GenericValue(list, [tv(str)]),
    }
    for src in ANY_SOURCES:
        vals[f"Any[{src}]"] = AnyValue(getattr(AnySource, src))
    _STATE.update(
        T=T, vals=vals, checker=Checker(), LowerBound=LowerBound, UpperBound=UpperBound, IsOneOf=IsOneOf,
        OrBound=OrBound, AnyValue=AnyValue, KnownValue=KnownValue, TypedValue=TypedValue,
        GenericValue=GenericValue, MultiValuedValue=MultiValuedValue, cache={}, memo={},
    )
    return _STATE


ANY_SOURCES = ["explicit", "unannotated", "from_another", "inference", "generic_argument"]
# bounds that are only enumerated TOGETHER WITH multisets of the ordinary pool (see special_part)
SPECIAL_BOUNDS = [("L", f"Any[{src}]") for src in ANY_SOURCES] + [("L", "list[Any]"), ("U", "list[Any]"),
                                                                  ("U", "Any[explicit]")]
QUICK_VALUES = ["bool", "int", "float", "str", "object", "None", "Literal[1]", "list[int]", "list[object]", "int|str",
                "int|None", "A", "B", "C"]
THOROUGH_VALUES = QUICK_VALUES + ["Literal['x']", "complex", "bytes", "Literal[True]", "A|C", "list[A]", "list[B]"]
QUICK_CONSTRAINTS = ["int,str", "int,float", "A,C", "A,B", "int|None,str|None", "list[int],list[object]"]
THOROUGH_CONSTRAINTS = QUICK_CONSTRAINTS + ["str,bytes", "float,str", "object,int", "B,C"]
QUICK_ORBOUNDS = ["L:int/L:str"]
THOROUGH_ORBOUNDS = QUICK_ORBOUNDS + ["U:int/U:A"]


def bound_ids(tier: str) -> list:
    """Bound identifiers are JSON-able pairs (kind, name)."""
    quick = tier == "quick"
    values = QUICK_VALUES if quick else THOROUGH_VALUES
    out = [("L", v) for v in values] + [("U", v) for v in values]
    out += [("O", c) for c in (QUICK_CONSTRAINTS if quick else THOROUGH_CONSTRAINTS)]
    out += [("Or", o) for o in (QUICK_ORBOUNDS if quick else THOROUGH_ORBOUNDS)]
    return out


_BOUNDS: dict = {}


def make_bound(bid):
    b = _BOUNDS.get(bid)
    if b is None:
        b = _BOUNDS[bid] = _make_bound(bid)
    return b


def _make_bound(bid):
    st = _st()
    kind, name = bid
    T, vals = st["T"], st["vals"]
    if kind == "L":
        return st["LowerBound"](T, vals[name])
    if kind == "U":
        return st["UpperBound"](T, vals[name])
    if kind == "O":
        return st["IsOneOf"](T, tuple(vals[n] for n in name.split(",")))
    if kind == "Or":
        alts = []
        for alt in name.split("/"):
            k, n = alt.split(":")
            alts.append((make_bound((k, n)),))
        return st["OrBound"](tuple(alts))
    raise ValueError(bid)


def bound_text(bid) -> str:
    kind, name = bid
    return {"L": f"T >= {name}", "U": f"T <= {name}", "O": f"T in ({name})", "Or": f"Or({name})"}[kind]


# ---------------------------------------------------------------------------
# oracle (pyanalyze's own relation, memoised)


def accepts(left, right) -> bool:
    """left.is_assignable(right): does `left` accept `right`."""
    st = _st()
    cache = st["cache"]
    try:
        k = (left, right)
        r = cache.get(k)
    except TypeError:
        return left.is_assignable(right, st["checker"])
    if r is None:
        r = left.is_assignable(right, st["checker"])
        cache[k] = r
    return r


def has_any(value) -> bool:
    """Any somewhere inside - explicitly, or implicitly as the missing arguments of a bare generic class (`x: list`)"""
    st = _st()
    AnyValue, TypedValue = st["AnyValue"], st["TypedValue"]
    for v in value.walk_values():
        if isinstance(v, AnyValue):
            return True
        if type(v) is TypedValue and isinstance(v.typ, type) and hasattr(v.typ, "__class_getitem__"):
            return True
    return False


def bound_has_any(b) -> bool:
    st = _st()
    if isinstance(b, (st["LowerBound"], st["UpperBound"])):
        return has_any(b.value)
    if isinstance(b, st["IsOneOf"]):
        return any(has_any(c) for c in b.constraints)
    if isinstance(b, st["OrBound"]):
        return any(bound_has_any(x) for alt in b.bounds for x in alt)
    return True


def kind_of(b) -> str:
    st = _st()
    if isinstance(b, st["LowerBound"]):
        return "L"
    if isinstance(b, st["UpperBound"]):
        return "U"
    if isinstance(b, st["IsOneOf"]):
        return "O"
    if isinstance(b, st["OrBound"]):
        return "Or"
    return type(b).__name__


def judge(bounds, solution) -> list:
    """Which clauses of the property does `solution` break for these Bound objects?  -> list of (sig, text)."""
    st = _st()
    out = []
    anyfree = not any(bound_has_any(b) for b in bounds)
    for b in bounds:
        k = kind_of(b)
        if k == "L":
            if not accepts(solution, b.value):
                out.append(("lower", f"solution {solution} does not accept lower bound {b.value}"))
        elif k == "U":
            if not accepts(b.value, solution):
                out.append(("upper", f"upper bound {b.value} does not accept solution {solution}"))
        elif k == "O":
            if not any(solution == c for c in b.constraints):
                if isinstance(solution, st["AnyValue"]):
                    if anyfree:
                        out.append((f"constraint:Any[{solution.source.name}]",
                                    f"solution {solution} is none of the constraints ({', '.join(map(str, b.constraints))})"))
                else:
                    out.append(("constraint:non-member",
                                f"solution {solution} is none of the constraints ({', '.join(map(str, b.constraints))})"))
    return out


def or_satisfied(b, solution) -> bool:
    for alt in b.bounds:
        if not judge(list(alt), solution):
            return True
    return False


def unsat(bounds, use_or: bool = False):
    """A reason why NO value of the type variable can satisfy `bounds` (then the property demands a diagnosis), or
    None when that cannot be shown.  Pure-Any bounds demand nothing; existence is judged over Any-free candidates, so
    the oracle abstains as soon as a bound is partially Any (list[Any] is accepted by, and accepts, list[X] for every
    X - such a value can bridge two otherwise incompatible bounds).  With constraint lists the candidates are finite
    (each declared constraint is tried); without, a lower bound that some upper bound does not accept is a proof by
    transitivity.  An OrBound (a disjunction) only takes part with use_or=True: unsatisfiable when every alternative
    is, together with the rest (the property statement's direct quantifier does not mention OrBound: the direct part
    leaves it non-deciding, the end-to-end part - where it stands for a Union[T, list[T]] parameter - uses it)."""
    st = _st()
    AnyValue = st["AnyValue"]
    lowers, uppers, cons, ors, plain = [], [], [], [], []
    for b in bounds:
        k = kind_of(b)
        if k in ("L", "U"):
            plain.append(b)
            if isinstance(b.value, AnyValue):
                continue
            if has_any(b.value):
                return None
            (lowers if k == "L" else uppers).append(b.value)
        elif k == "O":
            plain.append(b)
            if any(has_any(c) for c in b.constraints):
                return None
            cons.append(b.constraints)
        elif k == "Or":
            ors.append(b)
        else:
            return None
    if cons:
        cands = [c for c in cons[0] if all(c in other for other in cons[1:])]
        if not any(all(accepts(c, lo) for lo in lowers) and all(accepts(u, c) for u in uppers) for c in cands):
            return "no declared constraint accepts every lower bound and is accepted by every upper bound"
    else:
        for lo in lowers:
            for u in uppers:
                if not accepts(u, lo):
                    return f"upper bound {u} does not accept lower bound {lo}, so no value lies between them"
    for ob in ors if use_or else ():
        if all(unsat([*plain, *alt], True) is not None for alt in ob.bounds):
            return "no alternative of the OrBound is satisfiable together with the other bounds"
    return None


UNSAT_SIG = "unsat-accepted"


def broken_clauses(bounds, solution, use_or: bool = False) -> list:
    """judge() plus the existence clause: the solver answered 'no error' although no value exists."""
    out = judge(bounds, solution)
    why = unsat(bounds, use_or)
    if why is not None:
        out.append((UNSAT_SIG, f"solution {solution} returned without error although {why}"))
    return out


# secondary, non-deciding: a membership model over a small universe of runtime objects
_UNIVERSE = [True, 1, 2, 1.5, "x", "y", None, [1], ["a"], [], A(), B(), C(), object(), b"q", 1j]


def members(value):
    st = _st()
    if isinstance(value, st["MultiValuedValue"]):
        s = set()
        for v in value.vals:
            m = members(v)
            if m is None:
                return None
            s |= m
        return s
    if isinstance(value, st["KnownValue"]):
        return {i for i, o in enumerate(_UNIVERSE) if type(o) is type(value.val) and o == value.val}
    if isinstance(value, st["GenericValue"]):
        if value.typ is list and len(value.args) == 1:
            inner = members(value.args[0])
            if inner is None:
                return None
            return {i for i, o in enumerate(_UNIVERSE) if isinstance(o, list)
                    and all(any(e is _UNIVERSE[j] or (type(e) is type(_UNIVERSE[j]) and e == _UNIVERSE[j]) for j in inner) for e in o)}
        return None
    if type(value) is st["TypedValue"]:
        t = value.typ
        if not isinstance(t, type):
            return None
        promo = {float: (float, int), complex: (complex, float, int)}.get(t, (t,))
        return {i for i, o in enumerate(_UNIVERSE) if isinstance(o, promo)}
    return None


def model_report(ctx, bounds, solution) -> None:
    ms = members(solution)
    if ms is None:
        ctx.histo("membership_model", "solution-not-modelled")
        return
    for b in bounds:
        k = kind_of(b)
        if k not in ("L", "U"):
            continue
        mb = members(b.value)
        if mb is None:
            continue
        ok = mb <= ms if k == "L" else ms <= mb
        ctx.histo("membership_model", f"{k}:{'subset-holds' if ok else 'subset-fails'}")


# ---------------------------------------------------------------------------
# direct part


def solve_once(bounds):
    """-> (solution or None, n_errors, exception or None)"""
    from pyanalyze.typevar import resolve_bounds_map

    st = _st()
    try:
        tv_map, errors = resolve_bounds_map({st["T"]: list(bounds)}, st["checker"])
    except Exception as e:  # noqa: BLE001
        return None, 0, e
    return tv_map.get(st["T"]), len(errors), None


def distinct_perms(ids: tuple):
    if len(set(ids)) == len(ids):
        return itertools.permutations(ids)
    return sorted(set(itertools.permutations(ids)))


def analyse(ids: tuple, ctx=None) -> dict:
    """Run every distinct permutation of the multiset `ids` (a sorted tuple of bound ids) through the solver.

    -> {sig: (perm, text)} for every clause signature broken by some permutation (first such permutation)."""
    st = _st()
    memo = st["memo"]
    if ctx is None and ids in memo:
        return memo[ids]
    found: dict = {}
    verdicts: dict = {}
    sols = set()
    for perm in distinct_perms(ids):
        bounds = [make_bound(b) for b in perm]
        sol, nerr, exc = solve_once(bounds)
        if ctx is not None:
            ctx.count("solver_calls")
        if exc is not None:
            found.setdefault(f"exception:{type(exc).__name__}", (perm, f"resolve_bounds_map raised {exc!r}"))
            continue
        if nerr:
            verdicts.setdefault("error", perm)
            if ctx is not None:
                ctx.count("verdict_error")
            continue
        verdicts.setdefault("ok", perm)
        broken = broken_clauses(bounds, sol)
        if ctx is not None:
            ctx.count("verdict_ok")
            ctx.count("bounds_judged", len(bounds))
            sols.add(str(sol))
            for b in bounds:
                if kind_of(b) == "Or":
                    ctx.histo("orbound_non_deciding", "satisfied" if or_satisfied(b, sol) else "not-satisfied")
            if len(ids) <= 2:
                model_report(ctx, bounds, sol)
        for sig, text in broken:
            found.setdefault(sig, (perm, text))
    if len(verdicts) == 2:
        found["order-dependent"] = (
            verdicts["ok"],
            f"no error in this order but an error in order [{', '.join(bound_text(b) for b in verdicts['error'])}]",
        )
    if ctx is not None:
        ctx.histo("verdicts_per_multiset", "+".join(sorted(verdicts)) or "exception")
        if len(sols) > 1:
            ctx.count("multisets_solution_varies_with_order_nondeciding")
    if len(ids) <= 3 or len(memo) < 400000:
        memo[ids] = found
    return found


# --- mechanism classification (never deciding; only names the violation) ------------------------------------


def minimise(bounds: list, sig: str) -> list:
    """Greedy removal, order preserved, while the solver still answers 'no error' and the same clause is broken."""
    changed = True
    while changed and len(bounds) > 1:
        changed = False
        for i in range(len(bounds)):
            sub = bounds[:i] + bounds[i + 1:]
            sol, nerr, exc = solve_once(sub)
            if sig.startswith("exception:"):
                hit = exc is not None and f"exception:{type(exc).__name__}" == sig
            else:
                hit = exc is None and not nerr and any(s == sig for s, _ in broken_clauses(sub, sol))
            if hit:
                bounds = sub
                changed = True
                break
    return bounds


def atoms(value) -> list:
    st = _st()
    if isinstance(value, st["MultiValuedValue"]):
        out = []
        for v in value.vals:
            out.extend(atoms(v))
        return out
    return [value]


def participants(bounds: list, sig: str, solution) -> list:
    """The violated bound plus the bounds the returned value was taken from (observed by comparing values)."""
    st = _st()
    clause_kind = {"lower": "L", "upper": "U"}.get(sig, "O")
    violated = None
    for b in bounds:
        if kind_of(b) == clause_kind and any(s == sig for s, _ in judge([b], solution)):
            violated = b
            break
    if violated is None or solution is None:
        return list(bounds)
    if isinstance(solution, st["AnyValue"]):
        return [violated]
    prov = None
    for b in bounds:
        if kind_of(b) == "O" and any(solution == c for c in b.constraints):
            prov = [b]
    if prov is None:
        sol_atoms = atoms(solution)
        for k in ("L", "U"):
            cand = [b for b in bounds if kind_of(b) == k and all(a in sol_atoms for a in atoms(b.value))]
            covered = [a for b in cand for a in atoms(b.value)]
            if cand and all(a in covered for a in sol_atoms):
                prov = cand
                break
    if prov is None:
        return list(bounds)
    out = [violated]
    for b in prov:
        if b not in out:
            out.append(b)
    return out


def any_class(a, b) -> str:
    AnyValue = _st()["AnyValue"]
    if isinstance(a, AnyValue) or isinstance(b, AnyValue):
        return "Any"
    if has_any(a) or has_any(b):
        return "partial-Any"
    return "Any-free"


def mutual_pairs(bounds: list) -> list:
    """Same-kind bounds that are unequal yet assignable in BOTH directions: -> sorted list of 'L:Any' / 'U:partial-Any'
    / ... (the fold has no preferred survivor for such a pair, so it is the structural feature named in keys)."""
    out = set()
    for k in ("L", "U"):
        vs = [b.value for b in bounds if kind_of(b) == k]
        for a, b in itertools.combinations(vs, 2):
            if a != b and accepts(a, b) and accepts(b, a):
                out.add(f"{k}:{any_class(a, b)}")
    return sorted(out)


def relation_features(bounds: list) -> str:
    """Structural relation among same-kind bounds: is there a mutually assignable (unequal) pair; otherwise are
    there mutually incomparable lower / upper bounds?"""
    mutual = mutual_pairs(bounds)
    if mutual:
        return "mutually-assignable[" + ",".join(mutual) + "]"
    feats = []
    for k in ("L", "U"):
        vs = [b.value for b in bounds if kind_of(b) == k]
        if len(vs) >= 2:
            inc = any(not accepts(a, b) and not accepts(b, a) for a, b in itertools.combinations(vs, 2))
            feats.append(f"{k}:{'incomparable' if inc else 'comparable'}")
    return ",".join(feats) or "-"


def kinds_text(bounds) -> str:
    return "+".join(sorted(kind_of(b) for b in bounds))


def any_classes(bounds) -> list:
    AnyValue = _st()["AnyValue"]
    out = set()
    for b in bounds:
        k = kind_of(b)
        if k in ("L", "U") and has_any(b.value):
            out.add(f"{k}:{'Any' if isinstance(b.value, AnyValue) else 'partial-Any'}")
    return sorted(out)


def any_bound_key(bounds: list):
    """For a MINIMAL violating bound list (every bound of it is necessary for the violation): when (partially) Any
    lower/upper bounds are among them, THAT is the mechanism - one key per (kind, Any class) whatever the symptom
    (a violated lower/upper bound, an accepted unsatisfiable set, an order-dependent verdict)."""
    classes = any_classes(bounds)
    pure = [c for c in classes if c.endswith(":Any")]
    # a pure Any bound next to a partially-Any one: the pure one is named (it alone already produces the symptom)
    classes = pure or classes
    return "any-bound[" + ",".join(classes) + "]" if classes else None


def any_bound_cause(bounds: list):
    """For the (not minimised) bounds of an ACCEPTED call: does the solver reject them once the pure-Any bounds - or,
    failing that, all (partially) Any bounds - are taken out?  Then the acceptance is owed to those bounds."""
    AnyValue = _st()["AnyValue"]
    for pure_only in (True, False):
        gone = [b for b in bounds if kind_of(b) in ("L", "U") and has_any(b.value)
                and (isinstance(b.value, AnyValue) or not pure_only)]
        if not gone:
            continue
        rest = [b for b in bounds if b not in gone]
        _, nerr, exc = solve_once(rest)
        if nerr or exc is not None:
            return any_bound_key(gone)
    return None


def classify(bounds: list, sig: str) -> tuple:
    """-> (mechanism features 'kinds|relation|clause', minimised bound list, solution on the minimised list)"""
    small = minimise(list(bounds), sig)
    sol, _, _ = solve_once(small)
    amk = any_bound_key(small)
    if amk is not None:
        return amk, small, sol
    if sig.startswith("exception:") or sig in ("order-dependent", UNSAT_SIG):
        parts = small
    else:
        parts = participants(small, sig, sol)
    rel = matching_feature(small) if sig.startswith("constraint:Any") else relation_features(parts)
    return f"{kinds_text(parts)}|{rel}|{sig}", small, sol


def matching_feature(bounds: list) -> str:
    """For an Any answer to a constrained variable: how many declared constraints accept the other bounds' values
    (all lower bounds if there are any, else all upper bounds) - 0, 1 or 2+ (2+ = 'ambiguous')."""
    cons = [b for b in bounds if kind_of(b) == "O"]
    if not cons:
        return "-"
    anchor = [b.value for b in bounds if kind_of(b) == "L"] or [b.value for b in bounds if kind_of(b) == "U"]
    n = sum(1 for c in cons[-1].constraints if all(accepts(c, v) for v in anchor))
    return f"matching:{'2+' if n >= 2 else n}"


VALUE_SIGS = ("lower", "upper", "constraint:", UNSAT_SIG)


def is_value_sig(sig: str) -> bool:
    return sig.startswith(VALUE_SIGS) or sig.startswith("exception:")


def nontrivial_multiset(ids: tuple) -> bool:
    if len({k for k, _ in ids}) >= 2:
        return True
    return "incomparable" in relation_features([make_bound(b) for b in ids if b[0] in ("L", "U")])


def report_sequence(ctx, seq: tuple, sig: str, text: str) -> None:
    """seq: ordered bound ids for which the solver reported no error but clause `sig` is broken."""
    ids_of = {}
    bounds = []
    for bid in seq:
        b = make_bound(bid)
        ids_of[id(b)] = bid
        bounds.append(b)
    feats, small, sol = classify(bounds, sig)
    small_ids = [ids_of[id(b)] for b in small]
    broken = [t for s, t in broken_clauses(small, sol) if s == sig] if sol is not None else []
    what = (
        f"bounds [{', '.join(bound_text(b) for b in small_ids)}] (in this order): no error, "
        f"{broken[0] if broken else text}"
    )
    what = what.replace(__name__ + ".", "")
    ctx.violation(f"direct|{feats}", what, {"kind": "direct", "bounds": [list(b) for b in small_ids], "sig": sig})


def report_order_dependence(ctx, ids: tuple, found: dict) -> None:
    perm, text = found["order-dependent"]
    if any(is_value_sig(s) for s in found):
        # the flip is a consequence of a wrong value this very multiset already exhibits (reported under that clause)
        ctx.count("order_dependent_multisets_explained_by_value_violation")
        return
    seen = set()
    for i in range(len(ids)):
        sub = ids[:i] + ids[i + 1:]
        if sub and sub not in seen:
            seen.add(sub)
            if "order-dependent" in analyse(sub):
                ctx.count("order_dependent_multisets_subsumed_by_smaller")
                return
    bounds = [make_bound(b) for b in ids]
    key = f"direct|{any_bound_key(bounds) or kinds_text(bounds) + '|' + relation_features(bounds) + '|order-dependent'}"
    what = f"bounds [{', '.join(bound_text(b) for b in perm)}]: {text}"
    ctx.violation(key, what, {"kind": "direct", "bounds": [list(b) for b in perm], "sig": "order-dependent"})


def check_multiset(ctx, ids: tuple) -> None:
    found = analyse(ids, ctx)
    ctx.count("evaluations")
    ctx.count("multisets")
    ctx.histo("multisets_by_kinds", "+".join(sorted(k for k, _ in ids)))
    if nontrivial_multiset(ids):
        ctx.nontrivial(ids)
    for sig, (perm, text) in found.items():
        ctx.histo("broken_clause_all_multisets", sig)
        if sig == "order-dependent":
            report_order_dependence(ctx, ids, found)
        else:
            report_sequence(ctx, perm, sig, text)


def direct_part(ctx) -> None:
    bids = bound_ids(ctx.tier)
    ctx.count("bound_objects_in_pool", len(bids) if ctx.shard == 0 else 0)
    demo = (("L", "bool"), ("L", "int"), ("O", "int,float"), ("U", "float"))
    sol, nerr, _ = solve_once([make_bound(b) for b in demo])
    ctx.sample({"direct": [bound_text(b) for b in demo], "solution": str(sol), "errors": nerr})
    idx = 0
    for size in (1, 2, 3, 4):
        # resolve_bounds_map drops duplicate bounds first, so repetition is only enumerated up to size 3 in quick
        gen = itertools.combinations if (size == 4 and ctx.quick) else itertools.combinations_with_replacement
        for ids in gen(bids, size):
            idx += 1
            if not ctx.mine(idx):
                continue
            check_multiset(ctx, tuple(sorted(ids)))
    special_part(ctx, bids, idx)
    if ctx.tier == "thorough":
        n = 2500
        for _ in range(n):
            ids = tuple(sorted(ctx.rng.sample(bids, 5)))
            if sum(1 for k, _ in ids if k == "O") > 2:
                continue
            ctx.count("size5_multisets")
            check_multiset(ctx, ids)


def special_part(ctx, bids: list, idx: int) -> None:
    """Any among the bounds, in every position: each special bound (a lower bound Any of every AnySource the checker
    produces for arguments, the partially-Any list[Any] as lower and as upper bound, an upper bound Any) joins
    EVERY multiset of 1..2 ordinary bounds, every pair of special bounds joins every multiset of 0..2 ordinary bounds
    (quick: 0..1), and every set of 3 ordinary bounds gets special bounds in rotation (quick: one, by case index;
    thorough: one Any lower bound and one of the three others; quick only when the set has an ordinary bound of the
    special bound's kind to fold with) - all permutations each."""
    specials = SPECIAL_BOUNDS
    pure = [b for b in specials if b[0] == "L" and b[1].startswith("Any[")]
    other = [b for b in specials if b not in pure]

    def case(ids):
        ctx.count("special_multisets")
        ctx.histo("special_bounds_used", "+".join(bound_text(b) for b in ids if b in specials))
        check_multiset(ctx, tuple(sorted(ids)))

    for size in (1, 2):
        for ids in itertools.combinations_with_replacement(bids, size):
            for sp in specials:
                idx += 1
                if ctx.mine(idx):
                    case(ids + (sp,))
    for size in ((0, 1) if ctx.quick else (0, 1, 2)):
        for ids in itertools.combinations(bids, size):
            for pair in itertools.combinations(specials, 2):
                idx += 1
                if ctx.mine(idx):
                    case(ids + pair)
    for n, ids in enumerate(itertools.combinations(bids, 3)):
        idx += 1
        if not ctx.mine(idx):
            continue
        if ctx.quick:
            sp = specials[n % len(specials)]
            if not any(k == sp[0] for k, _ in ids):
                # no ordinary bound of the special bound's own kind to fold with: that interaction is already
                # covered exhaustively by the 1..2-bound level above
                ctx.count("special_size3_without_partner_left_to_smaller_sizes")
                continue
            case(ids + (sp,))
        else:
            case(ids + (pure[n % len(pure)],))
            case(ids + (other[n % len(other)],))


# ---------------------------------------------------------------------------
# end-to-end part

PRELUDE = '''
from typing import Any, Callable, Optional, Type, TypeVar, Union
from typing_extensions import reveal_type
T = TypeVar("T"); U = TypeVar("U"); K = TypeVar("K"); V = TypeVar("V")
TB = TypeVar("TB", bound=float)
TA = TypeVar("TA", bound="A")
TC = TypeVar("TC", int, str)
TF = TypeVar("TF", int, float)
TAC = TypeVar("TAC", "A", "C")
TN = TypeVar("TN", Optional[int], Optional[str])
LT = TypeVar("LT", list[int], list[str])
class A: pass
class B(A): pass
class C: pass
def cb_i(x: int) -> None: pass
def cb_s(x: str) -> None: pass
def cb_o(x: object) -> None: pass
def cb_f(x: float) -> None: pass
def cb_b(x: bool) -> None: pass
def cb_A(x: A) -> None: pass
def cb_B(x: B) -> None: pass
def cb_C(x: C) -> None: pass
def cb_ios(x: Union[int, str]) -> None: pass
def cb_any(x: Any) -> None: pass
def cb_i_s(x: int) -> str: return ""
def cb_s_i(x: str) -> int: return 0
def cb_o_A(x: object) -> A: return A()
'''
CALLER_PARAMS = (
    "i: int, s: str, fl: float, o: object, bo: bool, li: list[int], lo: list[object], ls: list[str], lb: list[bool], "
    "a: A, b: B, c: C, ios: Union[int, str], ion: Optional[int], dis: dict[int, str], dss: dict[str, str], "
    "dos: dict[object, str], dbs: dict[bool, str], dAi: dict[A, int], any_: Any, un, la: list[Any], bl: list, "
    "tu: U, ttb: TB, ttc: TC"
)
# Any-typed argument expressions, one per AnySource the checker produces for arguments:
# explicit, unannotated, from_another, inference, generic_argument
ANYS = ["any_", "un", "un.x", "getattr(un, 'x')", "bl[0]"]
PARTIAL_ANYS = ["la", "[any_]", "1 if un else any_"]
TVARGS = ["tu", "ttb", "ttc"]
PLAIN = ["1", "True", "1.5", "'x'", "None", "i", "s", "fl", "o", "bo", "li", "lo", "a", "b", "c", "ios", "ion", "[1]",
         "any_"]
SMALL = ["1", "'x'", "None", "i", "s", "fl", "bo", "a"]
LISTS = ["li", "lo", "ls", "lb", "[1]", "['x']", "[]", "la"]
DICTS = ["dis", "dss", "dos", "dbs", "dAi", "{1: 'x'}", "{}"]
CBS_NONE = ["cb_i", "cb_s", "cb_o", "cb_f", "cb_b", "cb_A", "cb_B", "cb_C", "cb_ios", "cb_any"]
CBS_RET = CBS_NONE + ["cb_i_s", "cb_s_i", "cb_o_A"]
CLASSES = ["int", "str", "bool", "float", "object", "A", "B", "C"]
UNION_ARGS = ["li", "lo", "ls", "lb", "[1]", "la", "1", "'x'", "i", "s"]
OMIT = "<omitted>"

# family -> (parameter annotations, return annotation, argument pools per parameter)
FAMILIES = {
    "T,T": (["T", "T"], "T", [PLAIN, PLAIN]),
    "list[T],T": (["list[T]", "T"], "T", [LISTS, PLAIN]),
    "dict[K,V],K": (["dict[K, V]", "K"], "V", [DICTS, PLAIN]),
    "Callable[[T],U],T": (["Callable[[T], U]", "T"], "U", [CBS_RET, PLAIN]),
    "Callable[[T],None]x2": (["Callable[[T], None]", "Callable[[T], None]"], "T", [CBS_NONE, CBS_NONE]),
    "Callable[[T],None]x2,T": (["Callable[[T], None]", "Callable[[T], None]", "T"], "T",
                               [CBS_NONE[:6], CBS_NONE[:6], ["1", "True", "'x'", "i", "s", "fl", "a", "b", "None"]]),
    "T,T,T": (["T", "T", "T"], "T", [["1", "i", "s", "fl", "b", "None"], ["True", "i", "o", "a", "ios"], ["'x'", "s", "bo", "c", "ion"]]),
    "bound:TB,TB": (["TB", "TB"], "TB", [PLAIN, PLAIN]),
    "bound:list[TB],TB": (["list[TB]", "TB"], "TB", [LISTS, PLAIN]),
    "bound:Callable[[TB],None],TB": (["Callable[[TB], None]", "TB"], "TB", [CBS_NONE, PLAIN]),
    "bound:Callable[[TB],None]x2": (["Callable[[TB], None]", "Callable[[TB], None]"], "TB", [CBS_NONE, CBS_NONE]),
    "bound:TA,TA": (["TA", "TA"], "TA", [PLAIN, PLAIN]),
    "constrained:TC,TC": (["TC", "TC"], "TC", [PLAIN, PLAIN]),
    "constrained:list[TC],TC": (["list[TC]", "TC"], "TC", [LISTS, PLAIN]),
    "constrained:Callable[[TC],None],TC": (["Callable[[TC], None]", "TC"], "TC", [CBS_NONE, PLAIN]),
    "constrained:Callable[[TC],None]x2": (["Callable[[TC], None]", "Callable[[TC], None]"], "TC", [CBS_NONE, CBS_NONE]),
    "constrained:TF,TF": (["TF", "TF"], "TF", [PLAIN, PLAIN]),
    "constrained:TAC,TAC": (["TAC", "TAC"], "TAC", [PLAIN, PLAIN]),
    "constrained:TN,TN": (["TN", "TN"], "TN", [PLAIN, PLAIN]),
    # an Any-typed argument (each AnySource) / a partially-Any one next to two arguments that may conflict with each
    # other under the constraints, the declared bound, or an upper bound from a callback parameter; all 6 orders
    "any:TC,TC,TC": (["TC", "TC", "TC"], "TC", [ANYS + PARTIAL_ANYS[2:], ["1", "i", "'x'", "s", "None", "fl"],
                                              ["'x'", "s", "1", "a", "any_"]]),
    "any:TB,TB,TB": (["TB", "TB", "TB"], "TB", [ANYS, ["1", "fl", "'x'", "None", "bo"], ["'x'", "s", "1.5", "a"]]),
    "any:T,T,Callable[[T],None]": (["T", "T", "Callable[[T], None]"], "T",
                                   [ANYS + PARTIAL_ANYS, ["1", "'x'", "s", "b", "li"],
                                    ["cb_i", "cb_s", "cb_o", "cb_A", "cb_any"]]),
    "any:LT,LT,LT": (["LT", "LT", "LT"], "LT", [["la", "[any_]", "bl", "any_"], ["li", "ls", "lb", "[1]"],
                                              ["li", "ls", "lo", "['x']"]]),
    "any:list[T],list[T],T": (["list[T]", "list[T]", "T"], "T", [["la", "[any_]", "bl"], LISTS[:5],
                                                                 ["1", "'x'", "i", "s", "o", "any_"]]),
    # the class object as argument: Type[T] parameters
    "Type[T],T": (["Type[T]", "T"], "T", [CLASSES, SMALL]),
    "bound:Type[TB],TB": (["Type[TB]", "TB"], "TB", [CLASSES, SMALL]),
    "bound:Type[TA],TA": (["Type[TA]", "TA"], "TA", [CLASSES, SMALL]),
    "constrained:Type[TC],TC": (["Type[TC]", "TC"], "TC", [CLASSES, SMALL]),
    "bound:Type[TB]x2": (["Type[TB]", "Type[TB]"], "TB", [CLASSES, CLASSES]),
    "constrained:Type[TC]x2": (["Type[TC]", "Type[TC]"], "TC", [CLASSES, CLASSES]),
    # a union of the variable and a container of it (the solver receives an OrBound)
    "Union[T,list[T]],T": (["Union[T, list[T]]", "T"], "T", [UNION_ARGS, SMALL]),
    "bound:Union[TB,list[TB]],TB": (["Union[TB, list[TB]]", "TB"], "TB", [UNION_ARGS, SMALL]),
    "constrained:Union[TC,list[TC]],TC": (["Union[TC, list[TC]]", "TC"], "TC", [UNION_ARGS, SMALL]),
    # arguments whose type is itself a type variable of the (generic) caller
    "tv:T,T": (["T", "T"], "T", [TVARGS, TVARGS + SMALL]),
    "tv:TB,TB": (["TB", "TB"], "TB", [TVARGS, TVARGS + SMALL]),
    "tv:TC,TC": (["TC", "TC"], "TC", [TVARGS, TVARGS + SMALL]),
}
# generic callees WITH DEFAULTS, in twin groups that differ only in the default value of the last parameter: the default
# may satisfy or violate the declared bound / constraints; the parameter is omitted, passed equal (==) to some twin's
# default, or passed something else.  style 'pos' = positional-or-keyword parameters and positional arguments, 'kw' =
# keyword-only parameters and keyword arguments (then every order of the parameters is a valid signature).
DEFAULTS = ["None", "0", "1.5", "'x'", "[]", "['a']"]
DFLT_ARGS = DEFAULTS + ["i", "any_"]
DFLT_SHAPES = {"{tv}": (["{tv}"], [DFLT_ARGS]), "{tv},{tv}": (["{tv}", "{tv}"], [["1", "'x'"], DFLT_ARGS]),
               "list[{tv}]": (["list[{tv}]"], [DFLT_ARGS])}
DFLT_GROUPS: dict = {}
for _shape, (_anns, _pools) in DFLT_SHAPES.items():
    for _tv in ("T", "TB", "TC"):
        for _style in ("pos", "kw"):
            _group = f"dflt:{_style}:{_shape.format(tv=_tv)}"
            DFLT_GROUPS[_group] = []
            for _d in DEFAULTS:
                _name = f"{_group}={_d}"
                _a = [x.format(tv=_tv) for x in _anns]
                FAMILIES[_name] = (_a, _tv, [*_pools[:-1], [OMIT] + _pools[-1]], [None] * (len(_a) - 1) + [_d], _style)
                DFLT_GROUPS[_group].append(_name)
FAMILY_NAMES = list(FAMILIES)
PARAM_RE = re.compile(r"^p(\d+)$")


def fam_defaults(fam: str) -> list:
    spec = FAMILIES[fam]
    return spec[3] if len(spec) > 3 else [None] * len(spec[0])


def fam_style(fam: str) -> str:
    spec = FAMILIES[fam]
    return spec[4] if len(spec) > 4 else "pos"


def fam_class(fam: str) -> str:
    """family name with the default value abstracted (structural part of keys)"""
    return fam.split("=")[0]


def valid_perms(fam: str, args: tuple) -> list:
    """orders of (parameters, arguments) that are valid Python: with positional style, parameters with a default and
    omitted arguments must trail"""
    n = len(args)
    defaults = fam_defaults(fam)
    out = []
    for perm in itertools.permutations(range(n)):
        if fam_style(fam) == "pos":
            has_d = [defaults[j] is not None for j in perm]
            omitted = [args[j] == OMIT for j in perm]
            if has_d != sorted(has_d) or omitted != sorted(omitted):
                continue
        out.append(perm)
    return out


_INSITU = {"on": False, "log": [], "params": [], "installed": False}


def _line_of(visitor):
    try:
        if visitor is None or not visitor._is_checking():
            return None
        return getattr(getattr(visitor, "current_statement", None), "lineno", None)
    except Exception:  # noqa: BLE001
        return None


def install_insitu() -> None:
    if _INSITU["installed"]:
        return
    import pyanalyze.signature as sigmod

    orig = sigmod.resolve_bounds_map

    def recording_resolve_bounds_map(bounds_map, ctx, **kw):
        res = orig(bounds_map, ctx, **kw)
        if _INSITU["on"]:
            line = _line_of(ctx)
            if line is not None:
                _INSITU["log"].append((line, {tv: list(bs) for tv, bs in bounds_map.items()}, res))
        return res

    sigmod.resolve_bounds_map = recording_resolve_bounds_map

    orig_check = sigmod.Signature._check_param_type_compatibility

    def recording_check_param(self, param, composite, ctx, typevar_map=None, *a, **kw):
        # pass-through; the FIRST pass (no typevar_map yet) tells which argument value met which annotation
        if _INSITU["on"] and not typevar_map and PARAM_RE.match(param.name):
            line = _line_of(getattr(ctx, "visitor", None))
            if line is not None:
                _INSITU["params"].append((line, param.name, param.annotation, composite.value))
        return orig_check(self, param, composite, ctx, typevar_map, *a, **kw)

    sigmod.Signature._check_param_type_compatibility = recording_check_param
    _INSITU["installed"] = True


def fname(fam: str, perm) -> str:
    return f"f{FAMILY_NAMES.index(fam)}_" + "".join(map(str, perm))


def def_text(fam: str, perm) -> str:
    anns, ret = FAMILIES[fam][0], FAMILIES[fam][1]
    defaults = fam_defaults(fam)
    params = [f"p{j}: {anns[j]}" + (f" = {defaults[j]}" if defaults[j] is not None else "") for j in perm]
    if fam_style(fam) == "kw":
        params.insert(0, "*")
    return f"({', '.join(params)}) -> {ret}"


def call_text(fam: str, perm, args) -> str:
    if fam_style(fam) == "kw":
        return ", ".join(f"p{j}={args[j]}" for j in perm if args[j] != OMIT)
    return ", ".join(args[j] for j in perm if args[j] != OMIT)


def e2e_source(cases) -> tuple:
    """cases: list of (family, args tuple).  -> (source, {(case index, perm): lineno})"""
    lines = [PRELUDE]
    defined = set()
    for fam, args in cases:
        for perm in valid_perms(fam, args):
            if (fam, perm) not in defined:
                defined.add((fam, perm))
                lines.append(f"def {fname(fam, perm)}{def_text(fam, perm)}: raise NotImplementedError")
    lines.append(f"def caller({CALLER_PARAMS}):")
    source = "\n".join(lines)
    lineno = source.count("\n") + 1
    where = {}
    body = []
    for ci, (fam, args) in enumerate(cases):
        for perm in valid_perms(fam, args):
            body.append(f"    reveal_type({fname(fam, perm)}({call_text(fam, perm, args)}))")
            lineno += 1
            where[(ci, perm)] = lineno
    return source + "\n" + "\n".join(body) + "\n", where


def diag_class(ds) -> str:
    if not ds:
        return "accepted"
    d = ds[0].description
    d = re.sub(r"^In call to [^:]*: ", "", d)
    d = re.sub(r" for p\d+", " for P", d)
    d = re.sub(r"expected .*", "expected ...", d, flags=re.S)
    return f"{ds[0].code}:{d[:60]}"


def solver_order_feature(bounds: list):
    """Does the solver's verdict on exactly these Bound objects flip with their order?  -> mechanism text or None
    (names an end-to-end order dependence after what is observed one level down; never deciding)."""
    bounds = list(dict.fromkeys(bounds))
    if not 2 <= len(bounds) <= 5:
        return None
    seen = set()
    for perm in itertools.permutations(bounds):
        _, nerr, exc = solve_once(list(perm))
        seen.add("exc" if exc is not None else bool(nerr))
        if len(seen) > 1:
            return any_bound_key(bounds) or f"solver-order|{kinds_text(bounds)}|{relation_features(bounds)}"
    return None


def declared_of(annotations) -> dict:
    """{TypeVar: TypeVarValue} for every type variable in the callee's parameter annotations"""
    from pyanalyze.value import TypeVarValue

    out = {}
    for ann in annotations:
        for v in ann.walk_values():
            if isinstance(v, TypeVarValue):
                out.setdefault(v.typevar, v)
    return out


def judge_arguments(fam, args, recs, solutions) -> list:
    """The clauses of the property that can be evaluated from the ARGUMENTS of an accepted call (independently of
    what reached the solver): recs = [(param name, annotation Value, argument Value)] of the first pass.
    -> [(sig, text)]"""
    from pyanalyze.value import TypeVarValue

    st = _st()
    AnyValue = st["AnyValue"]
    out = []
    declared = declared_of([ann for _, ann, _ in recs])
    lowers: dict = {}
    for pname, ann, val in recs:
        j = int(PARAM_RE.match(pname).group(1))
        if j >= len(args) or args[j] == OMIT:
            continue  # an omitted parameter's default is not an argument
        if isinstance(ann, TypeVarValue):
            lowers.setdefault(ann.typevar, []).append(val)
    for tv, tvv in declared.items():
        sol = solutions.get(tv)
        mine = lowers.get(tv, [])
        solid = [v for v in mine if not has_any(v) and not isinstance(v, TypeVarValue)]
        if tvv.bound is not None:
            for v in solid:
                if not accepts(tvv.bound, v):
                    out.append(("arg:declared-bound", f"argument {v} for a parameter annotated {tvv} is not accepted by "
                                f"the declared bound {tvv.bound}: no value of the variable exists"))
                    break
            if sol is not None and not accepts(tvv.bound, sol):
                out.append(("solution:declared-bound", f"the solution {tv} = {sol} is not accepted by the declared bound {tvv.bound}"))
        if tvv.constraints:
            if solid and not any(all(accepts(c, v) for v in solid) for c in tvv.constraints):
                out.append(("arg:declared-constraints", f"arguments {', '.join(map(str, solid))} for parameters annotated "
                            f"{tvv}: no declared constraint accepts them all"))
            if sol is not None and not isinstance(sol, AnyValue) and not any(sol == c for c in tvv.constraints):
                out.append(("solution:declared-constraints", f"the solution {tv} = {sol} is none of the declared constraints"))
        if sol is not None:
            for v in mine:
                if not accepts(sol, v):
                    out.append(("arg:lower", f"the solution {tv} = {sol} does not accept the argument {v} passed for a parameter annotated {tvv}"))
                    break
    return out


def check_e2e_batch(ctx, cases) -> dict:
    """-> {case index: True (diagnosed in every order) / False (accepted in every order) / None (mixed)}"""
    install_insitu()
    source, where = e2e_source(cases)
    _INSITU["log"] = []
    _INSITU["params"] = []
    _INSITU["on"] = True
    try:
        res = harness.run(source)
    finally:
        _INSITU["on"] = False
    log = _INSITU["log"]
    precs = _INSITU["params"]
    _INSITU["log"] = []
    _INSITU["params"] = []
    summary: dict = {}
    if res.exception is not None:
        ctx.violation(f"e2e|harness-exception|{type(res.exception).__name__}", f"check raised {res.exception!r}",
                      {"kind": "e2e-batch", "cases": [[f, list(a)] for f, a in cases]})
        return summary
    by_line = res.by_line()
    reveals = harness.reveal_types(res)
    insitu_by_line: dict = {}
    for line, bmap, r in log:
        insitu_by_line.setdefault(line, []).append((bmap, r))
    params_by_line: dict = {}
    for line, pname, ann, val in precs:
        params_by_line.setdefault(line, []).append((pname, ann, val))
    for ci, (fam, args) in enumerate(cases):
        ctx.count("evaluations")
        ctx.count("e2e_cases")
        ctx.nontrivial(("e2e", fam, args))
        verdicts = {}
        revealed = {}
        anns = FAMILIES[fam][0]
        famc = fam_class(fam)
        wit = {"kind": "e2e", "family": fam, "args": list(args)}
        value_violations = []
        arg_violations = []
        accepted_bounds = []
        undeclared_to_solver = False
        perms = valid_perms(fam, args)
        identity = perms[0]
        special = fam.startswith(("any:", "dflt:", "tv:")) or "Type[" in fam or "Union[" in fam or \
            any(x in ANYS or x in PARTIAL_ANYS or x == "cb_any" for x in args)
        for perm in perms:
            line = where[(ci, perm)]
            ds = [d for d in by_line.get(line, []) if d.code in E2E_CODES]
            for d in by_line.get(line, []):
                if d.code not in E2E_CODES and d.code != "reveal_type":
                    ctx.histo("e2e_other_codes_on_call_lines", d.code)
            ctx.count("e2e_calls_checked")
            ctx.count("e2e_diagnosed" if ds else "e2e_accepted")
            if special:
                ctx.count("e2e_special_calls")
            ctx.histo("e2e_verdict_by_family", f"{famc}:{'diagnosed' if ds else 'accepted'}")
            verdicts[perm] = ds
            rv = (reveals.get(line) or ["<none>"])[0]
            revealed[perm] = rv
            if perm == identity:
                ctx.histo("e2e_revealed_type", f"{famc} -> {rv}")
            recs = params_by_line.get(line, [])
            declared = declared_of([ann for _, ann, _ in recs])
            kinds_seen = set()
            solutions = {}
            for bmap, (tv_map, errors) in insitu_by_line.get(line, []):
                for tvar, sol in tv_map.items():
                    if tvar in declared and not ds and not errors:
                        solutions[tvar] = sol
                for tvar, raw_bounds in bmap.items():
                    bounds = list(dict.fromkeys(raw_bounds))
                    kinds_seen.add(kinds_text(bounds))
                    if ds or errors:
                        continue  # the call is diagnosed: the property asks nothing of the value
                    sol = tv_map.get(tvar)
                    if sol is None:
                        continue
                    ctx.count("e2e_insitu_checked")
                    if tvar in declared:
                        accepted_bounds.append(bounds)
                        tvv = declared[tvar]
                        if (tvv.bound is not None and not any(kind_of(b) == "U" and b.value == tvv.bound for b in bounds)) \
                                or (tvv.constraints and not any(kind_of(b) == "O" for b in bounds)):
                            undeclared_to_solver = True
                        # 'one of the DECLARED constraints': an IsOneOf that is not this variable's declaration (the
                        # constraints of a type variable the ARGUMENT is typed with) is recorded, not demanded
                        foreign = [b for b in bounds if kind_of(b) == "O"
                                   and tuple(b.constraints) != tuple(declared[tvar].constraints)]
                        if foreign:
                            ctx.count("e2e_foreign_isoneof_nondeciding")
                            bounds = [b for b in bounds if b not in foreign]
                    for sig, text in broken_clauses(bounds, sol, True):
                        value_violations.append((perm, tvar, bounds, sol, sig, text, rv))
            for k in kinds_seen:
                ctx.histo("e2e_insitu_bound_kinds", k)
            if not ds and recs:
                ctx.count("e2e_argument_oracle_checked")
                for sig, text in judge_arguments(fam, args, recs, solutions):
                    arg_violations.append((perm, sig, text, rv))
        flags = {p: bool(ds) for p, ds in verdicts.items()}
        flips = len(set(flags.values())) > 1
        summary[ci] = None if flips else next(iter(flags.values()))

        def shown(perm):
            return f"def f{def_text(fam, perm)} called as f({call_text(fam, perm, args)})"

        flip_text = ""
        if flips:
            acc = next(p for p, f in flags.items() if not f)
            dia = next(p for p, f in flags.items() if f)
            flip_text = (
                f"{shown(acc)} is accepted (revealed {revealed[acc]}); with parameters and arguments reordered, "
                f"{shown(dia)} is diagnosed: {verdicts[dia][0].short()}"
            )
        reported = set()
        for perm, tvar, bounds, sol, sig, text, rv in value_violations:
            feats, small, _ = classify(bounds, sig)
            key = f"e2e|{feats}"
            if key in reported:
                continue
            reported.add(key)
            what = (
                f"{shown(perm)} is accepted "
                f"(revealed {rv}); the solver was given [{'; '.join(harness.normalise_text(str(b)) for b in bounds)}] and chose "
                f"{tvar} = {harness.normalise_text(str(sol))}: {harness.normalise_text(text)}"
            )
            if flips:
                what += " -- the verdict also flips with the argument order: " + flip_text
            ctx.violation(key, what, dict(wit, clause=sig))
        cause = None
        for bounds in accepted_bounds:
            cause = cause or any_bound_cause(bounds)
        for perm, sig, text, rv in arg_violations:
            key = f"e2e|{cause}" if cause else f"e2e|{famc}|{sig}"
            if sig.startswith("solution:declared") and not cause and undeclared_to_solver:
                # one mechanism whatever the clause: the variable's declaration never reached the solver
                key = "e2e|solution-outside-declaration|declaration-not-among-solver-bounds"
            if key in reported:
                continue
            reported.add(key)
            what = f"{shown(perm)} is accepted (revealed {rv}): {harness.normalise_text(text)}"
            ctx.violation(key, what, dict(wit, clause=sig))
        if flips:
            if value_violations or arg_violations:
                ctx.count("e2e_order_flips_explained_by_value_violation")
            else:
                feature = cause
                for bounds in accepted_bounds:
                    feature = feature or solver_order_feature(bounds)
                key = f"e2e|{feature}" if feature else f"e2e|{famc}|order-dependent|{diag_class(verdicts[dia])}"
                ctx.violation(key, flip_text, dict(wit, clause="order-dependent"))
        elif len(set(revealed.values())) > 1:
            ctx.count("e2e_revealed_type_varies_with_order_nondeciding")
            ctx.histo("e2e_reveal_varies_family_nondeciding", famc)
    if len(ctx.samples) < 3:
        fam, args = cases[0]
        ctx.sample({"family": fam, "args": list(args)})
    return summary


def literal_equal(a: str, b: str):
    """are two argument/default expressions equal (==) as Python literals?  None when not literals"""
    import ast as _ast

    try:
        return _ast.literal_eval(a) == _ast.literal_eval(b)
    except Exception:  # noqa: BLE001
        return None


def check_twins(ctx, group: str, tail=None) -> None:
    """All twins of one group (same signature, different default of the last parameter) in ONE module.  A call that
    passes every parameter explicitly must get the same verdict from every twin: the default is not an argument."""
    fams = DFLT_GROUPS[group]
    pools = [p for p in FAMILIES[fams[0]][2]]
    cases = []
    index = {}
    for args in itertools.product(*pools):
        if tail is not None and tuple(args) != tuple(tail):
            continue
        for fam in fams:
            index[(fam, args)] = len(cases)
            cases.append((fam, tuple(args)))
    summary = check_e2e_batch(ctx, cases)
    if not summary:
        return
    for args in {a for _, a in cases}:
        if OMIT in args:
            ctx.count("e2e_default_omitted_calls", len(fams))
            continue
        got = {fam: summary.get(index[(fam, args)]) for fam in fams}
        ctx.count("e2e_twin_groups_compared")
        for fam in fams:
            eq = literal_equal(args[-1], fam_defaults(fam)[-1])
            ctx.histo("e2e_twin_explicit_vs_default", "equal" if eq else "different")
        vals = {v for v in got.values() if v is not None}
        if len(vals) <= 1:
            continue
        acc = [f for f, v in got.items() if v is False]
        dia = [f for f, v in got.items() if v is True]
        rel = {bool(literal_equal(args[-1], fam_defaults(f)[-1])) for f in acc}
        feature = "argument-equals-default" if rel == {True} else "argument-differs-from-default" if rel == {False} else "mixed"
        perm = valid_perms(acc[0], args)[0]
        what = (
            f"def f{def_text(acc[0], perm)} called as f({call_text(acc[0], perm, args)}) is accepted, but the twin "
            f"def f{def_text(dia[0], perm)} (only the default differs) called with the same explicit arguments is diagnosed"
        )
        ctx.violation(f"e2e|{group}|verdict-depends-on-default|accepted-when-{feature}", what,
                      {"kind": "e2e-twins", "group": group, "args": list(args)})


def e2e_part(ctx) -> None:
    cases = []
    idx = 0
    for fam in FAMILY_NAMES:
        if fam.startswith("dflt:"):
            continue
        pools = FAMILIES[fam][2]
        for args in itertools.product(*pools):
            idx += 1
            if ctx.mine(idx):
                cases.append((fam, tuple(args)))
    # keep each batch below BATCH call lines
    batch, n = [], 0
    for case in cases:
        k = 2 if len(case[1]) == 2 else 6
        if n + k > BATCH and batch:
            check_e2e_batch(ctx, batch)
            batch, n = [], 0
        batch.append(case)
        n += k
    if batch:
        check_e2e_batch(ctx, batch)
    for gi, group in enumerate(DFLT_GROUPS):
        if ctx.mine(gi):
            check_twins(ctx, group)


def shard(ctx) -> None:
    direct_part(ctx)
    e2e_part(ctx)


def replay(witness):
    from vp.core import Ctx

    ctx = Ctx(ID, "quick", 0, 0, 1)
    kind = witness.get("kind")
    if kind == "direct":
        seq = tuple(tuple(b) for b in witness["bounds"])
        want = witness.get("sig")
        if want == "order-dependent":
            ids = tuple(sorted(seq))
            found = analyse(ids)
            if "order-dependent" in found:
                report_order_dependence(ctx, ids, found)
        else:
            bounds = [make_bound(b) for b in seq]
            sol, nerr, exc = solve_once(bounds)
            if exc is not None:
                sigs = [(f"exception:{type(exc).__name__}", repr(exc))]
            elif nerr:
                sigs = []
            else:
                sigs = broken_clauses(bounds, sol)
            for sig, text in sigs:
                if want is None or sig == want:
                    report_sequence(ctx, seq, sig, text)
                    break
    elif kind == "e2e":
        check_e2e_batch(ctx, [(witness["family"], tuple(witness["args"]))])
    elif kind == "e2e-twins":
        check_twins(ctx, witness["group"], tuple(witness["args"]))
    elif kind == "e2e-batch":
        check_e2e_batch(ctx, [(f, tuple(a)) for f, a in witness["cases"]])
    else:
        return None
    want = witness.get("clause") or witness.get("sig")
    best = None
    for key, lst in ctx.violations.items():
        w = lst[0]["witness"]
        if want is not None and (w.get("clause") or w.get("sig")) == want:
            return key, lst[0]["what"]
        if best is None:
            best = (key, lst[0]["what"])
    return best if want is None else None
