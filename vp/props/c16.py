"""C16 — automatic fixes are safe: valid code, error gone, nothing else changed.

Monitor (runtime monitoring; CPython is the reference executor):

  (1) fix steps.  A generated program P (prelude + 1-3 functions, each built around ONE fix site of a known producer)
      is checked by the real pyanalyze with apply_changes=True.  A record-only hook on
      BaseNodeVisitor._apply_changes_to_lines tells which Replacement was applied (always the first of the run); the
      diagnostic that carried it is the first reported diagnostic with that description inside the replaced line range.
      P' = Result.new_code is judged:
        unparsable         ast.parse(P') fails
        ast-changed        a statement of P that is neither the rewritten statement S (innermost statement covering the
                           diagnostic), nor an ancestor/descendant of S, is no longer present (ast.dump, order preserving)
        behaviour-changed  every function is called on the same literal arguments in P and P' (effect tracer eff(k),
                           coroutines/generators driven to completion): (return value | exception type, effect log) differ,
                           or the effect log of executing the module body itself differs.
                           For the two producers whose intent IS a behaviour change (missing_f, missing_await) the
                           fixed function of P' is compared with the generator's reference fix ("f" prefix / "await").
        still-reported     D(P') still has as many diagnostics with the applied diagnostic's (code, description) as D(P)
      and the step is repeated on P' until nothing is applied any more.
      Operands of % formatting / f-string fields are additionally enumerated by inferred-type class (conversion x type class x
      placement): 12 independent one-function units are checked in one run, the hook's list of all Replacements tells which
      of them carry a proposal, and those are iterated as above; every function is called with an inhabitant of every member
      of its operand's type (a fix that is right for one member of a union and wrong for another shows only then).
  (2) add-ignores.  P_0 = program of vp.illtyped (plus single-snippet programs, tab / CRLF variants);
      P_{i+1} = new_code of run(P_i, add_ignores=True, apply_changes=True), up to ITERATION_LIMIT:
        unparsable / no-fixpoint / ast-changed (final dump != original) / ignore-too-wide / ignore-redundant
      (each added comment is removed alone from the final text: exactly the diagnostics of its (code, line) must return).
      A sample goes through the real CLI (`-A`, `-r --add-ignores`) on files under VERIF_SCRATCH.

Mechanism key: <producer>|<AST type of the rewritten statement>|<clause>[:<mechanism>]; mechanism rules (structural
features of the witness only) fold one root cause seen through several producers / statement types into one key with
`*` in the folded positions.  Unknown classes keep the generic three-part key.
"""
from __future__ import annotations

import ast
import inspect
import io
import os
import random
import re
import tokenize
import types
import warnings
from collections import Counter
from typing import Optional

from vp import harness
from vp.core import digest

from pyanalyze import node_visitor as _nv

ID = "C16"
LEVEL = "exploration"
TECHNIQUE = "reference execution (CPython runs P and P' under an effect tracer) + fix/recheck histories"
ITERATION_LIMIT = _nv.ITERATION_LIMIT

# ---------------------------------------------------------------------------
# record-only hook: which Replacement does _apply_changes_to_lines apply?

APPLIED: list = []
_orig_apply = _nv.BaseNodeVisitor.__dict__["_apply_changes_to_lines"].__func__


def _recording_apply(cls, changes, input_lines):
    ch = changes[0] if changes else None
    if ch is None:
        APPLIED.append(None)
    else:
        APPLIED.append({
            "lines": sorted(ch.linenos_to_delete),
            "add": None if ch.lines_to_add is None else list(ch.lines_to_add),
            "error": None if ch.error_str is None else harness.normalise_text(str(ch.error_str)),
            "nchanges": len(changes),
            # every Replacement of the run: (line numbers, carries new lines?) -- read by the batch classifier only
            "all": [(sorted(c.linenos_to_delete), c.lines_to_add is not None) for c in changes],
        })
    return _orig_apply(cls, changes, input_lines)


_nv.BaseNodeVisitor._apply_changes_to_lines = classmethod(_recording_apply)

FIX_MODE = dict(mode="tests")
IGN_MODE = dict(mode="tests", overrides={"unused_ignore": False, "bare_ignore": False})

PRODUCER_OF = {
    "unused_variable": "unused", "unused_assignment": "unused", "missing_f": "missing_f",
    "use_fstrings": "use_fstrings", "too_many_positional_args": "too_many_positional_args",
    "unused_ignore": "unused_ignore", "missing_await": "missing_await",
}
INTENT_CHANGING = {"missing_f", "missing_await"}


class Undecided(Exception):
    pass


def run_apply(source: str, add_ignores: bool = False):
    """-> (Result, applied-change record or None). Raises Undecided when the program cannot be imported."""
    del APPLIED[:]
    try:
        r = harness.run(source, apply_changes=True, add_ignores=add_ignores, **(IGN_MODE if add_ignores else FIX_MODE))
    except SyntaxError:
        raise
    except Exception as e:  # noqa: BLE001  (module import failed)
        raise Undecided(f"program does not import: {e!r}")
    if r.exception is not None:
        raise Undecided(f"check raised {r.exception!r}")
    return r, (APPLIED[-1] if APPLIED else None)


def run_diags(source: str, ignores_mode: bool = False) -> list:
    try:
        r = harness.run(source, **(IGN_MODE if ignores_mode else FIX_MODE))
    except SyntaxError:
        raise
    except Exception as e:  # noqa: BLE001
        raise Undecided(f"program does not import: {e!r}")
    if r.exception is not None:
        raise Undecided(f"check raised {r.exception!r}")
    return r.diags


# ---------------------------------------------------------------------------
# reference execution


def _safe_repr(v) -> str:
    return re.sub(r" at 0x[0-9a-f]+", "", repr(v))[:300]


def _drive(v, log):
    if inspect.iscoroutine(v):
        for _ in range(50):
            try:
                y = v.send(None)
            except StopIteration as e:
                return ("coro", _safe_repr(e.value))
            log.append(("yielded", _safe_repr(y)))
        v.close()
        return ("coro", "<unfinished>")
    if isinstance(v, types.GeneratorType):
        items = []
        for _ in range(50):
            try:
                items.append(_safe_repr(next(v)))
            except StopIteration as e:
                return ("gen", tuple(items), _safe_repr(e.value))
        v.close()
        return ("gen", tuple(items), "<unfinished>")
    return ("ret", _safe_repr(v))


IMPORT = "<module import>"


def observe(source: str, calls: dict) -> dict:
    """fname -> list of (outcome, effect log); CPython is the judge. The pseudo-name IMPORT carries the effect log of
    executing the module body."""
    ns: dict = {"__name__": "c16_exec"}
    out: dict = {}
    with warnings.catch_warnings():
        warnings.simplefilter("ignore")
        try:
            exec(compile(source, "<c16>", "exec"), ns)
        except BaseException as e:  # noqa: BLE001
            return {f: [(("import-error", type(e).__name__), ())] for f in list(calls) + [IMPORT]}
        # what executing the module itself did (decorators, default arguments, class bodies of top-level definitions)
        log0 = ns.get("LOG")
        out[IMPORT] = [(("imported",), tuple(map(_safe_repr, log0)) if isinstance(log0, list) else ())]
        for fname, arglists in calls.items():
            res = []
            fn = ns.get(fname)
            for args in arglists:
                log = ns.get("LOG")
                if isinstance(log, list):
                    del log[:]
                else:
                    log = []
                if fn is None:
                    res.append((("missing-function",), ()))
                    continue
                try:
                    argv = [eval(a, ns) for a in args]
                    o = _drive(fn(*argv), log)
                except BaseException as e:  # noqa: BLE001
                    o = ("exc", type(e).__name__)
                res.append((o, tuple(map(_safe_repr, log))))
            out[fname] = res
    return out


# ---------------------------------------------------------------------------
# AST helpers


def try_parse(source: str):
    try:
        with warnings.catch_warnings():
            warnings.simplefilter("ignore")
            return ast.parse(source), None
    except (SyntaxError, ValueError) as e:
        return None, e


def stmts_preorder(tree):
    out = []

    def rec(node, anc):
        for ch in ast.iter_child_nodes(node):
            if isinstance(ch, ast.stmt):
                out.append((ch, anc))
                rec(ch, anc + (ch,))
            else:
                rec(ch, anc)

    rec(tree, ())
    return out


def innermost_stmt(tree, line: int, col: Optional[int]):
    """Innermost statement covering (line, col); falls back to the innermost statement whose lines cover `line`."""
    best = None
    best_line = None
    for s, anc in stmts_preorder(tree):
        end = getattr(s, "end_lineno", s.lineno)
        # a decorated definition starts at the `@` of its first decorator
        decos = getattr(s, "decorator_list", None)
        lo, lo_col = (decos[0].lineno, max(decos[0].col_offset - 1, 0)) if decos else (s.lineno, s.col_offset)
        if lo <= line <= end:
            best_line = (s, anc)
            if col is not None:
                start_ok = (lo, lo_col) <= (line, col)
                end_ok = (line, col) < (end, getattr(s, "end_col_offset", 10 ** 9))
                if start_ok and end_ok:
                    best = (s, anc)
    return best or best_line


def unrelated_dumps(tree, S, anc) -> list:
    skip = set(map(id, anc))
    if S is not None:
        skip.add(id(S))
        for n in ast.walk(S):
            skip.add(id(n))
    return [ast.dump(s) for s, _ in stmts_preorder(tree) if id(s) not in skip]


def is_subsequence(small: list, big: list) -> Optional[str]:
    """None if `small` is an order-preserving subsequence of `big`, else the first element that is not found."""
    it = iter(big)
    for x in small:
        for y in it:
            if x == y:
                break
        else:
            return x
    return None


def top_function_of(tree, line: int) -> Optional[str]:
    for n in tree.body:
        if isinstance(n, (ast.FunctionDef, ast.AsyncFunctionDef)):
            first = min([n.lineno] + [d.lineno for d in n.decorator_list])
            if first <= line <= n.end_lineno:
                return n.name
    return None


def shape_of(S) -> str:
    if S is None:
        return "Comment"
    return " ".join(type(n).__name__ for n in ast.walk(S) if not isinstance(n, (ast.expr_context, ast.operator, ast.cmpop, ast.unaryop, ast.boolop)))[:240]


# ---------------------------------------------------------------------------
# (1) one fix step


def applied_diag(diags, change):
    lo, hi = change["lines"][0], change["lines"][-1]
    for d in diags:
        if d.lineno is not None and d.description == change["error"] and lo <= d.lineno <= hi:
            return d
    for d in diags:
        if d.lineno is not None and d.description == change["error"]:
            return d
    return None


def fix_step(source: str, calls: dict, refs: dict) -> dict:
    """One apply step on `source`. -> info dict:
       status: 'clean' (no diagnostics) | 'no-fix' (diagnostics, nothing applied) | 'applied'
       for 'applied': diag, producer, stmt_type, shape, new_code, violation (clause, detail) or None."""
    r, change = run_apply(source)
    info: dict = {"diags": r.diags, "change": change}
    if not r.diags:
        info["status"] = "clean"
        return info
    if change is None or change["add"] is None:
        info["status"] = "no-fix"
        info["blocked"] = bool(change is not None and change["add"] is None and change["nchanges"] > 1)
        return info
    d = applied_diag(r.diags, change)
    if d is None:
        raise Undecided(f"applied change {change['error']!r} matches no reported diagnostic")
    tree = ast.parse(source)
    hit = innermost_stmt(tree, d.lineno, d.col)
    S, anc = hit if hit else (None, ())
    producer = PRODUCER_OF.get(d.code, d.code)
    new_code = r.new_code
    info.update(status="applied", diag=d, producer=producer, new_code=new_code,
                stmt_type=type(S).__name__ if S is not None else "Comment", shape=shape_of(S),
                fname=top_function_of(tree, d.lineno), violation=None)
    info["features"] = step_features(source, tree, S, anc, d, change, new_code)
    new_tree, err = try_parse(new_code)
    if new_tree is None:
        info["violation"] = ("unparsable", f"{type(err).__name__}: {err}")
        return info
    # other statements untouched?
    if S is None:
        if ast.dump(tree) != ast.dump(new_tree):
            info["violation"] = ("ast-changed", "a comment was removed but the syntax tree changed")
            return info
    else:
        missing = is_subsequence(unrelated_dumps(tree, S, anc), [ast.dump(s) for s, _ in stmts_preorder(new_tree)])
        if missing is not None:
            info["violation"] = ("ast-changed", f"another statement is gone or altered: {_short_dump(missing)}")
            return info
    # behaviour
    before = observe(source, calls)
    after = observe(new_code, calls)
    fname = info["fname"]
    for f in calls:
        expect = before[f]
        what_ref = "P"
        if f == fname and producer in INTENT_CHANGING:
            if f not in refs:
                continue
            ref_src = replace_function(source, f, refs[f])
            expect = observe(ref_src, {f: calls[f]})[f]
            what_ref = "reference fix"
        if expect != after[f]:
            i = next(i for i, (x, y) in enumerate(zip(expect, after[f])) if x != y)
            info["violation"] = (
                "behaviour-changed",
                f"{f}({', '.join(calls[f][i])}): {what_ref} gives {expect[i]}, P' gives {after[f][i]}"
                + ("" if f == fname else " (a function the fix was not about)"),
            )
            info["behaviour_pair"] = (expect[i], after[f][i])
            info["failing_args"] = list(calls[f][i])
            info["other_function"] = f != fname
            return info
    if before[IMPORT] != after[IMPORT]:
        info["violation"] = ("behaviour-changed",
                             f"executing the module body: P gives {before[IMPORT][0]}, P' gives {after[IMPORT][0]}")
        info["behaviour_pair"] = (before[IMPORT][0], after[IMPORT][0])
        info["other_function"] = False
        info["at_import"] = True
        return info
    # still reported?
    nd = run_diags(new_code)
    kd = (d.code, d.description)
    n_before = sum(1 for x in r.diags if (x.code, x.description) == kd)
    n_after = sum(1 for x in nd if (x.code, x.description) == kd)
    info["new_diags"] = nd
    if n_after >= n_before:
        info["violation"] = ("still-reported", f"{d.short()} reported {n_before}x on P and {n_after}x on P'")
    return info


def _short_dump(s: str) -> str:
    return s if len(s) < 160 else s[:157] + "..."


def replace_function(source: str, fname: str, new_text: str) -> str:
    """Source with top-level function `fname` replaced by `new_text` (the generator's reference fix)."""
    tree = ast.parse(source)
    lines = source.splitlines(keepends=True)
    for n in tree.body:
        if isinstance(n, (ast.FunctionDef, ast.AsyncFunctionDef)) and n.name == fname:
            first = min([n.lineno] + [d.lineno for d in n.decorator_list])
            return "".join(lines[: first - 1]) + new_text.rstrip("\n") + "\n" + "".join(lines[n.end_lineno:])
    raise Undecided(f"function {fname} not found for reference fix")


def step_features(source, tree, S, anc, d, change, new_code) -> dict:
    """Structural facts about the rewritten place; mechanism rules read these only."""
    lines = source.splitlines()
    f: dict = {}
    lo, hi = change["lines"][0], change["lines"][-1]
    f["removed_lines"] = (lo, hi)
    f["pure_removal"] = change["add"] == []
    f["replaced_by_pass"] = [ln.strip() for ln in change["add"]] == ["pass"]
    if S is not None:
        s_lo, s_hi = S.lineno, S.end_lineno
        # other statements sharing a physical line with S (`a; b`, `if c: a`)
        shared = False
        for s, _ in stmts_preorder(tree):
            if s is S or any(s is x for x in ast.walk(S)):
                continue
            if s.lineno <= s_hi and s.end_lineno >= s_lo and not any(s is a for a in anc):
                shared = True
            if any(s is a for a in anc) and s.lineno == s_lo and not isinstance(s, (ast.FunctionDef, ast.AsyncFunctionDef, ast.ClassDef)) :
                shared = True   # `if c: S` on one line
            if any(s is a for a in anc) and s.lineno == s_lo and isinstance(s, (ast.FunctionDef, ast.AsyncFunctionDef)):
                shared = True   # `def f(): S`
        f["shares_line"] = shared
        f["range_short"] = hi < s_hi          # pyanalyze's line range stops before the statement ends
        f["range_long"] = hi > s_hi
        parent_body = None
        holder = anc[-1] if anc else tree
        # the statement list S stands in (bodies of except handlers and match cases hang off non-statement nodes)
        for node in ast.walk(holder):
            for name in ("body", "orelse", "finalbody"):
                seq = getattr(node, name, None)
                if parent_body is None and isinstance(seq, list) and any(x is S for x in seq):
                    parent_body = seq
        f["sole_in_block"] = parent_body is not None and len(parent_body) == 1
        first_line = lines[s_lo - 1]
        ws = first_line[: len(first_line) - len(first_line.lstrip())]
        f["tab_indent"] = "\t" in ws
        f["compound"] = isinstance(S, (ast.If, ast.For, ast.While, ast.With, ast.Try, ast.FunctionDef, ast.AsyncFunctionDef, ast.ClassDef))
        f["multiline"] = s_hi > s_lo
        val = getattr(S, "value", None)
        # evaluating the right-hand side can do something: it contains more than constants, names and tuple displays
        # (calls, suspension points, operators and protocol hooks, lambda defaults, comprehensions, f-strings ...)
        f["rhs_has_call_or_yield"] = val is not None and any(
            not isinstance(n, (ast.Constant, ast.Name, ast.Tuple, ast.expr_context)) for n in ast.walk(val))
        f["n_targets"] = len(S.targets) if isinstance(S, ast.Assign) else None
        f["has_comment_inside"] = any("#" in ln for ln in lines[s_lo - 1: s_hi])
        # S is the `elif` clause of its parent (an If that is the whole orelse of an If and is spelled `elif`)
        f["elif_clause"] = bool(
            isinstance(S, ast.If) and anc and isinstance(anc[-1], ast.If) and len(anc[-1].orelse) == 1
            and anc[-1].orelse[0] is S and first_line.lstrip().startswith("elif"))
        # S is a decorated definition and P' carries more decorator lines than P
        n_deco = len(getattr(S, "decorator_list", ()))
        f["decorated_definition"] = n_deco > 0
        f["decorator_lines_gained"] = False
        if n_deco:
            new_tree, _ = try_parse(new_code)
            if new_tree is not None:
                def count(t):
                    return sum(len(n.decorator_list) for n in ast.walk(t)
                               if isinstance(n, (ast.FunctionDef, ast.AsyncFunctionDef, ast.ClassDef)))
                f["decorator_lines_gained"] = count(new_tree) > count(tree)
            else:
                f["decorator_lines_gained"] = sum(ln.lstrip().startswith("@") for ln in new_code.splitlines()) > sum(
                    ln.lstrip().startswith("@") for ln in lines)
    else:
        text = lines[lo - 1] if lo - 1 < len(lines) else ""
        m = re.search(re.escape(_nv.IGNORE_COMMENT) + r"(\[[^\s\]]+\])?", text)
        f["text_after_ignore"] = bool(m and text[m.end():].strip() and not text[m.end():].lstrip().startswith("#"))
    return f


# ---------------------------------------------------------------------------
# (1) generators: prelude, units, contexts

PRELUDE = '''\
import enum
from typing import Tuple
LOG = []
def eff(k=0, *more, **kw):
    LOG.append(k)
    return k
class Inner:
    def __init__(self):
        self.v = 4
        self.flag = True
class Obj:
    def __init__(self):
        self.name = "nm"
        self.num = 3
        self.flag = True
        self.ratio = 2.5
        self.pair = (7,)
        self.inner = Inner()
OBJ = Obj()
BYSTANDER = [1, 2]
'''
BYSTANDER_FN = '''\
def bystander(a):
    k = [a, eff(40)]  # a comment that no fix should touch
    return k
'''
BYSTANDER_CALLS = {"bystander": [("1",)]}

IGN = _nv.IGNORE_COMMENT


class Site:
    """One fix site: `pre` statements, the `site` statement (list of lines; a leading \\0 = emit at column 0),
    `post` statements; all relative to the function body."""

    def __init__(self, producer, shape, site, *, pre=(), post=("return a",), params=("a",), calls=(("1",), ("'v'",)),
                 ref_site=None, top=(), is_async=False, simple=True, expect_fix=True, canonical=False):
        self.producer = producer
        self.shape = shape
        self.site = list(site)
        self.pre = list(pre)
        self.post = list(post)
        self.params = list(params)
        self.calls = [tuple(c) for c in calls]
        self.ref_site = None if ref_site is None else list(ref_site)
        self.top = list(top)            # helper definitions placed at top level before the function
        self.is_async = is_async
        self.simple = simple            # single-line simple statement (may take `;` neighbours)
        self.expect_fix = expect_fix
        self.canonical = canonical


def _tabify(ln: str) -> str:
    if ln.startswith("\0"):
        return ln
    body = ln.lstrip(" ")
    n = len(ln) - len(body)
    return "\t" * (n // 4) + " " * (n % 4) + body


def _ind(lines, by):
    return [ln[1:] if ln.startswith("\0") else (by + ln if ln else ln) for ln in lines]


CONTEXTS = ["plain", "if-sole", "if-second", "else-sole", "for", "try", "semi-after", "semi-before", "oneline-if",
            "trailing-comment", "comment-above", "nested-def", "deep", "tab", "tab-deep", "with",
            # the site as the ONLY statement of every other kind of block (a removed statement must leave `pass`)
            "elif-sole", "except-sole", "except-if-sole", "finally-sole", "tryelse-sole", "forelse-sole", "with-sole",
            "case-sole", "case-if-sole"]


# the site as the WHOLE body of the remaining block kinds (enumerated for the removing producer; drawn at random for all)
WHOLE_BODY_CONTEXTS = ["for-sole", "while-sole", "try-sole", "def-sole", "nested-def-sole"]
ALL_CONTEXTS = CONTEXTS + WHOLE_BODY_CONTEXTS


def apply_context(ctxname: str, site: Site, site_lines):
    """-> body lines (relative indentation), or None when the context does not apply to this site."""
    pre, post = list(site.pre), list(site.post)
    s = list(site_lines)
    if ctxname in ("plain", "tab"):
        return pre + s + post
    if ctxname == "if-sole":
        return pre + ["if a is not None:"] + _ind(s, "    ") + post
    if ctxname == "if-second":
        return pre + ["if a is not None:"] + _ind(["eff(7)"] + s, "    ") + post
    if ctxname == "else-sole":
        return pre + ["if a is None:", "    eff(3)", "else:"] + _ind(s, "    ") + post
    if ctxname == "for":
        return pre + ["for _k in range(2):"] + _ind(s + ["eff(8)"], "    ") + post
    if ctxname == "try":
        return pre + ["try:"] + _ind(s, "    ") + ["finally:", "    eff(6)"] + post
    if ctxname == "with":
        return pre + ["with open('/dev/null') as _fh:"] + _ind(s + ["eff(2)"], "    ") + post
    if ctxname == "elif-sole":
        return pre + ["if a is None:", "    eff(3)", "elif a is not None:"] + _ind(s, "    ") + post
    if ctxname == "except-sole":
        return pre + ["try:", "    OBJ.pair[eff(6)]", "except IndexError:"] + _ind(s, "    ") + post
    if ctxname == "except-if-sole":
        return pre + ["try:", "    OBJ.pair[eff(6)]", "except IndexError:", "    if a is not None:"] + _ind(s, "        ") + post
    if ctxname == "finally-sole":
        return pre + ["try:", "    eff(6)", "finally:"] + _ind(s, "    ") + post
    if ctxname == "tryelse-sole":
        return pre + ["try:", "    eff(6)", "except IndexError:", "    eff(1)", "else:"] + _ind(s, "    ") + post
    if ctxname == "forelse-sole":
        return pre + ["for _k in range(2):", "    eff(8)", "else:"] + _ind(s, "    ") + post
    if ctxname == "with-sole":
        return pre + ["with open('/dev/null') as _fh:"] + _ind(s, "    ") + post
    if ctxname == "case-sole":
        return pre + ["match a:", "    case None:", "        eff(3)", "    case _:"] + _ind(s, "        ") + post
    if ctxname == "case-if-sole":
        return pre + ["match a:", "    case None:", "        eff(3)", "    case _:", "        if a is not None:"] + _ind(s, "            ") + post
    if ctxname == "for-sole":
        return pre + ["for _k in range(2):"] + _ind(s, "    ") + post
    if ctxname == "while-sole":
        return pre + ["while eff(8) != 8:"] + _ind(s, "    ") + post
    if ctxname == "try-sole":
        return pre + ["try:"] + _ind(s, "    ") + ["except IndexError:", "    eff(6)"] + post
    if ctxname == "def-sole":
        # the site is the whole body of the function
        if pre or post != ["return a"]:
            return None
        return s
    if ctxname == "nested-def-sole":
        if any(ln.lstrip().startswith(("return", "yield")) or "yield" in ln or "await" in ln for ln in s) or site.is_async:
            return None
        return pre + ["def inner():"] + _ind(s, "    ") + ["eff(inner())"] + post
    if ctxname in ("deep", "tab-deep"):
        return pre + ["for _k in range(2):", "    if a is not None:"] + _ind(["eff(7)"] + s, "        ") + post
    if ctxname == "semi-after":
        if not site.simple:
            return None
        return pre + [s[0] + "; eff(5)"] + post
    if ctxname == "semi-before":
        if not site.simple:
            return None
        return pre + ["eff(5); " + s[0]] + post
    if ctxname == "oneline-if":
        if not site.simple:
            return None
        return pre + ["if a is not None: " + s[0]] + post
    if ctxname == "trailing-comment":
        if any("#" in ln for ln in s) or s[-1].rstrip().endswith("\\") or '"""' in s[-1]:
            return None
        return pre + s[:-1] + [s[-1] + "  # a note"] + post
    if ctxname == "comment-above":
        return pre + ["# a note above"] + s + post
    if ctxname == "nested-def":
        if any(ln.lstrip().startswith(("return", "yield")) or "yield" in ln for ln in s) or site.is_async:
            return None
        inner_post = [p for p in post]
        return ["def inner():"] + _ind(pre + s + inner_post, "    ") + ["return inner()"]
    raise ValueError(ctxname)


def render_unit(idx: int, site: Site, ctxname: str):
    """-> (top-level text of the unit, function name, ref text or None) or None."""
    body = apply_context(ctxname, site, site.site)
    if body is None:
        return None
    by = "\t" if ctxname.startswith("tab") else "    "

    def text(body_lines):
        head = f"{'async ' if site.is_async else ''}def f{idx}({', '.join(site.params)}):"
        body_lines = [_tabify(ln) if by == "\t" else ln for ln in body_lines]
        out = site.top + [head] + _ind(body_lines, by)
        return "\n".join(out).replace("$N", str(idx)) + "\n"

    ref = None
    if site.ref_site is not None:
        ref_body = apply_context(ctxname, site, site.ref_site)
        if ref_body is None:
            return None
        ref_lines = [f"{'async ' if site.is_async else ''}def f{idx}({', '.join(site.params)}):"] + _ind(
            [_tabify(ln) if by == "\t" else ln for ln in ref_body], by)
        ref = "\n".join(ref_lines).replace("$N", str(idx)) + "\n"
    return text(body), f"f{idx}", ref


def build_program(units, header=""):
    """units: list of (site, ctxname). -> dict(source, calls, refs, meta) or None."""
    parts = [header + PRELUDE]
    calls: dict = {}
    refs: dict = {}
    meta = []
    for i, (site, ctxname) in enumerate(units):
        ru = render_unit(i, site, ctxname)
        if ru is None:
            return None
        text, fname, ref = ru
        parts.append(text)
        calls[fname] = [tuple(a.replace("$N", str(i)) for a in c) for c in site.calls]
        if ref is not None:
            refs[fname] = ref
        meta.append((fname, site.producer, site.shape, ctxname))
    parts.append(BYSTANDER_FN)
    calls.update(BYSTANDER_CALLS)
    return {"source": "\n".join(parts), "calls": calls, "refs": refs, "meta": meta}


# ---------------------------------------------------------------------------
# site pools


def sites_unused():
    S = Site
    out = []
    I2 = (("2",), ("3",))
    # single target, RHS varies
    for shape, rhs, kw in [
        ("rhs-literal", "1", dict(canonical=True)),
        ("rhs-pure-expr", "a * 2", {}),
        ("rhs-effect-call", "eff(1)", dict(canonical=True)),
        ("rhs-effect-nested", "[eff(1), 2]", {}),
        ("rhs-raises-call", "int(a)", dict(calls=(("'12'",), ("'zz'",)))),
        ("rhs-raises-subscript", "[1, 2, 3][a]", dict(calls=(("0",), ("5",)))),
        ("rhs-attribute", "OBJ.name", {}),
        ("rhs-lambda", "lambda: eff(1)", {}),
        ("rhs-string", "'text'", {}),
        ("rhs-comprehension", "[q for q in range(2)]", {}),
    ]:
        out.append(S("unused", shape, ["x$N = " + rhs], **kw))
    out.append(S("unused", "rhs-walrus-used-later", ["x$N = (w$N := eff(1))"], post=["return w$N"]))
    out.append(S("unused", "rhs-yield", ["x$N = yield a"], post=["return 9"]))
    out.append(S("unused", "rhs-yield-from", ["x$N = yield from [a, eff(1)]"], post=["return 9"]))
    out.append(S("unused", "rhs-await", ["x$N = await c$N()"], top=["async def c$N():", "    eff(1)", "    return 5"],
                 is_async=True))
    # unused_assignment (the name is assigned again and that one is read)
    out.append(S("unused", "reassigned-literal", ["x$N = 1"], post=["x$N = 2", "return x$N"], canonical=True))
    out.append(S("unused", "reassigned-effect", ["x$N = eff(1)"], post=["x$N = 2", "return x$N"]))
    # targets
    out.append(S("unused", "tuple-all-unused", ["x$N, y$N = eff(1), 2"], expect_fix=False))
    out.append(S("unused", "tuple-partly-used", ["x$N, y$N = eff(1), 2"], post=["return y$N"], expect_fix=False))
    out.append(S("unused", "list-target", ["[x$N, y$N] = [eff(1), 2]"], expect_fix=False))
    out.append(S("unused", "starred-target", ["x$N, *y$N = [1, 2, 3]"], expect_fix=False))
    out.append(S("unused", "multi-target-other-used", ["x$N = y$N = a * 2"], post=["return y$N"], expect_fix=False, canonical=True))
    out.append(S("unused", "multi-target-other-used-effect", ["x$N = y$N = eff(1)"], post=["return y$N"], expect_fix=False))
    out.append(S("unused", "multi-target-first-used", ["y$N = x$N = a * 2"], post=["return y$N"], expect_fix=False))
    out.append(S("unused", "multi-target-tuple", ["x$N = y$N, z$N = 1, 2"], post=["return y$N + z$N"], expect_fix=False))
    out.append(S("unused", "multi-target-all-unused", ["x$N = y$N = 1"], expect_fix=False))
    out.append(S("unused", "annassign", ["x$N: int = eff(1)"], expect_fix=False))
    out.append(S("unused", "annassign-no-value", ["x$N: int"], expect_fix=False))
    out.append(S("unused", "for-target", ["for i$N in range(2): eff(1)"], simple=False, expect_fix=False))
    out.append(S("unused", "with-target", ["with open('/dev/null') as fh$N: eff(1)"], simple=False, expect_fix=False))
    out.append(S("unused", "two-unused-one-line", ["x$N = 1; y$N = eff(2)"], simple=False))
    out.append(S("unused", "unused-then-used-one-line", ["x$N = 1; y$N = eff(2)"], post=["return y$N"], simple=False))
    out.append(S("unused", "used-then-unused-one-line", ["y$N = eff(2); x$N = 1"], post=["return y$N"], simple=False))
    # multi-line right-hand sides
    for shape, lines in [
        ("ml-paren-deeper", ["x$N = (", "    1 +", "    2", ")"]),
        ("ml-list-closing-bracket", ["x$N = [", "    1,", "    2,", "]"]),
        ("ml-call-hanging", ["x$N = len(", '    "ab")']),
        ("ml-paren-same-indent", ["x$N = (1 +", "2)"]),
        ("ml-paren-column0", ["x$N = (1 +", "\0  2)"]),
        ("ml-backslash-deeper", ["x$N = 1 + \\", "    2"]),
        ("ml-backslash-same-indent", ["x$N = 1 + \\", "2"]),
        ("ml-string-deeper", ['x$N = """a', '    b"""']),
        ("ml-string-same-indent", ['x$N = """a', 'b"""']),
        ("ml-string-column0", ['x$N = """a', '\0b"""']),
        ("ml-string-delimiter-own-line", ['x$N = """a', "\0b", '\0"""']),
        ("ml-string-3-lines-column0", ['x$N = """a', "\0b", '\0c"""']),
        ("ml-call-effect", ["x$N = eff(", "    1,", ")"]),
        ("ml-followed-by-deeper-comment", ["x$N = 1", "        # deeper comment"]),
    ]:
        out.append(S("unused", shape, lines, simple=False, canonical=shape in ("ml-paren-deeper", "ml-string-column0")))
    # comprehension variables (fix: rename to _)
    for shape, lines, kw in [
        ("comp-list-return", ["return [1 for i$N in range(a)]"], dict(post=[], canonical=True)),
        ("comp-list-expr-effect", ["[eff(2) for i$N in range(a)]"], {}),
        ("comp-set", ["return {1 for i$N in range(a)}"], dict(post=[])),
        ("comp-dict", ["return {1: 2 for i$N in range(a)}"], dict(post=[])),
        ("comp-genexp", ["return sum(1 for i$N in range(a))"], dict(post=[])),
        ("comp-nested-inner-unused", ["return [i$N for i$N in range(a) for j$N in range(i$N)]"], dict(post=[])),
        ("comp-underscore-already-loop-var", ["return [_ for _ in range(a) for i$N in range(2)]"], dict(post=[])),
        ("comp-underscore-is-a-function", ["return [_('s') for i$N in range(a)]"], dict(pre=["_ = str.upper"], post=[])),
        ("comp-tuple-target-all-unused", ["return [1 for i$N, j$N in [(a, a)]]"], dict(post=[], expect_fix=False)),
        ("comp-tuple-target-partly", ["return [i$N for i$N, j$N in [(a, a)]]"], dict(post=[], expect_fix=False)),
        ("comp-in-if-header", ["if [1 for i$N in range(a)]:", "    eff(1)  # body comment", "else:", "    eff(2)"], dict(simple=False)),
        ("comp-assign", ["v$N = [1 for i$N in range(a)]"], dict(post=["return v$N"])),
        ("comp-multiline", ["return [", "    1", "    for i$N in range(a)", "]"], dict(post=[], simple=False)),
        ("comp-with-condition", ["return [1 for i$N in range(a) if a]"], dict(post=[])),
    ]:
        kw.setdefault("calls", I2)
        kw.setdefault("simple", len(lines) == 1)
        out.append(S("unused", shape, lines, **kw))
    return out


A10_TEXT = "1, 2, 3, 4, 5, 6, 7, 8, 9, 10"

# ---- right-hand sides of an unused binding, enumerated by WHAT EVALUATING THEM DOES --------------------------------
# An object whose every protocol hook logs an effect: the expression that triggers the hook contains no call node.
DUNDER_TOP = [
    "class K$N:",
    "    @property",
    "    def prop(self):",
    "        return eff(1)",
    "    def __getattr__(self, name):",
    "        return eff(2)",
    "    def __getitem__(self, i):",
    "        return eff(3)",
    "    def __add__(self, o):",
    "        return eff(4)",
    "    def __radd__(self, o):",
    "        return eff(5)",
    "    def __lt__(self, o):",
    "        return bool(eff(6))",
    "    def __eq__(self, o):",
    "        return bool(eff(7))",
    "    def __neg__(self):",
    "        return eff(8)",
    "    def __contains__(self, o):",
    "        return bool(eff(9))",
    "    def __bool__(self):",
    "        return bool(eff(10))",
    "    def __iter__(self):",
    "        eff(11)",
    "        return iter(())",
    "    def __format__(self, spec):",
    "        eff(12)",
    "        return ''",
    "def mk$N() -> K$N:",
    "    return K$N()",
]
DUNDER = dict(top=DUNDER_TOP, pre=["k$N = mk$N()"])   # a local of declared type K$N (its hooks are not evaluated by the checker)
CORO_TOP = ["async def c$N():", "    eff(1)", "    return 5"]
GEN9 = dict(post=["return 9"])

# (name, expression, Site keywords)
EFFECT_RHS = [
    # lambda: the body is inert, the DEFAULTS are evaluated where the lambda stands
    ("lambda-default-positional", "lambda e, t=eff(1): (e, t)", {}),
    ("lambda-default-keyword-only", "lambda e, *, t=eff(1): (e, t)", {}),
    ("lambda-default-both", "lambda e=eff(1), *, t=eff(2): (e, t)", {}),
    ("lambda-default-computed-by-lambda-call", "lambda e, t=(lambda: eff(1))(): e", {}),
    ("lambda-default-dunder", "lambda e, t=-k$N: e", DUNDER),
    ("lambda-default-inert", "lambda e, t=1: (e, t)", {}),
    ("lambda-body-only", "lambda e: eff(1)", {}),
    ("lambda-default-of-inner-lambda", "lambda: (lambda t=eff(1): t)", {}),
    # comprehensions: the first iterable of a generator expression is evaluated eagerly, the rest lazily
    ("listcomp-iterable", "[q for q in [eff(1)]]", {}),
    ("listcomp-element", "[eff(1) for q in range(2)]", {}),
    ("listcomp-condition", "[q for q in range(2) if eff(1)]", {}),
    ("setcomp-iterable", "{q for q in [eff(1)]}", {}),
    ("dictcomp-value", "{q: eff(1) for q in range(2)}", {}),
    ("genexp-first-iterable", "(q for q in [eff(1)])", {}),
    ("genexp-lazy-parts", "(eff(1) for q in range(2) if eff(2))", {}),
    ("genexp-dunder-iter", "(q for q in k$N)", DUNDER),
    # f-strings
    ("fstring-call", "f'{eff(1)}'", {}),
    ("fstring-call-in-spec", "f'{a:{eff(1)}}'", {}),
    ("fstring-dunder-format", "f'{k$N}'", DUNDER),
    ("fstring-inert", "f'{a}'", {}),
    # conditional / boolean expressions
    ("ifexp-body", "eff(1) if a else 2", {}),
    ("ifexp-test", "1 if eff(1) else 2", {}),
    ("ifexp-orelse", "2 if not a else eff(1)", {}),
    ("boolop-and", "a and eff(1)", {}),
    ("boolop-or", "a or eff(1)", {}),
    ("boolop-dunder-bool", "k$N and 1", DUNDER),
    # starred displays
    ("starred-in-list", "[*[eff(1)]]", {}),
    ("starred-in-tuple", "(*[eff(1)], 2)", {}),
    ("starred-in-set", "{*[eff(1)]}", {}),
    ("double-starred-in-dict", "{**{1: eff(1)}}", {}),
    ("starred-name-dunder-iter", "(*k$N,)", DUNDER),
    # walrus
    ("walrus-read-in-the-same-expression", "[(w$N := eff(1)), w$N]", {}),
    # protocol hooks of a user object: no call node anywhere
    ("attribute-property", "k$N.prop", DUNDER),
    ("attribute-getattr-hook", "k$N.missing", DUNDER),
    ("attribute-plain", "OBJ.name", {}),
    ("subscript-getitem", "k$N[0]", DUNDER),
    ("slice-getitem", "k$N[1:2]", DUNDER),
    ("binop-add", "k$N + 1", DUNDER),
    ("binop-radd", "1 + k$N", DUNDER),
    ("unaryop-neg", "-k$N", DUNDER),
    ("unaryop-not", "not k$N", DUNDER),
    ("compare-lt", "k$N < 1", DUNDER),
    ("compare-eq", "k$N == 1", DUNDER),
    ("compare-in", "1 in k$N", DUNDER),
    ("name-of-hook-object", "k$N", DUNDER),
    # suspension points
    ("yield", "(yield a)", GEN9),
    ("yield-from", "(yield from [a, eff(1)])", GEN9),
    ("await", "await c$N()", dict(top=CORO_TOP, is_async=True)),
]
RHS_DISPLAYS = [
    ("alone", "@E@"), ("in-tuple", "(@E@, 2)"), ("in-nested-tuple", "((@E@,), 2)"), ("in-list", "[@E@, 2]"),
    ("in-dict-value", "{1: @E@}"),
]
CANONICAL_EFFECT_RHS = {("lambda-default-positional", "alone"), ("lambda-default-keyword-only", "in-tuple"),
                        ("attribute-property", "alone")}


def sites_unused_effects():
    out = []
    for name, expr, kw in EFFECT_RHS:
        for dname, disp in RHS_DISPLAYS:
            rhs = disp.replace("@E@", expr)
            out.append(Site("unused", f"fx:{name}/{dname}", ["x$N = " + rhs], canonical=(name, dname) in CANONICAL_EFFECT_RHS, **kw))
    # the same right-hand sides where the name is assigned again (unused_assignment), alone only
    for name, expr, kw in EFFECT_RHS:
        kw = dict(kw)
        post = kw.pop("post", ["return a"])
        out.append(Site("unused", f"fx:{name}/reassigned", ["x$N = " + expr], post=["x$N = 2", "eff(x$N)"] + post, **kw))
    # a nested definition is a binding as well; its default arguments / decorators / bases run where it stands
    out.append(Site("unused", "fx:nested-def-default/unused-def", ["def x$N(q=eff(1)):", "    return q"], simple=False, expect_fix=False))
    out.append(Site("unused", "fx:nested-def-decorator/unused-def", ["@eff", "def x$N():", "    return 1"], simple=False, expect_fix=False))
    out.append(Site("unused", "fx:nested-class-base/unused-class", ["class x$N(eff(1) and object):", "    pass"], simple=False, expect_fix=False))
    return out


# ---- blocks in which EVERY statement is an unused binding (what is left of the block after one run / all runs?) ---------
def sites_unused_blocks():
    out = []
    for name, lines, canon in [
        ("2-removable", ["x$N = 1", "y$N = a"], True),
        ("3-removable", ["x$N = 1", "y$N = (a, 'b')", "z$N = None"], True),
        ("2-removable-same-name", ["x$N = 1", "x$N = 2"], True),
        ("removable-then-effect", ["x$N = 1", "y$N = eff(2)"], True),
        ("effect-then-removable", ["y$N = eff(2)", "x$N = 1"], False),
        ("2-effects", ["x$N = eff(1)", "y$N = [eff(2)]"], False),
        ("2-removable-blank-line-between", ["x$N = 1", "", "y$N = a"], False),
        ("2-removable-comment-between", ["x$N = 1", "# about y", "y$N = a"], False),
        ("2-removable-multi-line", ["x$N = (1,", "       2)", "y$N = (a,", "       a)"], False),
        ("removable-then-comprehension-variable", ["x$N = 1", "[eff(3) for i$N in range(2)]"], False),
        ("2-removable-one-line", ["x$N = 1; y$N = a"], False),
    ]:
        out.append(Site("unused", f"blk:{name}", lines, simple=False, canonical=canon))
    return out


# ---- the fix site in the HEADER of a compound statement / definition (the rewritten statement is the compound one) ------
DECO_TOP = ["def deco$N(fn):", "    eff(9)", "    return fn", "def decoarg$N(v):", "    eff(v)", "    return deco$N"]
HEADER_KINDS = [
    # (kind, lines with {T} = a test built from the expression / {E} = the expression, needs top)
    ("if", ["if {T}:", "    eff(1)", "else:", "    eff(2)"], []),
    ("elif", ["if a == 5:", "    eff(3)", "elif {T}:", "    eff(1)", "else:", "    eff(2)"], []),
    ("elif-without-else", ["if a == 5:", "    eff(3)", "elif {T}:", "    eff(1)"], []),
    ("second-elif", ["if a == 5:", "    eff(3)", "elif a == 6:", "    eff(4)", "elif {T}:", "    eff(1)", "else:", "    eff(2)"], []),
    ("elif-followed-by-elif", ["if a == 5:", "    eff(3)", "elif {T}:", "    eff(1)", "elif a == 1:", "    eff(4)"], []),
    ("if-nested-in-else", ["if a == 5:", "    eff(3)", "else:", "    if {T}:", "        eff(1)", "    else:", "        eff(2)"], []),
    ("while", ["while {T}:", "    eff(1)", "    break", "else:", "    eff(2)"], []),
    ("for-iterable", ["for _q in [{E}]:", "    eff(_q)", "else:", "    eff(2)"], []),
    ("with-item", ["with open('/dev/null' if {T} else '/dev/zero') as _fh:", "    eff(1)"], []),
    ("match-subject", ["match {E}:", "    case _q if a == 5:", "        eff(1)", "    case _:", "        eff(2)"], []),
    ("case-guard", ["match a:", "    case 5:", "        eff(3)", "    case _ if {T}:", "        eff(1)", "    case _:", "        eff(2)"], []),
    ("assert", ["assert ({E}) != 0, 'msg'"], []),
    ("def-default", ["def inner$N(b={E}):", "    return b", "eff(inner$N())"], []),
    ("def-default-decorated", ["@deco$N", "def inner$N(b={E}):", "    return b", "eff(inner$N())"], DECO_TOP),
    ("def-default-two-decorators", ["@deco$N", "@decoarg$N(7)", "def inner$N(b={E}):", "    return b", "eff(inner$N())"], DECO_TOP),
    ("def-keyword-only-default-decorated", ["@deco$N", "def inner$N(*, b={E}):", "    return b", "eff(inner$N())"], DECO_TOP),
    ("async-def-default-decorated", ["@deco$N", "async def inner$N(b={E}):", "    return b", "eff(inner$N)"], DECO_TOP),
    ("decorator-argument", ["@decoarg$N({E})", "def inner$N():", "    return 1", "eff(inner$N())"], DECO_TOP),
    ("class-keyword-decorated", ["@deco$N", "class Inner$N(object, metaclass=type if {T} else type):", "    pass", "eff(Inner$N.__name__)"], DECO_TOP),
]
HEADER_EXPRS = [
    # (producer, expression, reference expression or None, test built from it)
    ("missing_f", '"v={a}!"', 'f"v={a}!"', "{E} == 'v=1!'"),
    ("use_fstrings", '"%s" % a', None, "{E} == '1'"),
    ("too_many_positional_args", f"g$N({A10_TEXT})", None, "{E} == 1"),
    ("unused", "[1 for i$N in range(a)]", None, "{E} == [1]"),
]


def sites_headers():
    out = []
    calls = (("1",), ("5",), ("2",))
    g_top = ["def g$N(p1, p2, p3, p4, p5, p6, p7, p8, p9, p10):", "    return p1"]
    for producer, expr, ref, test in HEADER_EXPRS:
        for kind, lines, top in HEADER_KINDS:
            def fill(e):
                return [ln.replace("{T}", test).replace("{E}", e) for ln in lines]
            out.append(Site(producer, f"hdr:{kind}", fill(expr), ref_site=None if ref is None else fill(ref),
                            top=(g_top if producer == "too_many_positional_args" else []) + list(top),
                            params=("a: int",), calls=calls, simple=False))
        if producer in INTENT_CHANGING:
            continue
        # a decorated definition at module level: what running the module does is part of the behaviour
        mod_top = DECO_TOP + (g_top if producer == "too_many_positional_args" else []) + ["a$N = 1"]
        mod_def = ["@deco$N", "def h$N(b={E}):", "    return b"]
        mod_expr = expr.replace("{a}", "{a$N}").replace("% a", "% a$N").replace("range(a)", "range(a$N)")
        out.append(Site(producer, "hdr:module-level-def-default-decorated", ["return h$N()"], post=[],
                        ref_site=None, top=mod_top + [ln.replace("{E}", mod_expr) for ln in mod_def], params=("a: int",), calls=calls,
                        canonical=False))
    return out


def _expr_statement_kinds(expr_lines, ref_lines, var="s$N"):
    """Wrap an expression (list of lines, continuation lines relative) into statement kinds.
    -> list of (kind, site_lines, ref_site_lines, post, simple)"""
    def w(prefix, suffix, lines):
        lines = list(lines)
        lines[0] = prefix + lines[0]
        lines[-1] = lines[-1] + suffix
        return lines
    one = len(expr_lines) == 1
    kinds = [
        ("Return", "return ", "", []),
        ("Assign", var + " = ", "", ["return " + var]),
        ("Expr-call-arg", "eff(", ")", ["return 0"]),
        ("Return-tuple", "return (", ", a)", []),
    ]
    out = []
    for kind, pre, suf, post in kinds:
        out.append((kind, w(pre, suf, expr_lines), None if ref_lines is None else w(pre, suf, ref_lines), post, one))
    if one:
        hdr = lambda e: ["if " + e + " == '1':", "    eff(1)  # body comment", "else:", "    eff(2)"]  # noqa: E731
        out.append(("If-header", hdr(expr_lines[0]), None if ref_lines is None else hdr(ref_lines[0]), ["return 0"], False))
    return out


MISSING_F_TEMPLATES = [
    # (shape, literal source, reference source or None (= "f" + literal), params, calls, expect_fix, canonical)
    ("name", '"{a}"', None, True),
    ("name-in-text", '"v={a}!"', None, True),
    ("name-twice", '"{a} {a}"', None, True),
    ("conversion", '"{a!r}"', None, True),
    ("format-spec", '"{a:>4}"', None, True),
    ("attribute", '"{a.real}"', None, True),
    ("expression", '"{a if a else 0}"', None, True),
    ("call-in-field", '"{str(a)}"', None, True),
    ("debug-equals", '"{a=}"', None, True),
    ("spaces-in-field", '"{ a }"', None, True),
    ("escaped-only", '"{{a}}"', None, False),
    ("escaped-and-name", '"{a} {{lit}}"', None, True),
    ("triple-braces", '"{{{a}}}"', None, True),
    ("name-not-in-scope", '"{nosuch}"', None, False),
    ("one-of-two-not-in-scope", '"{a} {nosuch}"', None, False),
    ("empty-field", '"{}"', None, False),
    ("single-quote-inside", '"it\'s {a}"', None, True),
    ("double-quote-inside", '\'say "{a}"\'', None, True),
    ("both-quotes-inside", '"it\'s \\"{a}\\""', None, True),
    ("newline-escape", '"{a}\\n"', None, True),
    ("backslash", '"\\\\{a}"', None, True),
    ("tab-escape", '"t\\t{a}"', None, True),
    ("non-ascii", '"é{a}"', None, True),
    ("raw-string", 'r"{a}\\d"', 'rf"{a}\\d"', True),
    ("implicit-concat-second", '"x" "{a}"', '"x" f"{a}"', True),
    ("implicit-concat-both", '"{a}" "-{a}"', 'f"{a}" f"-{a}"', True),
    ("single-quoted-source", "'{a}'", None, True),
    ("dict-like-text", '\'{"k": 1} {a}\'', None, False),
]


def sites_missing_f():
    out = []
    for i, (shape, lit, ref, expect) in enumerate(MISSING_F_TEMPLATES):
        ref = ref if ref is not None else "f" + lit
        for kind, lines, ref_lines, post, simple in _expr_statement_kinds([lit], [ref]):
            out.append(Site("missing_f", f"{shape}/{kind}", lines, ref_site=ref_lines, post=post, simple=simple,
                            expect_fix=expect, canonical=(shape in ("name-in-text",) and kind in ("Return", "Assign", "If-header"))
                            or (kind == "Return")))
    # triple-quoted, spanning lines
    for shape, lit_lines in [
        ("triple-quoted-multiline", ['"""v={a}', '\0second line"""']),
        ("triple-quoted-multiline-deeper", ['"""v={a}', '        second line"""']),
    ]:
        ref_lines = ["f" + lit_lines[0]] + lit_lines[1:]
        for kind, lines, ref_l, post, simple in _expr_statement_kinds(lit_lines, ref_lines):
            out.append(Site("missing_f", f"{shape}/{kind}", lines, ref_site=ref_l, post=post, simple=False,
                            canonical=kind == "Return"))
    # call contexts that the producer treats specially
    out.append(Site("missing_f", "format-call", ['return "{a}".format(a=a)'], post=[], expect_fix=False))
    out.append(Site("missing_f", "keyword-supplies-name", ['return dict(a="{a}")'], post=[], expect_fix=False))
    out.append(Site("missing_f", "docstring-like-expr", ['"{a}"'], expect_fix=False))
    out.append(Site("missing_f", "call-kwarg", ['return eff(k="{a}")'], ref_site=['return eff(k=f"{a}")'], post=[]))
    out.append(Site("missing_f", "dict-value", ['return {"k": "{a}"}'], ref_site=['return {"k": f"{a}"}'], post=[]))
    out.append(Site("missing_f", "two-literals-one-stmt", ['return ("{a}", "<{a}>")'], ref_site=['return (f"{a}", "<{a}>")'], post=[]))
    out.append(Site("missing_f", "second-param", ['return "{a}/{b}"'], ref_site=['return f"{a}/{b}"'], post=[],
                    params=("a", "b"), calls=(("1", "2"),)))
    out.append(Site("missing_f", "nested-spec", ['return "{a:{b}}"'], ref_site=['return f"{a:{b}}"'], post=[],
                    params=("a", "b"), calls=(("1", "3"),)))
    out.append(Site("missing_f", "subscript", ['return "{a[0]}"'], ref_site=['return f"{a[0]}"'], post=[], calls=(("'xy'",),)))
    return out


PCT_TEMPLATES_1 = [
    # (shape, template literal source, fix expected?)
    ("%s", '"%s"', True), ("%d", '"%d"', True), ("%s-in-text", '"v=%s!"', True), ("%s-percent-literal", '"%s%%"', True),
    ("%d-percent-literal", '"%d%%"', True), ("%r", '"%r"', False), ("%x", '"%x"', False), ("%i", '"%i"', False),
    ("%5d", '"%5d"', False), ("%.2f", '"%.2f"', False), ("%-5s", '"%-5s"', False), ("%05d", '"%05d"', False),
    ("%s-single-quote-inside", '"it\'s %s"', True), ("%s-double-quote-inside", '\'say "%s"\'', True),
    ("%s-both-quotes", '"it\'s \\"%s\\""', True), ("%s-newline-escape", '"%s\\n"', True), ("%s-backslash", '"\\\\%s"', True),
    ("%s-braces", '"{%s}"', False), ("%s-non-ascii", '"é%s"', True), ("%s-implicit-concat", '"x" "%s"', True),
    ("%s-raw", 'r"\\d%s"', True), ("%s-empty-around", '"%s"', True),
]
PCT_ARGS_1 = [
    # (shape, params, arg source, calls)
    ("name-untyped", ("a",), "a", (("3",), ("'v'",))),
    ("name-int", ("a: int",), "a", (("3",), ("-1",))),
    ("name-bool", ("a: bool",), "a", (("True",), ("False",))),
    ("name-float", ("a: float",), "a", (("2.5",), ("2.0",))),
    ("name-str", ("a: str",), "a", (("'v'",), ("''",))),
    ("name-tuple1", ("a: Tuple[int]",), "a", (("(7,)",),)),
    ("name-tuple", ("a: tuple",), "a", (("(7,)",), ("()",))),
    ("name-intenum", ("a: Col$N",), "a", (("Col$N.RED",),)),
    ("one-tuple-of-name", ("a",), "(a,)", (("3",), ("(7,)",))),
    ("attribute-str", ("a",), "OBJ.name", (("1",),)),
    ("attribute-bool", ("a",), "OBJ.flag", (("1",),)),
    ("attribute-float", ("a",), "OBJ.ratio", (("1",),)),
    ("attribute-tuple1", ("a",), "OBJ.pair", (("1",),)),
    ("attribute-chain", ("a",), "OBJ.inner.v", (("1",),)),
    ("attribute-of-param", ("a: int",), "a.real", (("3",),)),
    ("one-tuple-of-attribute", ("a",), "(OBJ.num,)", (("1",),)),
    ("subscript", ("a",), "a[0]", (("'xy'",),)),
    ("call", ("a",), "eff(a)", (("3",),)),
    ("constant", ("a",), "5", (("3",),)),
]
PCT_TEMPLATES_2 = [("%s-%s", '"%s-%s"', True), ("%d/%s", '"%d/%s"', True), ("%s%s", '"%s%s"', True), ("%s %r", '"%s %r"', False)]
PCT_ARGS_2 = [
    ("two-names", ("a", "b"), "(a, b)", (("1", "'w'"), ("2", "3"))),
    ("name-and-attribute", ("a", "b"), "(a, OBJ.name)", (("1", "2"),)),
    ("bool-and-float", ("a: bool", "b: float"), "(a, b)", (("True", "2.5"),)),
    ("name-and-constant", ("a", "b"), "(a, 1)", (("1", "2"),)),
    ("not-a-tuple", ("a", "b"), "a", (("(1, 2)", "0"),)),
    ("effects-in-order", ("a", "b"), "(OBJ.name, a)", (("1", "2"),)),
]
INTENUM_TOP = ["class Col$N(enum.IntEnum):", "    RED = 1"]


def sites_use_fstrings():
    out = []

    def add(tshape, tsrc, expect, ashape, params, asrc, calls, tmpl_canon):
        expr = f"{tsrc} % {asrc}"
        if "%d" in tsrc and ashape in ("name-untyped", "one-tuple-of-name", "two-names"):
            # an unannotated operand of %d is exercised with ints only: a str would already be an error in P
            calls = tuple(tuple("3" if x.startswith(("'", "(")) else x for x in c) for c in calls)
        fix = expect and ashape not in ("subscript", "call", "constant", "name-and-constant", "not-a-tuple")
        top = INTENUM_TOP if "Col$N" in " ".join(params) else []
        for kind, lines, _r, post, simple in _expr_statement_kinds([expr], None):
            post = [p.replace("return a", "return 0") for p in post]
            lines = [ln.replace(", a)", ", 0)") if kind == "Return-tuple" else ln for ln in lines]
            out.append(Site("use_fstrings", f"{tshape}|{ashape}/{kind}", lines, post=post, params=params, calls=calls,
                            simple=simple, expect_fix=fix, top=top,
                            canonical=tmpl_canon and (kind == "Return" or (kind in ("Assign", "If-header") and ashape == "name-int"))))

    for tshape, tsrc, expect in PCT_TEMPLATES_1:
        for ashape, params, asrc, calls in PCT_ARGS_1:
            # full cross product for the two basic templates, a diagonal for the others
            basic = tshape in ("%s", "%d")
            if basic or ashape in ("name-untyped", "name-int", "attribute-str"):
                add(tshape, tsrc, expect, ashape, params, asrc, calls, basic or ashape == "name-untyped")
    for tshape, tsrc, expect in PCT_TEMPLATES_2:
        for ashape, params, asrc, calls in PCT_ARGS_2:
            add(tshape, tsrc, expect, ashape, params, asrc, calls, tshape == "%s-%s")
    # multi-line and nested forms
    out.append(Site("use_fstrings", "multiline-parenthesised", ['return ("%s and "', '        "%s") % (a,', "        b)"], post=[],
                    params=("a", "b"), calls=(("1", "2"),), simple=False, canonical=True))
    out.append(Site("use_fstrings", "triple-quoted-template", ['return """%s', '\0tail""" % a'], post=[], simple=False, canonical=True))
    out.append(Site("use_fstrings", "two-sites-one-statement", ['return "%s" % a + "%d" % b'], post=[], params=("a", "b: int"),
                    calls=(("1", "2"),), canonical=True))
    out.append(Site("use_fstrings", "inside-fstring", ["return f\"<{'%s' % a}>\""], post=[], canonical=True))
    out.append(Site("use_fstrings", "inside-call-kwarg", ['return eff(k="%s" % a)'], post=[]))
    out.append(Site("use_fstrings", "bytes-template", ['return b"%s" % a'], post=[], calls=(("b'x'",),), expect_fix=False))
    out.append(Site("use_fstrings", "mapping-key", ['return "%(k)s" % a'], post=[], calls=(("{'k': 1}",),), expect_fix=False))
    return out


# ---- operands of % formatting / f-string fields enumerated by INFERRED-TYPE CLASS ------------------------------------
# What the checker proposes depends on the inferred type of each operand (a single type, a union, a literal, a narrowed
# or branch-dependent local, an attribute, a user class with formatting hooks ...), and whether P' behaves like P shows only
# when the function is CALLED with an inhabitant of EVERY member of that type.
TY_TOP = ["import decimal, fractions", "from typing import Annotated, Any, Literal, Optional, Union"]
_IDX = ["class Idx$N:", "    def __index__(self):", "        return 5"]
_FMT = ["class Fmt$N:", "    def __format__(self, spec):", "        return 'F' + spec", "    def __str__(self):", "        return 'S'",
        "    def __repr__(self):", "        return 'R'"]
_HOLDER = ["class H$N:", "    n: int", "    u: Union[int, float]", "    o: Optional[int]", "    s: Union[int, str]",
           "    def __init__(self, v):", "        self.n = self.u = self.o = self.s = v"]


def _T(name, ann, inhabitants, top=(), operand="a", pre=()):
    return {"name": name, "ann": ann, "inhabitants": list(inhabitants), "top": list(top), "operand": operand, "pre": list(pre)}


TYPED_OPERANDS = [
    # one plain type
    _T("int", "int", ["3", "-1", "0"]),
    _T("bool", "bool", ["True", "False"]),
    _T("float", "float", ["2.5", "2.0", "-0.5"]),
    _T("complex", "complex", ["1j"]),
    _T("str", "str", ["'v'", "''"]),
    _T("bytes", "bytes", ["b'x'"]),
    _T("none", "None", ["None"]),
    _T("object", "object", ["3", "2.5", "'v'"]),
    _T("any", "Any", ["3", "2.5", "'v'", "None"]),
    _T("unannotated", None, ["3", "2.5", "'v'"]),
    _T("decimal", "decimal.Decimal", ["decimal.Decimal('2.5')", "decimal.Decimal(3)"]),
    _T("fraction", "fractions.Fraction", ["fractions.Fraction(5, 2)"]),
    _T("tuple1", "Tuple[int]", ["(7,)"]),
    _T("tuple-bare", "tuple", ["(7,)", "()"]),
    _T("list", "list", ["[1]", "[]"]),
    _T("dict", "dict", ["{'k': 1}"]),
    # Optional / unions: one call per member
    _T("optional-int", "Optional[int]", ["3", "None"]),
    _T("optional-str", "Optional[str]", ["'v'", "None"]),
    _T("optional-float", "Optional[float]", ["2.5", "None"]),
    _T("union-int-float", "Union[int, float]", ["3", "2.5", "99.9"]),
    _T("union-float-int", "Union[float, int]", ["2.5", "3"]),
    _T("pep604-int-float", "int | float", ["3", "2.5"]),
    _T("union-int-str", "Union[int, str]", ["3", "'v'"]),
    _T("union-str-int", "Union[str, int]", ["'v'", "3"]),
    _T("union-int-bool", "Union[int, bool]", ["3", "True"]),
    _T("union-bool-float", "Union[bool, float]", ["True", "2.5"]),
    _T("union-int-none-float", "Union[int, None, float]", ["3", "None", "2.5"]),
    _T("union-int-any", "Union[int, Any]", ["3", "2.5"]),
    _T("union-int-object", "Union[int, object]", ["3", "2.5"]),
    _T("union-int-decimal", "Union[int, decimal.Decimal]", ["3", "decimal.Decimal('2.5')"]),
    _T("union-int-fraction", "Union[int, fractions.Fraction]", ["3", "fractions.Fraction(5, 2)"]),
    _T("union-int-complex", "Union[int, complex]", ["3", "1j"]),
    _T("union-str-bytes", "Union[str, bytes]", ["'v'", "b'x'"]),
    _T("union-int-tuple1", "Union[int, Tuple[int]]", ["3", "(7,)"]),
    _T("union-str-tuple2", "Union[str, Tuple[int, int]]", ["'v'", "(1, 2)"]),
    _T("union-int-index-object", "Union[int, Idx$N]", ["3", "Idx$N()"], top=_IDX),
    _T("union-str-format-object", "Union[str, Fmt$N]", ["'v'", "Fmt$N()"], top=_FMT),
    # literals, Annotated
    _T("literal-ints", "Literal[1, 2]", ["1", "2"]),
    _T("literal-int-str", "Literal[1, 'x']", ["1", "'x'"]),
    _T("literal-int-true", "Literal[1, True]", ["1", "True"]),
    _T("annotated-int", "Annotated[int, 'meta']", ["3"]),
    _T("annotated-union-int-float", "Annotated[Union[int, float], 'meta']", ["3", "2.5"]),
    # enums
    _T("intenum", "Col$N", ["Col$N.RED"], top=["class Col$N(enum.IntEnum):", "    RED = 1"]),
    _T("union-intenum-float", "Union[Col$N, float]", ["Col$N.RED", "2.5"], top=["class Col$N(enum.IntEnum):", "    RED = 1"]),
    _T("enum", "E$N", ["E$N.A"], top=["class E$N(enum.Enum):", "    A = 'a'"]),
    _T("str-enum", "SE$N", ["SE$N.A"], top=["class SE$N(str, enum.Enum):", "    A = 'a'"]),
    _T("intflag", "Fl$N", ["Fl$N.R", "Fl$N.R | Fl$N.W"], top=["class Fl$N(enum.IntFlag):", "    R = 1", "    W = 2"]),
    # user classes with conversion / formatting hooks
    _T("index-object", "Idx$N", ["Idx$N()"], top=_IDX),
    _T("float-object", "Flt$N", ["Flt$N()"], top=["class Flt$N:", "    def __float__(self):", "        return 2.5"]),
    _T("int-object", "Int$N", ["Int$N()"], top=["class Int$N:", "    def __int__(self):", "        return 7"]),
    _T("format-object", "Fmt$N", ["Fmt$N()"], top=_FMT),
    _T("str-only-object", "So$N", ["So$N()"], top=["class So$N:", "    def __str__(self):", "        return 'S'"]),
    _T("repr-only-object", "Ro$N", ["Ro$N()"], top=["class Ro$N:", "    def __repr__(self):", "        return 'R'"]),
    _T("int-subclass-str-override", "MyInt$N", ["MyInt$N(3)"], top=["class MyInt$N(int):", "    def __str__(self):", "        return 'my'"]),
    _T("int-subclass-format-override", "FInt$N", ["FInt$N(3)"],
       top=["class FInt$N(int):", "    def __format__(self, spec):", "        return 'F' + spec"]),
    _T("str-subclass-str-override", "MyStr$N", ["MyStr$N('v')"], top=["class MyStr$N(str):", "    def __str__(self):", "        return 'my'"]),
    _T("float-subclass", "MyFloat$N", ["MyFloat$N(2.5)"], top=["class MyFloat$N(float):", "    pass"]),
    # inferred, not declared: branch-dependent / narrowed locals, call results
    _T("local-ifexp-int-float", None, ["True", "False"], operand="v$N", pre=["v$N = 3 if a else 2.5"]),
    _T("local-branches-int-float", None, ["True", "False"], operand="v$N", pre=["if a:", "    v$N = 3", "else:", "    v$N = 2.5"]),
    _T("local-ifexp-int-str", None, ["True", "False"], operand="v$N", pre=["v$N = 3 if a else 'v'"]),
    _T("local-ifexp-int-bool", None, ["True", "False"], operand="v$N", pre=["v$N = 3 if a else True"]),
    _T("local-literal-int", None, ["1"], operand="v$N", pre=["v$N = 3"]),
    _T("local-literal-float", None, ["1"], operand="v$N", pre=["v$N = 2.5"]),
    _T("local-call-result-int", None, ["1"], operand="v$N", pre=["v$N = len(BYSTANDER)"]),
    _T("local-or-default-float", "Optional[int]", ["3", "None", "0"], operand="v$N", pre=["v$N = a or 2.5"]),
    _T("local-arithmetic-int-float", "int", ["3", "4"], operand="v$N", pre=["v$N = a / 2 if a % 2 else a"]),
    _T("narrowed-to-int", "Union[int, float]", ["3", "2.5"], pre=["if not isinstance(a, int):", "    return 'other'"]),
    _T("narrowed-to-float", "Union[int, float]", ["3", "2.5"], pre=["if isinstance(a, int):", "    return 'other'"]),
    _T("narrowed-not-none", "Optional[int]", ["3", "None"], pre=["if a is None:", "    return 'other'"]),
    # attributes
    _T("attribute-int", "H$N", ["H$N(3)"], top=_HOLDER, operand="a.n"),
    _T("attribute-union-int-float", "H$N", ["H$N(3)", "H$N(2.5)"], top=_HOLDER, operand="a.u"),
    _T("attribute-optional-int", "H$N", ["H$N(3)", "H$N(None)"], top=_HOLDER, operand="a.o"),
    _T("attribute-union-int-str", "H$N", ["H$N(3)", "H$N('v')"], top=_HOLDER, operand="a.s"),
]
# every conversion type, bare and with flags / width / precision / length modifier / a literal percent sign next to it
TY_CONVS_BARE = ["%d", "%i", "%u", "%s", "%r", "%a", "%x", "%X", "%o", "%e", "%f", "%g", "%c"]
TY_CONVS_DECORATED = ["%5d", "%-5d", "%05d", "%+d", "% d", "%.3d", "%ld", "%5i", "%5s", "%-5s", "%.2s", "%5r", "%.2f", "%8.3f",
                      "%+.1e", "%.3g", "%#x", "%#o", "%04x", "%5c", "%d%%", "%s%%", "%%%d"]
TY_PLACEMENTS = [
    # (name, template with @C@ = the conversion, operands with @X@ = the typed operand, needs the second parameter b: str)
    ("alone", '"[@C@]"', "@X@", False),
    ("one-tuple", '"[@C@]"', "(@X@,)", False),
    ("tuple-first", '"@C@/%s"', "(@X@, b)", True),
    ("tuple-second", '"%s/@C@"', "(b, @X@)", True),
    ("tuple-both", '"@C@/@C@"', "(@X@, @X@)", False),
]
TY_QUICK_TUPLE_CONVS = ("%d", "%i", "%s", "%x", "%5d", "%.2f", "%d%%")
TYF_FIELDS = ["{@X@}", "{@X@:d}", "{@X@!r}", "{@X@:>6}", "{@X@:.2f}", "{@X@:x}", "{@X@!s:5}", "{@X@=}"]
TYF_QUICK_FIELDS = ("{@X@}", "{@X@:d}")


def _typed_site(producer, shape, t, expr, second, ref_expr=None):
    params = [("a" if t["ann"] is None else "a: " + t["ann"])] + (["b: str"] if second else [])
    calls = tuple((x,) + (("'w'",) if second else ()) for x in t["inhabitants"])
    return Site(producer, shape, ["return " + expr], pre=t["pre"], post=[], top=TY_TOP + t["top"], params=params, calls=calls,
                ref_site=None if ref_expr is None else ["return " + ref_expr])


def sites_typed_operands(tier: str):
    """use_fstrings: conversion x inferred-type class x placement; missing_f: field form x inferred-type class."""
    out = []
    for conv in TY_CONVS_BARE + TY_CONVS_DECORATED:
        for pname, tmpl, ops, second in TY_PLACEMENTS:
            if tier != "thorough" and pname != "alone" and conv not in TY_QUICK_TUPLE_CONVS:
                continue
            for t in TYPED_OPERANDS:
                expr = tmpl.replace("@C@", conv) + " % " + ops.replace("@X@", t["operand"])
                out.append(_typed_site("use_fstrings", f"ty:{conv}|{t['name']}/{pname}", t, expr, second))
    for field in TYF_FIELDS:
        if tier != "thorough" and field not in TYF_QUICK_FIELDS:
            continue
        for t in TYPED_OPERANDS:
            lit = '"<' + field.replace("@X@", t["operand"]) + '>"'
            out.append(_typed_site("missing_f", f"tyf:{field.replace('@X@', 'X')}|{t['name']}", t, lit, False, ref_expr="f" + lit))
    return out


P10 = "p1, p2, p3, p4, p5, p6, p7, p8, p9, p10"  # (A10_TEXT above is the matching argument list)
RET10 = "    return (p1, p2, p3, p4, p5, p6, p7, p8, p9, p10)"
A10 = "1, 2, 3, 4, 5, 6, 7, 8, 9, 10"


def sites_too_many():
    out = []
    G = ["def g$N(" + P10 + "):", RET10]
    cases = [
        # (shape, top, call expression, fix expected, canonical)
        ("ten-literals", G, f"g$N({A10})", True, True),
        ("ten-names", G, "g$N(a, a, a, a, a, a, a, a, a, a)", True, False),
        ("ten-equal-literals", G, "g$N(1, 1, 1, 1, 1, 1, 1, 1, 1, 1)", True, False),
        ("ten-effects", G, "g$N(" + ", ".join(f"eff({i})" for i in range(1, 11)) + ")", True, True),
        ("nine-only", ["def g$N(p1, p2, p3, p4, p5, p6, p7, p8, p9):", "    return p9"], "g$N(1, 2, 3, 4, 5, 6, 7, 8, 9)", False, False),
        ("eleven-with-default", ["def g$N(" + P10 + ", p11=0):", "    return (p1, p10, p11)"], f"g$N({A10}, 11)", True, False),
        ("ten-of-eleven-default-unfilled", ["def g$N(" + P10 + ", p11=0):", "    return (p1, p10, p11)"], f"g$N({A10})", True, False),
        ("keyword-already-present", ["def g$N(" + P10 + ", k=0):", "    return (p1, p10, k)"], f"g$N({A10}, k=eff(11))", True, True),
        ("double-star-present", ["def g$N(" + P10 + ", k=0):", "    return (p1, p10, k)"], f"g$N({A10}, **{{'k': 5}})", True, False),
        ("positional-only-params", ["def g$N(p1, p2, /, p3, p4, p5, p6, p7, p8, p9, p10):", RET10], f"g$N({A10})", True, True),
        ("all-positional-only", ["def g$N(" + P10 + ", /):", RET10], f"g$N({A10})", True, False),
        ("var-positional-param", ["def g$N(p1, *rest):", "    return (p1, rest)"], f"g$N({A10})", False, False),
        ("var-positional-after-ten", ["def g$N(" + P10 + ", *rest):", RET10], f"g$N({A10})", True, False),
        ("starred-argument", G, "g$N(*[1, 2], 3, 4, 5, 6, 7, 8, 9, 10)", False, False),
        ("starred-last", ["def g$N(" + P10 + ", p11=0):", "    return (p1, p10, p11)"], f"g$N({A10}, *[11])", False, False),
        ("method", ["class K$N:", "    def m(self, " + P10 + "):", "    " + RET10, "k$N = K$N()"], f"k$N.m({A10})", True, True),
        ("classmethod", ["class K$N:", "    @classmethod", "    def m(cls, " + P10 + "):", "    " + RET10], f"K$N.m({A10})", True, False),
        ("staticmethod", ["class K$N:", "    @staticmethod", "    def m(" + P10 + "):", "    " + RET10], f"K$N.m({A10})", True, False),
        ("constructor", ["class K$N:", "    def __init__(self, " + P10 + "):", "        self.t = (p1, p10)"], f"K$N({A10}).t", True, False),
        ("lambda", ["g$N = lambda " + P10 + ": (p1, p10)"], f"g$N({A10})", True, False),
        ("nested-calls", G, f"g$N(g$N({A10}), 2, 3, 4, 5, 6, 7, 8, 9, 10)", True, False),
        ("underscore-param-names", ["def g$N(__p1, p2, p3, p4, p5, p6, p7, p8, p9, p10):", "    return (__p1, p10)"], f"g$N({A10})", True, False),
        ("wrapped-by-decorator", ["import functools", "def deco$N(fn):", "    @functools.wraps(fn)", "    def wrapper(*args):",
                                  "        return fn(*args)", "    return wrapper", "@deco$N", "def g$N(" + P10 + "):", RET10],
         f"g$N({A10})", True, False),
    ]
    for shape, top, call, fix, canon in cases:
        for kind, lines, _r, post, simple in _expr_statement_kinds([call], None):
            if kind == "If-header":
                continue
            post = [p.replace("return a", "return 0") for p in post]
            lines = [ln.replace(", a)", ", 0)") if kind == "Return-tuple" else ln for ln in lines]
            out.append(Site("too_many_positional_args", f"{shape}/{kind}", lines, top=top, post=post, simple=simple,
                            expect_fix=fix, canonical=(kind == "Return") or (canon and kind == "Assign")))
    out.append(Site("too_many_positional_args", "multiline-call", ["return g$N(1, 2, 3,", "            4, 5, 6, 7, 8, 9,", "            10)"],
                    top=G, post=[], simple=False, canonical=True))
    out.append(Site("too_many_positional_args", "multiline-call-closing-paren", ["return g$N(", f"    {A10}", ")"],
                    top=G, post=[], simple=False, canonical=True))
    return out


def sites_unused_ignore():
    out = []
    U = "unused_ignore"
    for shape, lines, kw in [
        ("own-line-bare", ["# " + IGN[2:], "return a"], {}),
        ("own-line-coded", [IGN + "[undefined_name]", "return a"], {}),
        ("own-line-deeper-indent", ["        " + IGN, "return a"], {}),
        ("own-line-column0", ["\0" + IGN, "return a"], {}),
        ("own-line-with-explanation", [IGN + " (legacy)", "return a"], {}),
        ("own-line-with-second-comment", [IGN + "  # legacy", "return a"], {}),
        ("own-line-after-other-comment", ["# note: " + IGN, "return a"], {}),
        ("own-line-coded-with-explanation", [IGN + "[undefined_name] legacy", "return a"], {}),
        ("trailing-bare", ["return a  " + IGN], {}),
        ("trailing-coded", ["return a  " + IGN + "[undefined_name]"], {}),
        ("trailing-then-comment", ["return a  " + IGN + " # note"], {}),
        ("trailing-after-comment", ["return a  # note " + IGN], {}),
        ("trailing-with-words", ["return a  " + IGN + " because reasons"], {}),
        ("trailing-with-operator-text", ["return a  " + IGN + " - explanation"], {}),
        ("trailing-coded-with-words", ["return a  " + IGN + "[undefined_name] because"], {}),
        ("trailing-two-ignores", ["return a  " + IGN + "[undefined_name] " + IGN + "[bad_unpack]"], {}),
        ("trailing-on-call-line", ["eff(1)  " + IGN, "return a"], {}),
        ("inside-string-literal", ['return "x ' + IGN + '"'], {}),
        ("string-literal-equal-to-comment", ['return "' + IGN + '"'], {}),
        ("inside-multiline-string", ['v$N = """first', "\0" + IGN, '\0last"""', "return v$N"], {}),
        ("inside-multiline-call", ["return eff(", "    " + IGN, "    a)"], {}),
        ("trailing-inside-multiline-call", ["return eff(", "    a,  " + IGN, ")"], {}),
        ("after-backslash-continuation", ["v$N = 1 + \\", "    a  " + IGN, "return v$N"], dict(calls=(("1",),))),
    ]:
        out.append(Site(U, shape, lines, post=[], simple=False, canonical=True, **kw))
    return out


def sites_missing_await():
    out = []
    C = ["async def c$N():", "    eff(1)", "    return 5"]
    out.append(Site("missing_await", "async-def", ["c$N()"], ref_site=["await c$N()"], top=C, is_async=True, canonical=True))
    out.append(Site("missing_await", "async-def-multiline", ["c$N(", ")"], ref_site=["await c$N(", ")"], top=C, is_async=True,
                    simple=False, canonical=True))
    out.append(Site("missing_await", "async-def-with-argument", ["c$N(eff(3))"], ref_site=["await c$N(eff(3))"],
                    top=["async def c$N(q):", "    eff(1)", "    return q"], is_async=True))
    out.append(Site("missing_await", "sync-def", ["c$N()"], ref_site=["yield from c$N()"], top=C, canonical=True))
    out.append(Site("missing_await", "asyncio-future-returning", ["mk$N()"], ref_site=["await mk$N()"],
                    top=["import asyncio", "def mk$N() -> 'asyncio.Future[int]':", "    eff(1)",
                         "    f = asyncio.get_event_loop_policy().new_event_loop().create_future()", "    f.set_result(5)", "    return f"],
                    is_async=True))
    return out


# extra sub-expressions put into the rewritten statement (they travel through pyanalyze's decompiler)
RIDERS = [
    "-2 ** 2", "(-2) ** 2", "2 ** -1", "2 ** 3 ** 2", "(2 ** 3) ** 2", "not (1 and 0)", "(1, 2)[0]", "[*range(2)]", "{**{1: 2}}",
    "(lambda q: q + 1)(1)", "(lambda: 3)()", "(lambda *p, **k: (p, k))(1, z=2)", "1 if a else 2", "(1 if a else 2) + 1", "1 < 2 < 3", "(1 < 2) < 3",
    "'p' 'q'", "'it\\'s'", "'\\\\n'", "'\\n'", "b'\\x00\\xff'", "1e100", "1_000", "0x10", "1j", "-1j", "...", "None", "[q for q in range(2) if q]",
    "{q: q for q in range(2)}", "{q for q in range(2)}", "f'{a!r:>5}'", "f'{a}{{}}'", "f\"{'x'}\"", "f'{a:{3}}'", "(w := 3)", "'abc'[1:2]", "'abc'[::2]",
    "'abc'[::-1]", "OBJ.inner.v", "(1).real", "1.5.real", "-(1)", "+-1", "~-1", "not not a", "a and (a or 0)", "(a and 0) or 1",
    "2 * (3 + 4)", "2 - (3 - 4)", "(2 - 3) - 4", "-(2 ** 2)", "2 / (3 / 4)", "(2 / 3) / 4", "7 // 2 % 3", "1 << 2 + 1", "(1 << 2) + 1", "1 | 2 & 3 ^ 4",
    "eff(*[1], **{})", "[1, [2, (3,)], {4: {5}}]", "(1,)", "()", "((1, 2), )", "1 in (1, 2)", "1 not in (1, 2)", "a is not None", "not a == 1",
    "-a if isinstance(a, int) else a", "(yield)" if False else "[][:]", "list(range(40))", "'" + "x" * 120 + "'", "[" + ", ".join(str(i) for i in range(45)) + "]",
    "eff(" + ", ".join(f"k{i}={i}" for i in range(30)) + ")", "1 if 0 else 2 if 0 else 3", "(1 if 0 else 2) if 0 else 3", "lambda: (yield)",
    "[i for i in range(3) if i if i > 1]", "[(i, j) for i in range(2) for j in range(i)]", "{'a': 1}['a']", "3 .real", "1.0", "1e-07", "-0.0", "1.5j",
    "'%s' % (1,)", "\"it's\"", "'\"'", "'\\t\\x00\\u1234'", "b'it\\'s'", "True is not False", "a[0] if isinstance(a, str) else a",
    "eff(1) + eff(2) * eff(3)", "(eff(1) + eff(2)) * eff(3)", "eff(1) if eff(2) else eff(3)", "[eff(1), eff(2)][eff(0)]", "eff(eff(1), eff(2))",
    "1 @ 1 if False else 0", "a.__class__.__name__", "(a)", "((a))", "[a][0]", "*[1], 2", "1, *[2]",
]


def rider_sites():
    """Canonical use_fstrings / missing_f / comprehension sites carrying one rider each."""
    out = []
    for i, r in enumerate(RIDERS):
        tup = r if r.startswith("*") or r.endswith("*[2]") else r
        out.append(Site("use_fstrings", f"rider#{i}", [f'return ("%s" % a, {tup})'], post=[], params=("a: int",), calls=(("3",), ("0",)),
                        canonical=True))
        if i % 3 == 0:
            out.append(Site("unused", f"rider#{i}", [f"return ([1 for i$N in range(2)], {tup})"], post=[], calls=(("3",), ("0",)), canonical=True))
        if i % 3 == 1:
            out.append(Site("missing_f", f"rider#{i}", [f'return ("v={{a}}", {tup})'], ref_site=[f'return (f"v={{a}}", {tup})'], post=[],
                            calls=(("3",), ("0",)), canonical=True))
    return out


_POOLS: dict = {}


def all_sites() -> dict:
    if not _POOLS:
        _POOLS.update({
            "unused": sites_unused(), "missing_f": sites_missing_f(), "use_fstrings": sites_use_fstrings(),
            "too_many_positional_args": sites_too_many(), "unused_ignore": sites_unused_ignore(),
            "missing_await": sites_missing_await(), "riders": rider_sites(),
            "unused_rhs": sites_unused_effects(), "unused_blocks": sites_unused_blocks(), "headers": sites_headers(),
        })
    return _POOLS


# ---------------------------------------------------------------------------
# mechanism keys (structural features of the witness only)


def _template_convs(S) -> str:
    convs = set()
    for n in ast.walk(S) if S is not None else ():
        if isinstance(n, ast.BinOp) and isinstance(n.op, ast.Mod):
            for c in ast.walk(n.left):
                if isinstance(c, ast.Constant) and isinstance(c.value, str):
                    convs.update(re.findall(r"%(?:\([^)]*\))?[-+ #0]*\d*(?:\.\d+)?[hlL]?([a-zA-Z])", c.value.replace("%%", "")))
    return "".join(sorted(convs))


def fix_mech_key(info: dict, source: str) -> str:
    producer, stmt, (clause, _detail) = info["producer"], info["stmt_type"], info["violation"]
    f = info["features"]
    d = info["diag"]
    tree = ast.parse(source)
    hit = innermost_stmt(tree, d.lineno, d.col)
    S = hit[0] if hit else None
    generic = f"{producer}|{stmt}|{clause}"
    if S is None or producer == "unused_ignore":
        if f.get("text_after_ignore") or _text_after_marker(source, d.lineno):
            return "unused_ignore|*|*:text-after-the-ignore-marker-becomes-code"
        if _marker_inside_string(source, d.lineno, d.col):
            return "unused_ignore|*|*:marker-inside-a-string-literal-is-edited"
        return generic
    if f.get("shares_line") and clause in ("ast-changed", "unparsable", "behaviour-changed"):
        return "*|*|ast-changed:whole-physical-lines-replaced-so-a-statement-sharing-the-line-is-lost"
    if f.get("range_short"):
        return "*|*|*:line-range-of-multi-line-statement-stops-before-its-last-line"
    if f.get("elif_clause") and clause in ("behaviour-changed", "ast-changed", "unparsable"):
        return "*|If|*:elif-clause-re-emitted-as-a-separate-if-statement"
    if f.get("decorated_definition") and f.get("decorator_lines_gained"):
        return "*|*|*:decorators-of-a-rewritten-definition-emitted-a-second-time"
    if f.get("tab_indent") and not f.get("pure_removal") and clause == "unparsable":
        return "*|*|unparsable:tab-indented-statement-re-emitted-with-spaces"
    if producer == "unused" and (f.get("pure_removal") or f.get("replaced_by_pass")):
        if f.get("sole_in_block") and clause == "unparsable" and f.get("pure_removal"):
            return "unused|Assign|unparsable:only-statement-of-a-block-removed"
        if clause == "behaviour-changed" and f.get("n_targets") == 1 and f.get("rhs_has_call_or_yield") and not info.get("other_function"):
            return "unused|Assign|behaviour-changed:right-hand-side-evaluation-removed-with-the-binding"
    if producer == "unused" and not f.get("pure_removal") and clause == "behaviour-changed":
        names = [n.id for n in ast.walk(S) if isinstance(n, ast.Name)]
        if "_" in names:
            return "unused|*|behaviour-changed:renaming-to-underscore-captures-an-existing-underscore"
    if producer == "use_fstrings" and clause == "behaviour-changed" and not info.get("other_function"):
        convs = _template_convs(S)
        before, after = info.get("behaviour_pair", ((None,), (None,)))
        if _call_passes_format_overrider(tree, info.get("failing_args")):
            # the differing call passes an instance of a class of P that defines __format__: `%` never calls it
            return "use_fstrings|*|behaviour-changed:operand-class-overrides-__format__-which-only-the-f-string-calls"
        if set(convs) & set("diu") and before[0][0] == "ret" and after[0][0] == "exc":
            return "use_fstrings|*|behaviour-changed:integer-conversion-becomes-{:d}-which-raises-for-an-operand-%d-accepts"
        if "d" in convs and after[0][0] == "ret":
            return "use_fstrings|*|behaviour-changed:%d-becomes-plain-{}-for-a-non-int-operand"
        if convs in ("s", "ds") and after[0][0] == "ret":
            return "use_fstrings|*|behaviour-changed:tuple-operand-of-%-is-no-longer-unpacked"
    if producer == "too_many_positional_args" and clause == "behaviour-changed" and _callee_has_posonly(tree, S):
        return "too_many_positional_args|*|behaviour-changed:positional-only-parameter-passed-by-keyword"
    return generic


def _call_passes_format_overrider(tree, args) -> bool:
    """Structural: an argument expression of the differing call names a class defined in P whose body defines __format__."""
    if not args:
        return False
    overriders = {n.name for n in ast.walk(tree) if isinstance(n, ast.ClassDef)
                  and any(isinstance(b, ast.FunctionDef) and b.name == "__format__" for b in n.body)}
    words = set(re.findall(r"[A-Za-z_]\w*", " ".join(args)))
    return bool(overriders & words)


def _text_after_marker(source: str, lineno: int) -> bool:
    lines = source.splitlines()
    if not (1 <= lineno <= len(lines)):
        return False
    text = lines[lineno - 1]
    ms = list(re.finditer(re.escape(IGN) + r"(\[[^\s\]]+\])?", text))
    if not ms:
        return False
    rest = text[ms[-1].end():].strip()
    try:
        toks = list(tokenize.generate_tokens(io.StringIO(source).readline))
    except (tokenize.TokenError, SyntaxError, IndentationError):
        return False
    in_comment = any(t.type == tokenize.COMMENT and t.start[0] == lineno and t.start[1] <= ms[0].start() for t in toks)
    return bool(rest) and not rest.startswith("#") and in_comment


def _marker_inside_string(source: str, lineno: int, col) -> bool:
    try:
        toks = list(tokenize.generate_tokens(io.StringIO(source).readline))
    except (tokenize.TokenError, SyntaxError, IndentationError):
        return False
    for t in toks:
        if t.type in (tokenize.STRING, getattr(tokenize, "FSTRING_MIDDLE", -1)) and t.start[0] <= lineno <= t.end[0]:
            if (t.start[0], t.start[1]) <= (lineno, col if col is not None else 0) < (t.end[0], t.end[1]):
                return True
    return False


def _callee_has_posonly(tree, S) -> bool:
    defs = {}
    for n in ast.walk(tree):
        if isinstance(n, (ast.FunctionDef, ast.Lambda)):
            name = getattr(n, "name", None)
            if n.args.posonlyargs:
                defs[name] = True
    for n in ast.walk(S):
        if isinstance(n, ast.Call):
            nm = n.func.id if isinstance(n.func, ast.Name) else getattr(n.func, "attr", None)
            if defs.get(nm):
                return True
    return False


# ---------------------------------------------------------------------------
# (1) driver: iterate steps, report, minimise

MAX_STEPS = 6


def first_fix_violation(source: str, calls: dict, refs: dict, want_key: Optional[str] = None, max_steps: int = MAX_STEPS):
    """Iterate fix steps from `source`. -> (key, what, step source) of the first violation (or the first one whose key is
    `want_key`), else None."""
    src = source
    found = None
    for _ in range(max_steps):
        try:
            info = fix_step(src, calls, refs)
        except (Undecided, SyntaxError):
            break
        if info["status"] != "applied":
            break
        if info["violation"] is not None:
            key = fix_mech_key(info, src)
            what = describe(info)
            if want_key is None or key == want_key:
                return key, what, src
            found = found or (key, what, src)
            if info["violation"][0] == "unparsable":
                break
        if info["producer"] in INTENT_CHANGING:
            # the generator's reference describes the FIRST fix of that function only
            refs = {k: v for k, v in refs.items() if k != info["fname"]}
        src = info["new_code"]
    return found if want_key is None else None


def describe(info: dict) -> str:
    d = info["diag"]
    clause, detail = info["violation"]
    ch = info["change"]
    return (f"fix proposed by {d.short()} (rewritten statement: {info['stmt_type']}, lines {ch['lines'][0]}-{ch['lines'][-1]} "
            f"replaced by {len(ch['add'])} line(s)): {clause}: {detail}")


def _drop_function(source: str, fname: str) -> Optional[str]:
    tree = ast.parse(source)
    lines = source.splitlines(keepends=True)
    for n in tree.body:
        if isinstance(n, (ast.FunctionDef, ast.AsyncFunctionDef)) and n.name == fname:
            first = min([n.lineno] + [d.lineno for d in n.decorator_list])
            return "".join(lines[: first - 1] + lines[n.end_lineno:])
    return None


def minimise_fix(witness: dict, key: str, budget: int = 40) -> dict:
    """Greedy: drop whole functions (bystander, other units), then single physical lines, while `key` is reproduced
    as the violation of the FIRST step."""
    best = dict(witness)

    def still(cand) -> bool:
        nonlocal budget
        if budget <= 0:
            return False
        budget -= 1
        if try_parse(cand["source"])[0] is None:
            return False
        try:
            res = first_fix_violation(cand["source"], cand["calls"], cand["refs"], want_key=key, max_steps=1)
        except Exception:  # noqa: BLE001
            return False
        return res is not None

    for fname in list(best["calls"]):
        if len(best["calls"]) <= 1:
            break
        src = _drop_function(best["source"], fname)
        if src is None:
            continue
        cand = dict(best, source=src, calls={k: v for k, v in best["calls"].items() if k != fname},
                    refs={k: v for k, v in best["refs"].items() if k != fname})
        if still(cand):
            best = cand
    if not best["refs"]:
        lines = best["source"].split("\n")
        i = len(lines) - 1
        keep = best["source"].find(PRELUDE)
        protected = (best["source"][: keep + len(PRELUDE)].count("\n")) if keep >= 0 else 0
        while i >= protected and budget > 0:
            cand = dict(best, source="\n".join(lines[:i] + lines[i + 1:]))
            if lines[i].strip() and still(cand):
                best = cand
                lines = best["source"].split("\n")
            i -= 1
    return best


def report_fix(ctx, key, what, src, prog, seen_keys):
    witness = {"kind": "fix", "source": src, "calls": {k: [list(c) for c in v] for k, v in prog["calls"].items()},
               "refs": dict(prog["refs"]), "key": key}
    if key not in seen_keys:
        seen_keys.add(key)
        try:
            small = minimise_fix(witness, key)
            res = first_fix_violation(small["source"], small["calls"], small["refs"], want_key=key, max_steps=1)
            if res is not None:
                witness, what = small, res[1]
        except Exception as e:  # noqa: BLE001
            ctx.note(f"minimiser failed for {key}: {e!r}")
    ctx.violation(key, what, witness)


def run_fix_program(ctx, prog, seen_keys, label: str, max_steps: int = MAX_STEPS) -> Optional[str]:
    """-> text after the first applied step (for the CLI differential), or None."""
    src = prog["source"]
    calls, refs = prog["calls"], prog["refs"]
    first_new = None
    ctx.count("fix_programs")
    for step in range(max_steps):
        try:
            info = fix_step(src, calls, refs)
        except Undecided as e:
            ctx.count("undecided")
            ctx.note(f"{label}: {e}")
            return first_new
        ctx.count("evaluations")
        ctx.count("fix_steps_run")
        if info["status"] != "applied":
            if step == 0:
                ctx.histo("first_step_outcome", f"{prog['meta'][0][1]}:{info['status']}")
                if info["status"] == "no-fix":
                    for d in info["diags"][:1]:
                        ctx.histo("first_diagnostic_without_replacement", d.code)
            if info["status"] == "no-fix" and info.get("blocked"):
                ctx.count("fix_blocked_by_earlier_diagnostic_without_replacement(observed)")
            break
        producer = info["producer"]
        ctx.count("fix_applied")
        ctx.count(f"fix_applied:{producer}")
        ctx.histo("rewritten_statement_type", f"{producer}:{info['stmt_type']}")
        unit = next((m for m in prog["meta"] if m[0] == info["fname"]), None)
        ctx.histo("context_of_applied_fix", unit[3] if unit else "?")
        if unit and ":" in unit[2][:4]:
            # the site classes added for hidden effects (fx), all-removable blocks (blk), compound-statement headers (hdr)
            ctx.count(f"fix_applied@{unit[2].split(':')[0]}")
            ctx.histo(f"site_class_{unit[2].split(':')[0]}", unit[2].split("/")[0] + ("" if info["violation"] is None else ":" + info["violation"][0]))
            if unit[2].startswith("fx:"):
                ctx.histo("unused_fix_form", "removed" if info["features"].get("pure_removal") else "kept-as-expression-statement")
        ctx.histo("step_index_of_applied_fix", str(step))
        ctx.nontrivial((producer, info["shape"]))
        if step == 0:
            ctx.histo("first_step_outcome", f"{prog['meta'][0][1]}:applied")
            first_new = info["new_code"]
        clause = info["violation"][0] if info["violation"] else "held"
        ctx.histo("verdict", f"{producer}:{clause}")
        if len(ctx.samples) < 2 and info["violation"] is None:
            ctx.sample({"producer": producer, "diagnostic": info["diag"].short(), "P": src[len(PRELUDE):], "P'": info["new_code"][len(PRELUDE):]})
        if info["violation"] is not None:
            key = fix_mech_key(info, src)
            report_fix(ctx, key, describe(info), src, prog, seen_keys)
            if clause == "unparsable":
                break
        if producer in INTENT_CHANGING:
            refs = {k: v for k, v in refs.items() if k != info["fname"]}
        src = info["new_code"]
    else:
        ctx.count("fix_step_limit_reached")
    return first_new


def enumerate_fix_programs(ctx):
    """Deterministic part: (label, units); identical for every seed and shard."""
    pools = all_sites()
    out = []
    for pname, sites in pools.items():
        for si, s in enumerate(sites):
            out.append((f"{pname}#{si}@plain", [(s, "plain")]))
    for pname, sites in pools.items():
        if pname == "riders":
            continue
        for si, s in enumerate(sites):
            everywhere = ctx.tier == "thorough" and (
                pname not in ("unused_rhs", "headers") or s.shape.endswith(("/alone", "/in-tuple"))
                or s.shape in ("hdr:elif", "hdr:def-default-decorated"))
            if s.canonical or everywhere:
                for c in CONTEXTS[1:] + (WHOLE_BODY_CONTEXTS if s.producer == "unused" else []):
                    out.append((f"{pname}#{si}@{c}", [(s, c)]))
    return out


TY_BATCH = 12   # independent units checked together by the classifying run
TY_GROUP = 4    # units with a proposal iterated together (one applied fix per step)


def classify_batch(prog) -> dict:
    """One apply run over a program of many independent one-function units. A diagnostic WITHOUT a replacement that comes
    first in the file keeps every later fix from being applied, so units cannot simply be iterated together: the list of all
    Replacements of the run (recorded by the hook) says which function carries a proposal and which only other diagnostics.
    -> {fname: (has a proposal, has a diagnostic without one)}"""
    r, change = run_apply(prog["source"])
    tree = ast.parse(prog["source"])
    spans = {n.name: (n.lineno, n.end_lineno) for n in tree.body if isinstance(n, (ast.FunctionDef, ast.AsyncFunctionDef))}
    out = {f: [False, False] for f in prog["calls"] if f in spans}
    for lines, has_add in (change["all"] if change else []):
        for f, (lo, hi) in spans.items():
            if f in out and lines and lo <= lines[0] <= hi:
                out[f][0 if has_add else 1] = True
    return out


def run_typed_batches(ctx, seen_keys) -> None:
    sites = sites_typed_operands(ctx.tier)
    ctx.count("typed_units_enumerated_total", len(sites) if ctx.shard == 0 else 0)
    for ci in range(0, len(sites), TY_BATCH):
        if not ctx.mine(ci // TY_BATCH):
            continue
        chunk = sites[ci: ci + TY_BATCH]
        prog = build_program([(s, "plain") for s in chunk])
        try:
            cls = classify_batch(prog)
        except (Undecided, SyntaxError) as e:
            ctx.count("undecided")
            ctx.note(f"typed batch {chunk[0].shape} ..: {e!r}")
            continue
        ctx.count("typed_batches")
        clean, mixed = [], []
        for (fname, producer, shape, _c), s in zip(prog["meta"], chunk):
            has_fix, has_other = cls.get(fname, (False, False))
            ctx.count("typed_units_classified")
            form, tname = shape.split("/")[0].split(":", 1)[1].rsplit("|", 1)
            outcome = "proposal" if has_fix else "diagnostic-without-proposal" if has_other else "silent"
            ctx.histo("typed_unit_outcome", f"{producer}:{outcome}")
            if has_fix:
                ctx.histo("typed_proposal_by_form", f"{producer}:{form}")
                ctx.histo("typed_proposal_by_type", f"{producer}:{tname}")
                ctx.count("typed_calls_of_units_with_proposal", len(s.calls))
                (mixed if has_other else clean).append(s)
        groups = [clean[i: i + TY_GROUP] for i in range(0, len(clean), TY_GROUP)] + [[s] for s in mixed]
        for group in groups:
            gprog = build_program([(s, "plain") for s in group])
            run_fix_program(ctx, gprog, seen_keys, f"typed:{group[0].shape}+{len(group) - 1}", max_steps=len(group) + 2)


def random_fix_program(rng):
    pools = all_sites()
    flat = [s for sites in pools.values() for s in sites]
    n = rng.choice([2, 2, 3])
    units = []
    for _ in range(n):
        s = rng.choice(flat if rng.random() < 0.6 else [x for x in flat if x.canonical])
        units.append((s, rng.choice(ALL_CONTEXTS)))
    header = rng.choice(["", "", "#!/usr/bin/env python\n", "# a leading comment\n\n"])
    return units, header


# ---------------------------------------------------------------------------
# (2) add-ignores: iterate apply -> recheck up to the tool's own limit


def _norm_text(source: str) -> str:
    return "".join(ln + "\n" for ln in source.splitlines())


def _string_token_lines(source: str) -> set:
    """Physical lines that lie strictly inside a multi-line string token (not its first line)."""
    out = set()
    try:
        for t in tokenize.generate_tokens(io.StringIO(source).readline):
            if t.type in (tokenize.STRING, getattr(tokenize, "FSTRING_MIDDLE", -1)) and t.end[0] > t.start[0]:
                out.update(range(t.start[0] + 1, t.end[0] + 1))
    except (tokenize.TokenError, SyntaxError, IndentationError):
        pass
    return out


def add_ignores_history(source: str, full: bool = False) -> dict:
    """-> dict(outcome, iterations, final, added, violations=[(key, what)], early=bool)."""
    res: dict = {"violations": [], "early": False, "added": [], "iterations": 0}
    orig_tree, err = try_parse(source)
    if orig_tree is None:
        raise Undecided(f"original does not parse: {err}")
    orig_dump = ast.dump(orig_tree)
    base = run_diags(source, ignores_mode=True)
    res["base"] = base
    cur = source
    added: list = []
    recent: list = []
    best_remaining = None
    since_progress = 0
    patience = 2 * len(base) + 8
    last = None

    def stmt_type_at(text, line):
        t, _ = try_parse(text)
        if t is None:
            return "?"
        hit = innermost_stmt(t, line, None)
        return type(hit[0]).__name__ if hit else "Comment"

    def viol(clause, mech, stmt, what):
        key = f"add_ignores|{'*' if mech else stmt}|{clause}" + (f":{mech}" if mech else "")
        res["violations"].append((key, what))

    outcome = None
    for it in range(ITERATION_LIMIT + 1):
        tree, err = try_parse(cur)
        if tree is None:
            prev_text, d, L = last
            prev_lines = prev_text.splitlines()
            mech = None
            if L >= 2 and prev_lines[L - 2].rstrip().endswith("\\"):
                mech = "comment-line-inserted-after-a-backslash-continuation"
            viol("unparsable", mech, stmt_type_at(prev_text, L),
                 f"after adding an ignore for {d.short()} the file no longer parses: {type(err).__name__}: {err}")
            outcome = "unparsable"
            break
        r, change = run_apply(cur, add_ignores=True)
        res["iterations"] = it
        if not r.diags:
            outcome = "fixpoint"
            break
        stuck = change is None or change["add"] is None or r.new_code == _norm_text(cur)
        n = len(r.diags)
        if best_remaining is None or n < best_remaining:
            best_remaining, since_progress = n, 0
        else:
            since_progress += 1
        give_up_early = (not full) and since_progress > patience
        if stuck or it == ITERATION_LIMIT or give_up_early:
            res["early"] = give_up_early and not stuck and it < ITERATION_LIMIT
            texts = {t for (_c, t) in recent[-8:]}
            codes_by_text: dict = {}
            for c, t in recent[-8:]:
                codes_by_text.setdefault(t, set()).add(c)
            mech = None
            if stuck:
                mech = None
            elif any(len(v) >= 2 for v in codes_by_text.values()):
                mech = "two-codes-on-one-line-each-new-comment-pushes-the-other-out-of-reach"
            d0 = r.diags[0]
            viol("no-fixpoint", mech, stmt_type_at(cur, d0.lineno or 1),
                 f"{'nothing applied although ' if stuck else ''}{n} diagnostic(s) remain after {it} add-ignores iterations "
                 f"({len(added)} comments added, {len(base)} diagnostics originally); next would be {d0.short()}"
                 + (" [declared after no progress for %d iterations]" % since_progress if res["early"] else ""))
            del texts
            outcome = "no-fixpoint"
            break
        d = applied_diag(r.diags, change)
        if d is None:
            raise Undecided("applied add-ignores change matches no diagnostic")
        L = change["lines"][0]
        cur_lines = cur.splitlines()
        orig_line = cur_lines[L - 1] if L - 1 < len(cur_lines) else ""
        recent.append((d.code, orig_line.strip()))
        if len(change["add"]) == 1 and change["add"][0].startswith(orig_line.rstrip()) and orig_line.strip():
            # the tool appended a trailing comment to the offending line instead of inserting a comment line
            suffix = change["add"][0].rstrip("\n")[len(orig_line.rstrip()):]
            added.append({"pos": L, "code": d.code, "desc": d.description, "target": recent[-1][1], "trailing": suffix})
        else:
            for a in added:
                if a["pos"] >= L:
                    a["pos"] += 1
            added.append({"pos": L, "code": d.code, "desc": d.description, "target": recent[-1][1]})
        last = (cur, d, L)
        cur = r.new_code
    res["outcome"] = outcome
    res["final"] = cur
    res["added"] = added
    if outcome != "fixpoint":
        return res
    # final syntax tree
    final_tree = ast.parse(cur)
    if ast.dump(final_tree) != orig_dump:
        inside = _string_token_lines(cur)
        hit = [a for a in added if a["pos"] in inside]
        mech = "comment-line-inserted-inside-a-multi-line-string" if hit else None
        a0 = hit[0] if hit else added[0]
        viol("ast-changed", mech, stmt_type_at(cur, a0["pos"]),
             f"fixpoint after {len(added)} comments but the syntax tree differs from the original"
             + (f"; the comment for {a0['code']} at line {a0['pos']} lies inside a string literal" if hit else ""))
    # each comment alone
    final_lines = cur.splitlines()
    res["removal_checks"] = 0
    for a in added:
        p = a["pos"]
        if "trailing" in a:
            stripped_line = final_lines[p - 1].replace(a["trailing"], "", 1)
            without = "\n".join(final_lines[: p - 1] + [stripped_line] + final_lines[p:]) + "\n"
        else:
            without = "\n".join(final_lines[: p - 1] + final_lines[p:]) + "\n"
        if try_parse(without)[0] is None:
            continue
        try:
            back = run_diags(without, ignores_mode=True)
        except Undecided:
            continue
        res["removal_checks"] += 1
        wl = without.splitlines()

        def is_mine(d) -> bool:
            # the diagnostic(s) the comment was added for: its code, on the line whose text it was put above
            if "trailing" in a:
                return d.code == a["code"] and d.lineno == p
            return d.code == a["code"] and d.lineno is not None and wl[d.lineno - 1].strip() == a["target"]

        mine = [d for d in back if is_mine(d)]
        other = [d for d in back if not is_mine(d)]
        a["brought_back"] = len(back)
        a["same_code_same_line"] = len(mine)
        if other:
            leading = all(ln.startswith("#") for ln in final_lines[: p - 1])
            mech = "comment-above-the-first-code-line-acts-as-file-level-ignore" if leading else None
            viol("ignore-too-wide", mech, stmt_type_at(without, p),
                 f"removing the comment added for {a['code']} (now line {p}) brings back {len(back)} diagnostics, "
                 f"among them {other[0].short()}")
        elif not mine:
            viol("ignore-redundant", None, stmt_type_at(without, p),
                 f"removing the comment added for {a['code']} (now line {p}) brings back nothing")
    return res


def first_ignores_violation(source: str, want_key: Optional[str] = None, full: bool = False):
    h = add_ignores_history(source, full=full)
    for key, what in h["violations"]:
        if want_key is None or key == want_key:
            return key, what
    return None


def minimise_ignores(source: str, key: str, budget: int = 30) -> str:
    """Greedy removal of top-level statements / function-body statements (by line blocks) while `key` persists."""
    best = source
    crlf = "\r\n" in source

    def ok(text) -> bool:
        nonlocal budget
        if budget <= 0 or try_parse(text)[0] is None:
            return False
        budget -= 1
        try:
            return first_ignores_violation(text, want_key=key) is not None
        except (Undecided, SyntaxError):
            return False

    changed = True
    while changed and budget > 0:
        changed = False
        tree, _ = try_parse(best)
        if tree is None:
            break
        lines = best.splitlines()
        blocks = []
        for n in tree.body:
            if isinstance(n, (ast.FunctionDef, ast.ClassDef)) and len(n.body) > 1:
                for s in n.body:
                    blocks.append((s.lineno, s.end_lineno))
            first = min([n.lineno] + [d.lineno for d in getattr(n, "decorator_list", [])])
            blocks.append((first, n.end_lineno))
        for lo, hi in sorted(blocks, key=lambda b: (b[0] - b[1], -b[0])):
            cand = (("\r\n" if crlf else "\n").join(lines[: lo - 1] + lines[hi:]) + ("\r\n" if crlf else "\n"))
            if cand.strip() and ok(cand):
                best = cand
                changed = True
                break
    return best


# ---------------------------------------------------------------------------
# add-ignores corpus: vp.illtyped programs + single-snippet programs + line-1 programs; LF / tab / CRLF variants

from vp import illtyped as _ill  # noqa: E402

_HEAD = ["import os", "", "def deco(fn): return fn", "", 'def f1(a: int, b: str = "") -> int:', "    return a", ""]


def _variant(text: str, variant: str) -> str:
    if variant == "tab":
        text = "\n".join(_tabify(ln) for ln in text.split("\n"))
    if variant == "crlf":
        text = text.replace("\n", "\r\n")
    return text


def focused_ignore_programs():
    g = _ill._G(random.Random(0))
    out = []
    wraps = {
        "plain": lambda b: b,
        "if": lambda b: ["if f1(1):"] + _ind(b, "    "),
        "for": lambda b: ["for _i in range(2):"] + _ind(b, "    "),
        "try": lambda b: ["try:"] + _ind(b, "    ") + ["except Exception:", "    pass"],
        "nested": lambda b: ["def inner() -> None:"] + _ind(b, "    ") + ["print(inner)"],
    }
    for fn in _ill.SINGLE + _ill.MULTI_DIAG + _ill.MULTI_LINE:
        lines, _codes = fn(g)
        for wname, w in wraps.items():
            text = "\n".join(_HEAD + ["def holder(p: int = 0) -> None:"] + _ind(w(list(lines)), "    ")) + "\n"
            for variant in ("lf", "tab", "crlf"):
                if variant != "lf" and wname not in ("plain", "if"):
                    continue
                out.append((f"{fn.__name__}/{wname}/{variant}", _variant(text, variant)))
    first = 'x0: int = "a"'
    last = "y_last: str = 1"
    for name, lines, nl in [
        ("line1-and-same-code-later", [first] + _HEAD + [last], True),
        ("line1-only", [first] + _HEAD, True),
        ("shebang-line2-and-same-code-later", ["#!/usr/bin/env python", first] + _HEAD + [last], True),
        ("leading-comment-line2-and-same-code-later", ["# a leading comment", first] + _HEAD + [last], True),
        ("line1-two-same-code", ['x0: int = "a"; y0: str = 1'] + _HEAD + [last], True),
        ("line1-two-codes", ['def f0(p: int = "zz") -> int: return undef_0'] + _HEAD, True),
        ("last-line-no-newline", _HEAD + [last], False),
        ("last-line-two-codes-no-newline", _HEAD + ["def holder(p: int = 0) -> None:", '    f1("a"); f1(1, 2, 3)'], False),
    ] + [
        # every shape of the leading comment block (which is where a file-level ignore lives) before a first statement
        # that carries a diagnostic, with the same code again further down
        (f"prefix[{pname}]-first-statement-and-same-code-later", prefix + [first] + _HEAD + [last], True)
        for pname, prefix in [
            ("blank", [""]),
            ("comment+blank", ["# a leading comment", ""]),
            ("shebang+blank", ["#!/usr/bin/env python", ""]),
            ("2comments+blank", ["# licence line 1", "# licence line 2", ""]),
            ("comment+blank+comment", ["# licence", "", "# about this module"]),
            ("comment+2blank", ["# licence", "", ""]),
            ("blank+comment", ["", "# a comment after a blank line"]),
            ("coding+comment+blank", ["# -*- coding: utf-8 -*-", "# licence", ""]),
            ("indented-comment+blank", ["    # an indented comment", ""]),
            ("docstring", ['"""Module docstring."""']),
            ("comment+blank+docstring+blank", ["# licence", "", '"""Module docstring."""', ""]),
        ]
    ]:
        text = "\n".join(lines) + ("\n" if nl else "")
        for variant in ("lf", "crlf"):
            out.append((f"{name}/{variant}", _variant(text, variant)))
    return out


# ---------------------------------------------------------------------------
# the real command line


def _scratch() -> str:
    d = os.environ.get("VERIF_SCRATCH")
    if not d:
        import tempfile

        d = tempfile.mkdtemp(prefix="verif-C16-adhoc-")
        os.environ["VERIF_SCRATCH"] = d
    os.makedirs(d, exist_ok=True)
    return d


_cli_n = [0]


def cli_apply(source: str, add_ignores: bool):
    """Runs `python -m pyanalyze` with -A (one fix pass) or -r --add-ignores on a scratch file.
    -> (file text afterwards, returncode, stderr tail)."""
    from pyanalyze.error_code import DISABLED_IN_TESTS, ErrorCode

    _cli_n[0] += 1
    stem = f"vpc16cli_{os.getpid()}_{_cli_n[0]}"
    d = os.path.join(_scratch(), stem + "_dir")
    os.makedirs(d, exist_ok=True)
    path = os.path.join(d, stem + ".py")
    with open(path, "w", newline="") as f:
        f.write(source)
    off = set(c.name for c in DISABLED_IN_TESTS) | ({"unused_ignore", "bare_ignore"} if add_ignores else set())
    cfg = os.path.join(d, "cfg.toml")
    with open(cfg, "w") as f:
        f.write("[tool.pyanalyze]\n" + "".join(f"{c.name} = {'false' if c.name in off else 'true'}\n" for c in ErrorCode))
    argv = ["--config-file", cfg] + (["-r", "--add-ignores"] if add_ignores else ["-A"]) + [path]
    p = harness.run_cli(argv, cwd=d, timeout=1800.0)
    with open(path, newline="") as f:
        text = f.read()
    return text, p.returncode, (p.stderr or "")[-400:]


# ---------------------------------------------------------------------------
# shard / replay


def report_ignores(ctx, key, what, source, seen_keys):
    witness = {"kind": "ignores", "source": source, "key": key}
    if key not in seen_keys:
        seen_keys.add(key)
        try:
            small = minimise_ignores(source, key)
            res = first_ignores_violation(small, want_key=key) if small != source else None
            if res is not None:
                witness, what = {"kind": "ignores", "source": small, "key": key}, res[1]
        except Exception as e:  # noqa: BLE001
            ctx.note(f"minimiser failed for {key}: {e!r}")
    ctx.violation(key, what, witness)


def run_ignores_program(ctx, label: str, source: str, seen_keys, full: bool):
    try:
        h = add_ignores_history(source, full=full)
    except (Undecided, SyntaxError) as e:
        ctx.count("undecided")
        ctx.note(f"{label}: {e!r}")
        return None
    if not h["base"]:
        ctx.count("ignore_programs_without_diagnostics")
        return None
    ctx.count("evaluations")
    ctx.count("ignore_programs")
    ctx.count("ignore_iterations", h["iterations"])
    ctx.count(f"ignore_outcome:{h['outcome']}")
    if h["outcome"] == "no-fixpoint":
        ctx.count("no_fixpoint_run_to_the_limit" if not h["early"] else "no_fixpoint_declared_after_no_progress")
    ctx.count("ignore_comments_added", len(h["added"]))
    ctx.count("ignore_comment_removal_checks", h.get("removal_checks", 0))
    for a in h["added"]:
        if a.get("same_code_same_line", 0) >= 2:
            ctx.count("comment_covering_several_same_code_diagnostics_of_its_line(observed)")
    ctx.histo("ignore_iterations_to_outcome", f"{h['outcome']}:{min(h['iterations'] // 10 * 10, 150)}+")
    ctx.histo("ignore_program_variant", ("crlf" if "\r\n" in source else "tab" if "\n\t" in source else "lf") + ":" + str(h["outcome"]))
    per_line = Counter(d.lineno for d in h["base"])
    codes_per_line: dict = {}
    for d in h["base"]:
        codes_per_line.setdefault(d.lineno, set()).add(d.code)
    nlines = len(source.splitlines())
    ctx.histo("ignore_program_shape", "two-codes-on-a-line" if any(len(v) > 1 for v in codes_per_line.values()) else "one-code-per-line")
    ctx.histo("ignore_program_shape", "diag-on-line-1-or-2" if any(ln in (1, 2) for ln in per_line) else "no-diag-at-top")
    ctx.histo("ignore_program_shape", "diag-on-last-line" if nlines in per_line else "no-diag-on-last-line")
    ctx.nontrivial(("add_ignores", digest(source)))
    if not h["violations"]:
        ctx.count("ignore_programs_held")
        if len(ctx.samples) < 3:
            ctx.sample({"add-ignores": label, "P": source, "final": h["final"], "iterations": h["iterations"]})
    for key, what in h["violations"]:
        ctx.histo("verdict", "add_ignores:" + key.split("|")[2].split(":")[0])
        report_ignores(ctx, key, what, source, seen_keys)
    return h


def shard(ctx) -> None:
    seen_keys: set = set()
    rng = ctx.rng
    # ---------------- (1) fix steps ----------------
    cli_fix_left = ctx.pick(1, 3)
    det = enumerate_fix_programs(ctx)
    ctx.count("fix_programs_enumerated_total", len(det) if ctx.shard == 0 else 0)
    for i, (label, units) in enumerate(det):
        if not ctx.mine(i):
            continue
        prog = build_program(units)
        if prog is None:
            ctx.count("context_not_applicable")
            continue
        first_new = run_fix_program(ctx, prog, seen_keys, label)
        if first_new is not None and cli_fix_left > 0 and "@plain" in label and try_parse(first_new)[0] is not None:
            cli_fix_left -= 1
            text, rc, err = cli_apply(prog["source"], add_ignores=False)
            ctx.count("cli_runs")
            ctx.count("cli_fix_runs")
            ctx.histo("cli_vs_in_process", "-A:" + ("equal" if text == first_new else "differs"))
            if text != first_new:
                ctx.violation("cli|-A|differs-from-in-process", f"`pyanalyze -A` (rc={rc}) left a different file than check_for_test(apply_changes=True); stderr: {err[-200:]}",
                              {"kind": "cli-fix", "source": prog["source"], "key": "cli|-A|differs-from-in-process"})
    run_typed_batches(ctx, seen_keys)
    nrand = ctx.pick(160, 3200)
    prog_rng = random.Random(f"C16-random-fix/{ctx.seed}")
    for i in range(nrand):
        units, header = random_fix_program(prog_rng)
        if not ctx.mine(i):
            continue
        prog = build_program(units, header=header)
        if prog is None:
            continue
        ctx.count("fix_programs_random")
        run_fix_program(ctx, prog, seen_keys, f"random#{i}")
    # ---------------- (2) add-ignores ----------------
    full_left = ctx.pick(1, 4)
    cli_ign = {"fixpoint": ctx.pick(1, 2), "no-fixpoint": 1 if ctx.shard % 4 == 0 else 0}
    corpus = [(f"focused:{n}", s) for n, s in focused_ignore_programs()]
    ill_rng = random.Random(f"C16-illtyped/{ctx.seed}")
    for i in range(ctx.pick(240, 3000)):
        src = _ill.gen_program(ill_rng)
        v = ("lf", "lf", "tab", "crlf")[i % 4]
        corpus.append((f"illtyped#{i}/{v}", _variant(src, v)))
    for i, (label, src) in enumerate(corpus):
        if not ctx.mine(i):
            continue
        h = run_ignores_program(ctx, label, src, seen_keys, full=False)
        if h is None:
            continue
        if h["outcome"] == "no-fixpoint" and h["early"] and full_left > 0:
            # the statement's bound: the tool's own ITERATION_LIMIT, literally
            full_left -= 1
            h2 = add_ignores_history(src, full=True)
            ctx.count("no_fixpoint_rechecked_to_the_limit")
            ctx.histo("early_declaration_vs_full_limit", "confirmed" if h2["outcome"] == "no-fixpoint" else f"refuted:{h2['outcome']}")
            if h2["outcome"] != "no-fixpoint":
                ctx.violation("monitor|early-no-fixpoint-declaration-refuted", "the no-progress rule declared no-fixpoint but the full run converged",
                              {"kind": "ignores", "source": src, "key": "monitor|early-no-fixpoint-declaration-refuted"})
        if cli_ign.get(h["outcome"], 0) > 0 and "\r\n" not in src:
            cli_ign[h["outcome"]] -= 1
            text, rc, err = cli_apply(src, add_ignores=True)
            ctx.count("cli_runs")
            ctx.count("cli_add_ignores_runs")
            if h["outcome"] == "fixpoint":
                same = text == h["final"]
                ctx.histo("cli_vs_in_process", "-r --add-ignores:" + ("equal" if same else "differs"))
                if not same:
                    ctx.violation("cli|add-ignores|differs-from-in-process", f"`pyanalyze -r --add-ignores` (rc={rc}) ended with a different file than the in-process iteration; stderr: {err[-200:]}",
                                  {"kind": "cli-ignores", "source": src, "key": "cli|add-ignores|differs-from-in-process"})
            else:
                hit_limit = "Iteration Limit Exceeded" in err
                ctx.histo("cli_vs_in_process", "-r --add-ignores on a non-converging program:" + ("AssertionError Iteration Limit Exceeded" if hit_limit else f"rc={rc}"))
                if not hit_limit:
                    ctx.violation("cli|add-ignores|no-fixpoint-not-confirmed", f"in-process iteration does not converge but the CLI ended rc={rc}: {err[-200:]}",
                                  {"kind": "cli-ignores", "source": src, "key": "cli|add-ignores|no-fixpoint-not-confirmed"})


def replay(witness):
    kind = witness.get("kind")
    want = witness.get("key")
    try:
        if kind == "fix":
            calls = {k: [tuple(c) for c in v] for k, v in witness["calls"].items()}
            res = first_fix_violation(witness["source"], calls, dict(witness.get("refs", {})), want_key=want)
            if res is None and want is not None:
                res = first_fix_violation(witness["source"], calls, dict(witness.get("refs", {})))
            return (res[0], res[1]) if res else None
        if kind == "ignores":
            if want == "monitor|early-no-fixpoint-declaration-refuted":
                a, b = add_ignores_history(witness["source"]), add_ignores_history(witness["source"], full=True)
                return (want, "early declaration refuted") if a["outcome"] == "no-fixpoint" and b["outcome"] != "no-fixpoint" else None
            res = first_ignores_violation(witness["source"], want_key=want)
            if res is None and want is not None:
                res = first_ignores_violation(witness["source"])
            return res
        if kind == "cli-fix":
            r, _ = run_apply(witness["source"])
            text, rc, err = cli_apply(witness["source"], add_ignores=False)
            return (want, f"CLI -A result differs (rc={rc})") if text != r.new_code else None
        if kind == "cli-ignores":
            h = add_ignores_history(witness["source"], full=True)
            text, rc, err = cli_apply(witness["source"], add_ignores=True)
            if h["outcome"] == "fixpoint":
                return (want, f"CLI result differs (rc={rc})") if text != h["final"] else None
            return (want, f"CLI rc={rc}") if "Iteration Limit Exceeded" not in err else None
    except Undecided as e:
        print(f"replay undecided: {e}")
        return None
    raise ValueError(f"unknown witness kind {kind!r}")


RULE = (
    "fix case = one apply step P -> P' (program = prelude + 1-3 functions, each built around one fix site, + a bystander "
    "function); sites are ENUMERATED per producer (unused variable/assignment: RHS literal / pure / effect call / raising / "
    "yield / walrus, tuple, starred, multi-target, AnnAssign, for/with targets, several per line, 14 multi-line layouts, 14 "
    "comprehension forms; missing_f: 28 literal forms x 5 statement kinds + multi-line, call contexts; use_fstrings: 22 "
    "one-specifier and 4 two-specifier templates x 19+6 operand forms (typed int/bool/float/str/tuple/IntEnum parameters, "
    "attributes, 1-tuples) x 5 statement kinds; too_many_positional_args: 23 callee/call forms x 4 statement kinds; "
    "unused_ignore: 23 comment placements; missing_await: 5; "
    "unused binding whose right-hand side is enumerated by WHAT EVALUATING IT DOES: 48 expression kinds with the effect tracer "
    "inside although the top node looks inert (lambda positional / keyword-only / nested defaults, comprehension iterables, "
    "elements and conditions incl. the eager first iterable of a generator expression, f-string fields and specs, conditional "
    "and boolean operands, starred and double-starred displays, walrus, attribute / subscript / slice / arithmetic / unary / "
    "comparison / containment / truth / iteration / format hooks of a typed user object (property, __getattr__, __getitem__, "
    "__add__, __radd__, __neg__, __lt__, __eq__, __contains__, __bool__, __iter__, __format__), yield / yield from / await; "
    "inert controls of each family) x 5 placements (alone, in a tuple, a nested tuple, a list, a dict value) + each alone with "
    "the name assigned again, + unused nested def / class whose default, decorator or base has an effect; "
    "blocks in which EVERY statement is an unused binding: 11 forms (2-3 removable, same name twice, removable + effect in both "
    "orders, blank line / comment / multi-line / one-line layouts, with a comprehension variable); "
    "fix site in the HEADER of a compound statement or definition (the rewritten statement is the compound one): 19 header "
    "kinds (if, elif x4 arrangements, if nested in else, while, for iterable, with item, match subject, case guard, assert, "
    "default of a plain / decorated / twice decorated / keyword-only / async nested def, decorator argument, keyword of a decorated "
    "class) x 4 producers + a decorated module-level def (effects of executing the module body are observed too)) "
    "in the plain context, every canonical site (thorough: every site; of the last two families the alone / in-tuple placements "
    "and the elif / decorated-default kinds) in 24 further contexts (sole/second statement of if/elif/else/for/for-else/try/except/"
    "try-else/finally/with/case blocks, nested once more, `;` neighbours, one-line if, comments, nested def, two nesting levels, "
    "tab indentation), sites of the removing producer also as the WHOLE body of a for / while / try / function / nested function, "
    "~100 decompiler riders, plus random 2-3 unit combinations over all of these; "
    "operands enumerated by INFERRED-TYPE CLASS (plain context, checked in batches of 12 independent functions, the units with a "
    "proposal then iterated 4 at a time): use_fstrings = 36 conversions (%d %i %u %s %r %a %x %X %o %e %f %g %c bare; with width, "
    "flags - 0 + space #, precision, length modifier, a literal %% beside it) x 73 operand type classes (int, bool, float, complex, "
    "str, bytes, None, object, Any, unannotated, Decimal, Fraction, tuple / list / dict; Optional[int|str|float]; Union of int with "
    "float (both orders, PEP 604), str, bool, None+float, Any, object, Decimal, Fraction, complex, a 1-tuple, an __index__ object; "
    "Union[bool, float], [str, bytes], [str, 2-tuple], [str, __format__ object]; Literal ints / int+str / int+True; Annotated int / "
    "union; IntEnum, Union[IntEnum, float], Enum, str-Enum, IntFlag; user classes with __index__ / __float__ / __int__ / "
    "__format__+__str__+__repr__ / only __str__ / only __repr__; int subclass overriding __str__ / __format__, str subclass "
    "overriding __str__, float subclass; locals whose type is inferred: conditional expression and if/else branches giving "
    "int|float, int|str, int|bool, literal int / float, call result, `a or 2.5`, arithmetic int|float; isinstance / is-None "
    "narrowing; declared attributes int / Union[int, float] / Optional[int] / Union[int, str] of a parameter) x 5 placements "
    "(alone, 1-tuple, first / second of a 2-tuple beside a str, both of a 2-tuple; quick: the tuple placements for %d %i %s %x "
    "%5d %.2f %d%% only); missing_f = 8 field forms ({x}, {x:d}, {x!r}, {x:>6}, {x:.2f}, {x:x}, {x!s:5}, {x=}; quick: the first "
    "two) x the same 73 classes; every function is CALLED with at least one inhabitant of EVERY member of its operand's type; "
    "every program is iterated until nothing is applied. add-ignores case = one whole history of a vp.illtyped program "
    "(LF / tab / CRLF) or of a single-snippet / line-1 / last-line program. Non-trivial = a replacement was proposed and "
    "applied (fix) or the program has diagnostics (add-ignores); distinct by (producer, node-type skeleton of the "
    "rewritten statement) / program digest."
)
ASSUMPTIONS = [
    "CPython 3.12 executing P and P' on the generator's literal arguments is the judge of behaviour: (return value | exception "
    "type, effect log of eff()); coroutines and generators are driven to completion (<= 50 resumptions); the effect log of "
    "executing the module body (decorators, defaults of top-level definitions) is compared as well",
    "intent of a fix: unused-variable removal, use_fstrings, too_many_positional_args, unused_ignore are refactorings (P' must "
    "behave like P); missing_f and missing_await intend a behaviour change and are compared with the reference fix written by "
    "the generator ('f' prefix on the literal; `await` / in a plain def `yield from` in front of the call)",
    "the applied replacement is the first Replacement of the run (recorded by a record-only wrapper of "
    "BaseNodeVisitor._apply_changes_to_lines); its diagnostic is the first reported one with that description inside the replaced lines",
    "still-reported is decided on counts of (code, description) before and after",
    "rewritten statement S = innermost statement covering the diagnostic position; 'other statements' = statements that are not "
    "S, its ancestors or descendants; their ast.dump must survive in order",
    "a comment's 'own diagnostic' = diagnostics of its code on the line it was put above (several same-code diagnostics of one "
    "line are necessarily covered by one line-level comment: counted, not judged)",
    "add-ignores runs use the test-suite configuration minus unused_ignore/bare_ignore; non-convergence is declared after "
    "2*|D(P)|+8 iterations without a new minimum of remaining diagnostics, and re-run literally to ITERATION_LIMIT=150 for a sample per shard",
    "unannotated parameters are called with ints and strs only (in the type-class units also with a float; never with a tuple: "
    "an operand of unknown type is assumed not to be one); annotated ones with inhabitants of the annotation, one at least per "
    "union member / branch",
    "type-class units are independent one-function units: which of the 12 functions of a batch carries a proposal is read from the "
    "list of ALL Replacements of one run (same record-only hook); only those are iterated (a diagnostic without a replacement "
    "earlier in a file keeps the tool from applying any later fix, which is observed and counted, not judged)",
]
LEVEL_TEXT = (
    "held-on-explored: every enumerated fix site x context and every add-ignores history listed in the rule was executed through "
    "the real checker and judged by CPython execution / syntax-tree comparison; nothing is claimed about fix producers of the "
    "asynq checkers (task_needs_yield, yield_checker, impure_async_call), nor about programs outside the enumerated shapes"
)
NSHARDS = 16
WATCHDOG_S = {"quick": 3600, "thorough": 14400}
FLOORS = {
    "quick": {"distinct_nontrivial": 570, "fix_steps_run": 5000, "fix_applied": 2200, "fix_applied:unused": 480,
              "fix_applied@fx": 210, "fix_applied@blk": 125, "fix_applied@hdr": 48,
              "typed_units_classified": 2400, "typed_batches": 200, "fix_applied@ty": 210, "fix_applied@tyf": 70,
              "typed_calls_of_units_with_proposal": 500,
              "fix_applied:missing_f": 290, "fix_applied:use_fstrings": 600, "fix_applied:too_many_positional_args": 220,
              "fix_applied:unused_ignore": 130, "fix_applied:missing_await": 20, "ignore_programs": 280,
              "ignore_outcome:fixpoint": 160, "ignore_comment_removal_checks": 300, "no_fixpoint_rechecked_to_the_limit": 2,
              "cli_runs": 4},
    "thorough": {"distinct_nontrivial": 1779, "fix_steps_run": 14433, "fix_applied": 6753, "fix_applied:unused": 570, "fix_applied:missing_f": 1378, "fix_applied:use_fstrings": 3770, "fix_applied:too_many_positional_args": 789, "fix_applied:unused_ignore": 191, "fix_applied:missing_await": 53, "ignore_programs": 1665, "ignore_outcome:fixpoint": 549, "ignore_comment_removal_checks": 2310, "no_fixpoint_rechecked_to_the_limit": 8, "cli_runs": 12,
                 "fix_applied@fx": 210, "fix_applied@blk": 125, "fix_applied@hdr": 48,
                 "typed_units_classified": 6800, "typed_batches": 570, "fix_applied@ty": 210, "fix_applied@tyf": 280,
                 "typed_calls_of_units_with_proposal": 900},
}
