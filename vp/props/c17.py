"""C17 — format-string diagnostics agree with CPython's formatter.

Monitor: each (template, args) expression is checked by pyanalyze (one per line of a never-called
function, annotate=True) and evaluated by CPython; the two outcomes are compared.
"""
from __future__ import annotations

import ast
import itertools
import re
import warnings

from vp import harness

ID = "C17"
LEVEL = "exploration"
RULE = (
    "case = (literal template, literal arguments); %-templates are enumerated from the conversion grammar "
    "(mapping key x flag subsets x width x precision x length modifier x all conversion types + 2 invalid ones, "
    "1-3 specifiers, str and bytes) crossed with scalar/tuple/dict argument literals; str.format templates are "
    "enumerated over auto/numbered/named fields, attribute/index paths, conversions, specs, escapes, broken braces. "
    "NESTED SPECS: every template of 1-3 top-level fields (auto / 0 / 1 / keyword) whose format spec holds 0-2 nested "
    "replacement fields (auto / numbered / keyword, optionally with a path or conversion), i.e. every numbering style at "
    "both levels, plus three-level nesting, each with k-1, k, k+1 positional arguments (k = what CPython consumes) and "
    "keywords present/absent. "
    "UNIONS OF LITERALS: the right operand of % / one or two arguments of .format is a union of 2-3 literals, written "
    "as a conditional expression or as a variable assigned in the branches of an if: exhaustive ordered pairs (and "
    "sampled triples) of dict literals over key subsets of {a,b,c} + a non-str key + wrong-typed values + non-mapping "
    "members for mapping-key templates; ordered pairs of scalars/tuples of different lengths for positional templates; "
    "random multi-specifier templates with 2-3 alternative argument literals; .format calls whose arguments are unions. "
    "CPython is run once per member; every member is also checked on its own line (differential: union vs members). "
    "Non-trivial = has at least one conversion specifier / replacement field; distinct by (template, args) text; "
    "both outcomes (raises / succeeds) counted per conversion type."
)
ASSUMPTIONS = [
    "CPython 3.12 is the oracle: 'raises' = any exception while evaluating the formatting expression",
    "documented stricter lint rules (not violations when CPython succeeds): R1 % on a template with no specifier "
    "and non-empty args; R2 %% with flags/width/precision/key; R3 mixing mapping-key and positional/* specifiers; "
    "R4 .format arguments that no field uses; R5 use_fstrings/missing_f suggestions (other codes)",
    "diagnosed = bad_format_string / incompatible_call / incompatible_argument on the expression's line",
    "union operand: 'CPython would raise' = it raises for at least one member of the union (each member is a possible "
    "execution); 'formatting succeeds' = it succeeds for every member",
    "R4 is only an excuse when every argument it names really is unused: CPython formats the template with recording "
    "probe objects in place of the arguments and the named indices/keywords must not have been touched",
]
FLOORS = {
    "quick": {"distinct_nontrivial": 15000, "percent_cases": 15000, "format_cases": 3000, "cpython_raised": 1000, "cpython_ok": 1000,
              "union_cases": 2300, "nested_spec_cases": 4000, "r4_probe_checked": 2500},
    "thorough": {"distinct_nontrivial": 150000, "percent_cases": 150000, "format_cases": 20000,
                 "union_cases": 10000, "nested_spec_cases": 8000, "r4_probe_checked": 13000},
}
CODES = {"bad_format_string", "incompatible_call", "incompatible_argument"}
BATCH = 250
UNIONS_PER_FUNCTION = 10

LINT_RULES = [
    ("R1", re.compile(r"use of % on string with no conversion specifiers")),
    ("R2", re.compile(r"using % combined with optional specifiers does not make sense")),
    ("R3", re.compile(r"cannot combine specifiers that require a mapping with those that do not")),
    ("R4", re.compile(r"Numbered argument\(s\) .* were not used|Named argument\(s\) .* were not used")),
]

CONVERSIONS = list("diouxXeEfFgGcrsab%") + ["y", "k"]
FLAGS = ["", "#", "0", "-", " ", "+", "-0", "#0", "+ "]
WIDTHS = ["", "5", "*"]
PRECS = ["", ".2", ".*", "."]  # a bare "." is precision 0 for CPython
LENMODS = ["", "l"]
KEYS = [None, "a", "b"]

SCALARS = [
    "1", "0", "-1", "255", "256", "300", "True", "False", "1.5", "0.0", "1e100", "'x'", "''", "'xy'",
    "b'x'", "b''", "b'xy'", "None", "(1,)", "[1]", "1j", "IDX", "FLT", "Color.RED", "bytearray(b'q')",
]
PRELUDE = '''
import enum
class _Idx:
    def __index__(self): return 65
class _Flt:
    def __float__(self): return 2.5
IDX = _Idx()
FLT = _Flt()
class Color(enum.Enum):
    RED = 1
class Obj:
    real = 3
    def __init__(self): self.items = [1, 2]
OBJ = Obj()
'''


def spec_text(key, flags, width, prec, lenmod, conv) -> str:
    return "%" + (f"({key})" if key else "") + flags + width + prec + lenmod + conv


# ---- operands / arguments whose inferred value is a UNION of literals ------------------------------------
UNION_SHAPES = ["ifexp", "ifstmt"]
CONDS = ["c0", "c1", "c2", "c3", "c4", "c5"]  # parameters of holder(): bool, value unknown to pyanalyze
HOLDER_DEF = "def holder(" + ", ".join(f"{c}: bool" for c in CONDS) + "):"


def union_case(kind: str, parts, member_lists, shape: str, feat: str) -> dict:
    """A case whose expression has union-valued holes.  parts = the literal source pieces around the holes
    (len(member_lists) + 1 of them); member_lists[h] = the 2-3 alternative literal sources of hole h.
    shape 'ifexp': the hole is a conditional expression; 'ifstmt': a variable assigned in every branch of an
    if/elif/else just before.  Distinct holes use distinct conditions (pyanalyze does not correlate them, and
    neither may the oracle).  'members' = one CPython expression per combination of alternatives."""
    assert len(parts) == len(member_lists) + 1
    conds = iter(CONDS)
    pre, fills = [], []
    for h, members in enumerate(member_lists):
        assert len(members) >= 2
        cs = [next(conds) for _ in members[:-1]]
        if shape == "ifexp":
            e = members[-1]
            for c, m in zip(reversed(cs), reversed(members[:-1])):
                e = f"{m} if {c} else {e}"
            fills.append(f"({e})")
        else:
            var = f"u{h}"
            for j, m in enumerate(members):
                pre.append("else:" if j == len(members) - 1 else f"{'if' if j == 0 else 'elif'} {cs[j]}:")
                pre.append(f"    {var} = {m}")
            fills.append(var)
    expr = parts[0] + "".join(f + p for f, p in zip(fills, parts[1:]))
    combos = [parts[0] + "".join(m + p for m, p in zip(combo, parts[1:])) for combo in itertools.product(*member_lists)]
    return {"kind": kind, "expr": expr, "pre": pre, "members": combos, "feature": feat, "shape": shape}


# dict literals for mapping-key templates: every key subset of {a, b, c}; a non-str literal key alone / next to a
# str key; wrong-typed values; and two non-mapping members
MAP_MEMBERS = [
    "{}", "{'a': 1}", "{'b': 2}", "{'c': 3}", "{'a': 1, 'b': 2}", "{'a': 1, 'c': 3}", "{'b': 2, 'c': 3}",
    "{'a': 1, 'b': 2, 'c': 3}", "{1: 1}", "{'a': 1, 1: 1}", "{'a': 'x'}", "{'a': 'x', 'b': 2}", "1", "(1,)",
]
MAP_TEMPLATES = ["%(a)s", "%(a)s %(b)s", "%(a)d", "%(a)s %%", "%(a)d/%(a)s"]
SEQ_MEMBERS = ["1", "'x'", "1.5", "None", "()", "(1,)", "(1, 2)", "(1, 'x')", "('x', 1)", "[1]"]
SEQ_TEMPLATES = ["%s", "%d", "%s %s", "%s %d", "%*d", "%c", "%s %%"]


def _bytes_keys(member: str) -> str:
    return member.replace("'a'", "b'a'").replace("'b'", "b'b'").replace("'c'", "b'c'")


def gen_percent_unions(ctx):
    """Systematic (seed-independent, sharded with ctx.mine): mapping-key templates x ORDERED pairs of distinct
    members of MAP_MEMBERS (both shapes), sampled ordered triples; positional templates x ordered pairs of
    SEQ_MEMBERS; bytes templates with bytes keys for the key-subset members."""
    out = []
    idx = 0
    quick = ctx.tier == "quick"
    for ti, text in enumerate(MAP_TEMPLATES):
        for n, (m1, m2) in enumerate(itertools.permutations(MAP_MEMBERS, 2)):
            for si, shape in enumerate(UNION_SHAPES):
                idx += 1
                # quick tier: both shapes for the first two templates, alternating shapes for the others
                if ctx.mine(idx) and (not quick or ti < 2 or (n + ti) % 2 == si):
                    out.append(union_case("percent", [repr(text) + " % ", ""], [[m1, m2]], shape, "union:map2"))
        # ordered triples: all of them over the key-subset members for the first two templates (thorough),
        # every 7th (rotated by the seed) in the quick tier
        for n, (m1, m2, m3) in enumerate(itertools.permutations(MAP_MEMBERS[:10], 3)):
            idx += 1
            if not ctx.mine(idx) or ti > 1 or (quick and (n + ctx.seed) % 7):
                continue
            out.append(union_case("percent", [repr(text) + " % ", ""], [[m1, m2, m3]], UNION_SHAPES[n % 2], "union:map3"))
    for text in MAP_TEMPLATES[:2]:
        for m1, m2 in itertools.permutations(MAP_MEMBERS[:8], 2):
            idx += 1
            if ctx.mine(idx):
                out.append(union_case("percent", ["b" + repr(text) + " % ", ""], [[_bytes_keys(m1), _bytes_keys(m2)]],
                                      UNION_SHAPES[idx % 2], "union:map2:bytes"))
    for text in SEQ_TEMPLATES:
        for m1, m2 in itertools.permutations(SEQ_MEMBERS, 2):
            for si, shape in enumerate(UNION_SHAPES):
                idx += 1
                if ctx.mine(idx) and (si == 0 or not quick or idx % 3 == 0):
                    out.append(union_case("percent", [repr(text) + " % ", ""], [[m1, m2]], shape, "union:seq2"))
    return out


def gen_percent(ctx, n_random: int):
    """Yield (template_literal_source, args_source, feature) strings."""
    rng = ctx.rng
    out = []
    # (1) every single-specifier template x every scalar (exhaustive over conv x a flag/width/prec sample)
    singles = []
    for conv in CONVERSIONS:
        for flags in FLAGS:
            for width in WIDTHS:
                for prec in PRECS:
                    for lenmod in LENMODS:
                        singles.append((None, flags, width, prec, lenmod, conv))
    idx = 0
    for spec in singles:
        idx += 1
        if not ctx.mine(idx):
            continue
        key, flags, width, prec, lenmod, conv = spec
        full = (flags in ("", "#", "-0") and lenmod == "") or ctx.tier == "thorough"
        nstar = (width == "*") + (prec == "*")
        for is_bytes in (False, True):
            text = "<" + spec_text(*spec) + ">"
            tsrc = ("b" if is_bytes else "") + repr(text)
            scalars = SCALARS if full else rng.sample(SCALARS, 4)
            for s in scalars:
                if nstar == 0:
                    out.append((tsrc, s, conv))
                    if full and rng.random() < 0.15:
                        out.append((tsrc, f"({s},)", conv))
                else:
                    stars = ["3"] * nstar
                    if rng.random() < 0.2:
                        stars[0] = rng.choice(["'3'", "2.0", "None", "True"])
                    out.append((tsrc, f"({', '.join(stars)}, {s})", conv))
            if rng.random() < 0.3:
                out.append((tsrc, "()", conv))
                out.append((tsrc, f"({rng.choice(SCALARS)}, {rng.choice(SCALARS)})", conv))
    # (1b) "%%" next to every kind of specifier (it consumes no argument): mapping keys, positional, stars
    for is_bytes in (False, True):
        for text, args in [("%(a)s 100%%", "{'a': 1}"), ("%% %(a)d", "{'a': 1}"), ("%(a)s%%%(b)s", "{'a': 1, 'b': 2}"), ("%(a)s %%", "{}"),
                           ("%(a)s %%", "{'b': 1}"), ("%s %%", "1"), ("%% %s %%", "(1,)"), ("%%%s", "()"), ("%*d%%", "(3, 1)"), ("100%%", "()"),
                           ("100%%", "1"), ("%%", "{'a': 1}"), ("%%(a)s", "{'a': 1}"), ("%(a)%", "{'a': 1}"), ("%5%", "()"), ("%-%", "()"), ("%.2%", "()")]:
            if is_bytes:
                args = args.replace("'a'", "b'a'").replace("'b'", "b'b'")
            out.append((("b" if is_bytes else "") + repr(text), args, "percent-escape"))
    # (2) random multi-specifier templates, incl. mapping keys, with tuple / dict args
    for _ in range(n_random):
        n = rng.randrange(1, 4)
        is_bytes = rng.random() < 0.3
        use_map = rng.random() < 0.4
        specs = []
        for _ in range(n):
            conv = rng.choice(CONVERSIONS)
            key = rng.choice(["a", "b", "c"]) if use_map and rng.random() < 0.85 else None
            specs.append((key, rng.choice(FLAGS), rng.choice(WIDTHS if rng.random() < 0.2 else [""]),
                          rng.choice(PRECS if rng.random() < 0.2 else [""]), "", conv))
        text = " ".join(spec_text(*s) for s in specs)
        if rng.random() < 0.1:
            text += rng.choice([" %", " 100%", "%(a", " % s"])
        tsrc = ("b" if is_bytes else "") + repr(text)
        nargs = sum(1 + (s[2] == "*") + (s[3] == "*") for s in specs if s[5] != "%")

        def make_args():
            r = rng.random()
            if use_map:
                keys = rng.sample(["a", "b", "c", "d"], rng.randrange(0, 4))
                if is_bytes and rng.random() < 0.7:
                    items = ", ".join(f"b{k!r}: {rng.choice(SCALARS)}" for k in keys)
                else:
                    items = ", ".join(f"{k!r}: {rng.choice(SCALARS)}" for k in keys)
                return "{" + items + "}" if r < 0.85 else rng.choice(SCALARS)
            k = nargs if r < 0.6 else max(0, nargs + rng.choice([-1, 1, 2]))
            vals = []
            for s in specs:
                if s[5] == "%":
                    continue
                if s[2] == "*":
                    vals.append("4")
                if s[3] == "*":
                    vals.append("2")
                good = {"c": ["65", "'x'", "b'x'"], "s": ["'x'", "b'x'", "1"], "b": ["b'x'", "'x'"]}.get(s[5], ["1", "1.5", "'x'", "True"])
                vals.append(rng.choice(good) if rng.random() < 0.7 else rng.choice(SCALARS))
            vals = (vals + [rng.choice(SCALARS) for _ in range(4)])[:k]
            if len(vals) == 1 and rng.random() < 0.5:
                return vals[0]
            return "(" + "".join(v + ", " for v in vals) + ")"

        feat = "multi:" + "".join(s[5] for s in specs) + (":map" if use_map else "")
        if rng.random() < 0.08:
            # the right operand is a union of 2-3 alternative argument literals
            members = []
            for _ in range(rng.choice([2, 2, 3])):
                a = make_args()
                if a not in members:
                    members.append(a)
            if len(members) >= 2:
                out.append(union_case("percent", [tsrc + " % ", ""], [members], rng.choice(UNION_SHAPES), "union:" + feat))
                continue
        out.append((tsrc, make_args(), feat))
    return out


FIELD_NAMES = ["", "0", "1", "2", "a", "b"]
FIELD_PATHS = ["", ".real", ".missing", "[0]", "[1]", "[k]", ".real.real", "[0][0]"]
FIELD_CONVS = ["", "!r", "!s", "!a", "!x"]
FIELD_SPECS = ["", ":", ":d", ":.2f", ":>5", ":{}", ":{w}", ":{1}", ":x", ":s", ":%", ":,", ":zz", ":{0}{1}"]
FORMAT_ARGS = ["1", "'x'", "None", "1.5", "(1, 2)", "[1]", "{'k': 1}", "OBJ", "True", "b'x'"]
BROKEN = ["{", "}", "{0", "0}", "{!}", "{:{}", "{0!}", "{[}", "{a.}", "{0[}", "{{}", "{}}", "{ }", "{0 }", "{-1}", "{0.}", "{.x}", "{[0]}"]


def gen_format(ctx, n_random: int):
    rng = ctx.rng
    out = []
    for _ in range(n_random):
        nfields = rng.randrange(0, 4)
        pieces = []
        for _ in range(nfields):
            r = rng.random()
            if r < 0.08:
                pieces.append(rng.choice(BROKEN))
                continue
            if r < 0.16:
                pieces.append(rng.choice(["{{", "}}", "{{}}", "{{0}}"]))
                continue
            name = rng.choice(FIELD_NAMES)
            path = rng.choice(FIELD_PATHS) if rng.random() < 0.35 else ""
            conv = rng.choice(FIELD_CONVS) if rng.random() < 0.3 else ""
            spec = rng.choice(FIELD_SPECS) if rng.random() < 0.4 else ""
            pieces.append("{" + name + path + conv + spec + "}")
        text = "-".join(pieces) if pieces else rng.choice(["", "plain", "{{}}"])
        npos = rng.randrange(0, 4)
        pos = [rng.choice(FORMAT_ARGS) for _ in range(npos)]
        kws = [f"{k}={rng.choice(FORMAT_ARGS)}" for k in rng.sample(["a", "b", "w"], rng.randrange(0, 3))]
        allargs = pos + kws
        if allargs and rng.random() < 0.08:
            # one (sometimes two) of the arguments is a union of two literals
            holes = sorted(rng.sample(range(len(allargs)), 2 if len(allargs) > 1 and rng.random() < 0.25 else 1))
            parts, member_lists, cur = [], [], f"{text!r}.format("
            for j, a in enumerate(allargs):
                prefix, _, val = a.rpartition("=")
                cur += (", " if j else "") + (prefix + "=" if prefix else "")
                if j in holes:
                    parts.append(cur)
                    cur = ""
                    other = rng.choice([x for x in FORMAT_ARGS if x != val])
                    member_lists.append([val, other])
                else:
                    cur += val
            parts.append(cur + ")")
            out.append(union_case("format", parts, member_lists, rng.choice(UNION_SHAPES), "fmt-union"))
            continue
        call = f"{text!r}.format({', '.join(allargs)})"
        feat = "broken" if any(b in text for b in ()) else "fmt"
        out.append((call, feat, text))
    return out


NEST_TOP = ["", "0", "1", "a"]


def _nested_specs(nest_names, with_decor: bool):
    """Format specs holding 0, 1 or 2 nested replacement fields over the given nested field names."""
    specs = [("", [])]
    for n1 in nest_names:
        specs.append((":{" + n1 + "}", [n1]))
        if with_decor:
            specs.append((":>{" + n1 + "}", [n1]))
            specs.append((":{" + n1 + "!r}", [n1]))
            specs.append((":{" + n1 + ".real}", [n1]))
        for n2 in nest_names:
            specs.append((":{" + n1 + "}{" + n2 + "}", [n1, n2]))
    return specs


def _consumed(names) -> int:
    """Number of positional arguments CPython needs: automatic fields are numbered in order of appearance over
    BOTH levels; a numbered field n needs n + 1."""
    autos = sum(1 for n in names if n == "")
    manual = max([int(n) + 1 for n in names if n.isdigit()] or [0])
    return max(autos, manual)


def gen_format_nested(ctx):
    """Exhaustive small space of templates with replacement fields INSIDE format specs, every numbering style
    (auto / numbered / keyword) at both levels: 1 field (names {auto,0,1,a} x nested names {auto,0,1,2,w},
    decorated), 2 fields and 3 fields (nested names {auto,1,w}; the 3-field space is thinned in the quick tier,
    rotated by the seed), three-level nesting; each with k-1, k, k+1 positional arguments (k-1, k for 2 fields in
    the quick tier and for 3 fields / three levels) where k is what CPython consumes, keywords a and w given (and, for one field, also withheld).  All argument values are 3, which is a
    valid width / fill-less spec, so a CPython error is about argument lookup or numbering, not the spec text.
    Seed-independent apart from the thinning; sharded with ctx.mine."""
    out = []
    idx = 0
    quick = ctx.tier == "quick"

    def emit(text, names, kwsets, feat, deltas=(-1, 0, 1)):
        nonlocal idx
        k = _consumed(names)
        for d in deltas:
            npos = k + d
            if npos < 0:
                continue
            for kws in kwsets:
                idx += 1
                if ctx.mine(idx):
                    args = ["3"] * npos + [f"{kw}=3" for kw in kws]
                    out.append((f"{text!r}.format({', '.join(args)})", feat, text))

    one = [(nm, sp) for nm in NEST_TOP for sp in _nested_specs(["", "0", "1", "2", "w"], True)]
    small = [(nm, sp) for nm in NEST_TOP for sp in _nested_specs(["", "1", "w"], False)]
    for nm, (sp, inner) in one:
        emit("{" + nm + sp + "}", [nm] + inner, [("a", "w"), ()], "fmt-nested1")
    for (n1, (s1, i1)), (n2, (s2, i2)) in itertools.product(small, repeat=2):
        if not i1 and not i2:
            continue  # no nested field at all: gen_format_systematic's space
        emit("{" + n1 + s1 + "}|{" + n2 + s2 + "}", [n1] + i1 + [n2] + i2, [("a", "w")], "fmt-nested2", deltas=(-1, 0) if quick else (-1, 0, 1))
    tiny = [(nm, sp) for nm in ["", "0", "a"] for sp in [("", []), (":{}", [""]), (":{1}", ["1"]), (":{w}", ["w"]), (":{}{}", ["", ""])]]
    for n, fields in enumerate(itertools.product(tiny, repeat=3)):
        if not any(i for _, (_, i) in fields) or (quick and (n + ctx.seed) % 4):
            continue
        text = "".join("{" + nm + sp + "}" for nm, (sp, _) in fields)
        names = [x for nm, (_, i) in fields for x in [nm] + i]
        emit(text, names, [("a", "w")], "fmt-nested3", deltas=(-1, 0))
    # three levels: CPython refuses to expand a replacement field inside the spec of a nested field
    for a, b, c in itertools.product(["", "0", "a"], ["", "1", "w"], ["", "2", "w"]):
        for tail in ("", "|{}"):
            text = "{" + a + ":{" + b + ":{" + c + "}}}" + tail
            emit(text, [a, b, c] + ([""] if tail else []), [("a", "w")], "fmt-nested-deep", deltas=(-1, 0))
    return out


def gen_format_unions(ctx):
    """Systematic: templates from the small nested/plain space whose positional or keyword arguments are unions of
    two literals (3 | 4, or 3 | 'x'), one or two union arguments per call, both shapes (thinned for two union
    arguments in the quick tier)."""
    out = []
    idx = 0
    quick = ctx.tier == "quick"
    templates = ["{}", "{} {}", "{0} {1}", "{:{}}", "{:{}}|{}", "{:>{}}{:>{}}", "{a:{}}{}", "{0:{1}}|{2}", "{a} {w}", "{:{w}}|{}",
                 "{0} {}", "{:{:{}}}", "{0.real}", "{a.real}{}"]
    for text in templates:
        names = re.findall(r"\{([0-9a-z]*)", text)
        k = _consumed(names)
        for npos in (k - 1, k, k + 1):
            if npos < 0:
                continue
            slots = [None] * npos + ["a", "w"]
            for hn, holes in enumerate(list(itertools.combinations(range(len(slots)), 1)) + list(itertools.combinations(range(len(slots)), 2))):
                for ai, alt in enumerate(("4", "'x'")):
                    for si, shape in enumerate(UNION_SHAPES):
                        idx += 1
                        if not ctx.mine(idx):
                            continue
                        if quick and len(holes) == 2 and (ai or hn % 2 != si):
                            continue  # quick tier: two union arguments only as 3 | 4, alternating shapes
                        parts, member_lists, cur = [], [], f"{text!r}.format("
                        for j, kw in enumerate(slots):
                            cur += (", " if j else "") + (kw + "=" if kw else "")
                            if j in holes:
                                parts.append(cur)
                                cur = ""
                                member_lists.append(["3", alt])
                            else:
                                cur += "3"
                        parts.append(cur + ")")
                        out.append(union_case("format", parts, member_lists, shape, "fmt-union-systematic"))
    return out


def gen_format_systematic(ctx):
    """Exhaustive small space of WELL-FORMED templates: every sequence of 1-4 fields over {auto, 0, 1, 2, a} (each
    optionally with an attribute/index path or a conversion) x 0-3 positional arguments x keyword a present/absent.
    Seed-independent; sharded with ctx.mine."""
    import itertools

    names = ["", "0", "1", "2", "a"]
    suffixes = ["", ".real", "[0]", "!r", ":>4"]
    out = []
    idx = 0
    for n in range(1, 5):
        for seq in itertools.product(names, repeat=n):
            for si in range(len(suffixes) if n <= 2 else 1):
                for npos in range(0, 4):
                    for with_a in (False, True):
                        idx += 1
                        if not ctx.mine(idx):
                            continue
                        fields = ["{" + nm + (suffixes[si] if j == 0 else "") + "}" for j, nm in enumerate(seq)]
                        text = " ".join(fields)
                        arg = "(1, 2)" if suffixes[si] == "[0]" else "3"
                        args = [arg] * npos + (["a=" + arg] if with_a else [])
                        out.append((f"{text!r}.format({', '.join(args)})", "fmt-systematic", text))
    return out


def lint_rule(desc: str):
    for name, rx in LINT_RULES:
        if rx.search(desc):
            return name
    return None


MISSED_MECHS = [
    # (kind, regex on "ExcType: message", mechanism)
    ("percent", r"TypeError: %[oxX] format: an integer is required, not float", "int-conversion-given-float"),
    ("format", r"AttributeError: .* has no attribute|IndexError: .*index out of range|KeyError: |TypeError: .* is not subscriptable|TypeError: .* indices must be integers", "field-path-not-validated"),
    ("format", r"TypeError: unsupported format string passed to|ValueError: Unknown format code|ValueError: Invalid format specifier|ValueError: Precision not allowed|ValueError: Cannot specify|ValueError: Sign not allowed|ValueError: Alternate form|ValueError: Format specifier missing precision|ValueError: Invalid conversion specification", "format-spec-not-validated"),
    ("format", r"ValueError: cannot switch from (automatic|manual) field", "auto-manual-numbering-mix"),
    ("format", r"ValueError: Max string recursion exceeded", "spec-nesting-deeper-than-two-levels"),
]
SPURIOUS_MECHS = [
    ("percent", r"%[eEfFgG] conversion specifier accepts numbers, not", r"\bFLT\b", "supports-float-object"),
    ("percent", r"%[bs] accepts only bytes, not bytearray|%c requires an integer or character, not bytearray", r"bytearray", "bytearray-for-bytes-conversion"),
    ("percent", r"%c requires an integer in range\(256\)", r"^'|^\"", "%c-range-on-str-template"),
    ("percent", r"%c requires an integer or character, not", r"\bIDX\b", "%c-supports-index-object"),
    ("percent", r"too many arguments to format string: got 1 but expected 0", r".", "escape-only-template-nontuple-arg"),
]


def missed_mechanism(kind: str, src: str, exc) -> str:
    text = f"{type(exc).__name__}: {exc}"
    if kind == "percent" and src.startswith("b") and "%(" in src and "% {" in src:
        return "bytes-template-mapping-keys-never-matched"
    for k, rx, mech in MISSED_MECHS:
        if k == kind and re.search(rx, text):
            return mech
    if kind == "percent" and isinstance(exc, KeyError) and _has_non_str_dict_key(src):
        return "non-str-literal-key-disables-missing-key-report"
    return f"{type(exc).__name__}|{norm_msg(str(exc))}"


def _has_non_str_dict_key(src: str) -> bool:
    """The right operand of the % expression is a dict display with a literal key that is not a str."""
    try:
        node = ast.parse(src, mode="eval").body
    except SyntaxError:
        return False
    if not (isinstance(node, ast.BinOp) and isinstance(node.right, ast.Dict)):
        return False
    return any(k is not None and not (isinstance(k, ast.Constant) and isinstance(k.value, str)) for k in node.right.keys)


def spurious_mechanism(kind: str, src: str, desc: str) -> str:
    for k, rx, src_rx, mech in SPURIOUS_MECHS:
        if k == kind and re.search(rx, desc) and re.search(src_rx, src):
            return mech
    return norm_msg(desc)


def norm_msg(d: str) -> str:
    d = re.sub(r"(No value specified for keys) .*", r"\1 K", d)
    d = re.sub(r"Literal\[.*?\]|'[^']*'", "X", d)
    d = re.sub(r"\d+", "#", d)
    return d[:70]


def as_case(kind: str, item) -> dict:
    """(expr, feature) -> the general case form {"kind", "expr", "feature"[, "pre", "members", "shape"]}."""
    if isinstance(item, dict):
        return item
    return {"kind": kind, "expr": item[0], "feature": item[1]}


class _Probe:
    """Stands in for a .format argument and records that CPython touched it."""

    def __init__(self, tag, used):
        self._tag, self._used = tag, used

    def _touch(self):
        self._used.add(self._tag)

    def __format__(self, spec):
        self._touch()
        return "3"

    def __str__(self):
        self._touch()
        return "3"

    __repr__ = __str__

    def __getattr__(self, name):
        if name.startswith("__"):
            raise AttributeError(name)
        self._touch()
        return self

    def __getitem__(self, item):
        self._touch()
        return self


def r4_names_used_argument(src: str, desc: str):
    """The 'argument(s) ... were not used' rule is an excuse only for arguments CPython really ignores.  Returns
    the list of named-but-used arguments (empty = rule applies), or None when the call cannot be probed."""
    try:
        call = ast.parse(src, mode="eval").body
        if not (isinstance(call, ast.Call) and isinstance(call.func, ast.Attribute) and isinstance(call.func.value, ast.Constant)
                and isinstance(call.func.value.value, str)):
            return None
        if any(isinstance(a, ast.Starred) for a in call.args) or any(k.arg is None for k in call.keywords):
            return None
        used = set()
        call.func.value.value.format(*[_Probe(i, used) for i in range(len(call.args))],
                                     **{k.arg: _Probe(k.arg, used) for k in call.keywords})
    except Exception:  # noqa: BLE001
        return None
    m = re.search(r"(Numbered|Named) argument\(s\) (.*) were not used", desc)
    if not m:
        return None
    named = [x.strip() for x in m.group(2).split(",")]
    named = [int(x) if m.group(1) == "Numbered" else x for x in named]
    return [x for x in named if x in used]


def _cpython(src: str, ns):
    with warnings.catch_warnings():
        warnings.simplefilter("ignore")
        try:
            return None, eval(src, ns)
        except Exception as e:  # noqa: BLE001
            return e, None


def check_exprs(ctx, items, kind: str) -> None:
    """items: (expr_source, feature) tuples or union-case dicts (see union_case).  Every member expression of a
    union case is also put on a line of its own (once per batch) and judged as an ordinary case."""
    cases = [as_case(kind, it) for it in items]
    if not cases:
        return
    seen = {c["expr"] for c in cases if "members" not in c}
    for c in list(cases):
        for m in c.get("members", ()):
            if m not in seen:
                seen.add(m)
                cases.append({"kind": kind, "expr": m, "feature": "member"})
    lines = [PRELUDE, HOLDER_DEF]
    in_fn = 0
    for c in cases:
        if "members" in c:
            # every test of c0.. adds a constraint that later lookups of the name walk through: keep few per function
            in_fn += 1
            if in_fn > UNIONS_PER_FUNCTION:
                lines.append(HOLDER_DEF)
                in_fn = 1
        for pre in c.get("pre", ()):
            lines.append("    " + pre)
        lines.append(f"    ({c['expr']})")
    source = "\n".join(lines) + "\n"
    tree = ast.parse(source)
    res = harness.run(source, tree=tree, annotate=True, keep_module=True, overrides={"use_fstrings": False})
    try:
        if res.exception is not None:
            ctx.violation("harness|exception", f"check raised {res.exception!r}", {"kind": kind, "exprs": [c["expr"] for c in cases]})
            return
        by_line = res.by_line()
        ns = res.module.__dict__
        stmts = [st for fn in tree.body if isinstance(fn, ast.FunctionDef) and fn.name == "holder" for st in fn.body if isinstance(st, ast.Expr)]
        assert len(stmts) == len(cases)
        diags = [[d for d in by_line.get(st.lineno, []) if d.code in CODES] for st in stmts]
        single = {c["expr"]: i for i, c in enumerate(cases) if "members" not in c}
        for i, c in enumerate(cases):
            src, feat, ds = c["expr"], c["feature"], diags[i]
            members = c.get("members")
            is_union = members is not None
            if is_union:
                outcomes = [_cpython(m, ns) for m in members]
                shown = ("; ".join(p.strip() for p in c["pre"]) + "; " if c["pre"] else "") + src
                wit = {k: c[k] for k in ("kind", "expr", "pre", "members", "feature", "shape")}
            else:
                members = [src]
                outcomes = [_cpython(src, ns)]
                shown = src
                wit = {"kind": kind, "expr": src, "feature": feat}
            raising = [j for j, (e, _) in enumerate(outcomes) if e is not None]
            ctx.count("evaluations")
            ctx.count(f"{kind}_cases")
            ctx.count("cpython_raised" if raising else "cpython_ok")
            ctx.nontrivial((kind, shown))
            fkey = feat.split(":")[0] if kind == "percent" else feat
            ctx.histo("by_feature", f"{kind}:{fkey}:{'raise' if raising else 'ok'}:{'diag' if ds else 'clean'}")
            if is_union:
                ctx.count("union_cases")
                ctx.histo("unions", f"{kind}:{c['shape']}:{len(members)}-members:{len(raising)}-raise:{'diag' if ds else 'clean'}")
            if feat.startswith("fmt-nested"):
                ctx.count("nested_spec_cases")
            if raising and not ds:
                # which member explains it?  one that is not diagnosed on its own line either -> the same defect as
                # for the plain operand; otherwise the diagnosis was lost in the union
                alone_missed = [j for j in raising if not diags[single[members[j]]]] if is_union else raising
                j = (alone_missed or raising)[0]
                exc = outcomes[j][0]
                if alone_missed:
                    key = f"{kind}|missed|{missed_mechanism(kind, members[j], exc)}"
                else:
                    key = f"{kind}|missed|union-only|{type(exc).__name__}"
                ctx.violation(key, f"{shown}: CPython raises {type(exc).__name__}: {exc}" + (f" for {members[j]}" if is_union else "")
                              + "; pyanalyze reports nothing", wit)
            elif not raising and ds:
                value = outcomes[0][1]
                non_lint = []
                for d in ds:
                    r = lint_rule(d.description)
                    if r == "R4":
                        bad = r4_names_used_argument(src, d.description) if not is_union else None
                        if bad is not None:
                            ctx.count("r4_probe_checked")
                        if bad:
                            non_lint.append((d, f"{kind}|spurious|unused-argument-rule-names-a-used-argument"))
                            continue
                    if r:
                        ctx.histo("lint_rules_excused", r)
                    else:
                        non_lint.append((d, None))
                if non_lint:
                    d, key = non_lint[0]
                    if key is None and is_union:
                        # a member that draws a (non-lint) report on its own line -> same defect as the plain operand
                        for m in members:
                            alone = [x for x in diags[single[m]] if lint_rule(x.description) is None]
                            if alone:
                                key = f"{kind}|spurious|{spurious_mechanism(kind, m, alone[0].description)}"
                                break
                        else:
                            key = f"{kind}|spurious|union-only|{norm_msg(d.description)}"
                    elif key is None:
                        key = f"{kind}|spurious|{spurious_mechanism(kind, src, d.description)}"
                    ctx.violation(key, f"{shown}: CPython gives {value!r}" + (" (and succeeds for every member)" if is_union else "")
                                  + f"; pyanalyze reports {d.short()}", wit)
            inferred = getattr(stmts[i].value, "inferred_value", None)
            if inferred is not None:
                for e, value in outcomes:
                    if e is not None:
                        continue
                    ok = _type_matches(inferred, value)
                    ctx.count("result_type_checked")
                    if ok is False:
                        key = f"{kind}|wrong-type|{type(value).__name__}|{type(inferred).__name__}"
                        ctx.violation(key, f"{shown}: result is {type(value).__name__} but inferred {inferred}", wit)
                        break
        if len(ctx.samples) < 3:
            ctx.sample({"kind": kind, "expr": cases[0]["expr"]})
    finally:
        harness.forget_module(res.module)


def _type_matches(inferred, value):
    from pyanalyze.value import AnyValue, KnownValue, TypedValue, AnnotatedValue, MultiValuedValue

    if isinstance(inferred, AnnotatedValue):
        inferred = inferred.value
    if isinstance(inferred, AnyValue):
        return None
    if isinstance(inferred, KnownValue):
        return type(inferred.val) is type(value) and inferred.val == value
    if isinstance(inferred, TypedValue):
        return isinstance(inferred.typ, type) and isinstance(value, inferred.typ)
    if isinstance(inferred, MultiValuedValue):
        rs = [_type_matches(v, value) for v in inferred.vals]
        if any(r is True for r in rs):
            return True
        if any(r is None for r in rs):
            return None
        return False
    return None


def shard(ctx) -> None:
    pct = gen_percent(ctx, ctx.pick(700, 8000)) + gen_percent_unions(ctx)
    items = [it if isinstance(it, dict) else (f"{it[0]} % {it[1]}", it[2]) for it in pct]
    for i in range(0, len(items), BATCH):
        check_exprs(ctx, items[i : i + BATCH], "percent")
    fmt = gen_format(ctx, ctx.pick(400, 4000)) + gen_format_systematic(ctx) + gen_format_nested(ctx) + gen_format_unions(ctx)
    items = [it if isinstance(it, dict) else (it[0], it[1]) for it in fmt]
    for i in range(0, len(items), BATCH):
        check_exprs(ctx, items[i : i + BATCH], "format")


def replay(witness):
    from vp.core import Ctx

    ctx = Ctx(ID, "quick", 0, 0, 1)
    if "members" in witness:
        item = {k: witness[k] for k in ("kind", "expr", "pre", "members", "feature", "shape")}
    else:
        item = (witness["expr"], witness.get("feature", "x"))
    check_exprs(ctx, [item], witness["kind"])
    # a union case also judges its members on their own lines: report the union line's own verdict first
    for key, lst in ctx.violations.items():
        for v in lst:
            if v["witness"].get("expr") == witness["expr"]:
                return key, v["what"]
    return None
