"""C17 — format-string diagnostics agree with CPython's formatter.

Monitor: each (template, args) expression is checked by pyanalyze (one per line of a never-called
function, annotate=True) and evaluated by CPython; the two outcomes are compared.
"""
from __future__ import annotations

import ast
import itertools
import re
import warnings

from vp import harness

ID = "C17"
LEVEL = "exploration"
RULE = (
    "case = (literal template, literal arguments); %-templates are enumerated from the conversion grammar "
    "(mapping key x flag subsets x width x precision x length modifier x all conversion types + 2 invalid ones, "
    "1-3 specifiers, str and bytes) crossed with scalar/tuple/dict argument literals; str.format templates are "
    "enumerated over auto/numbered/named fields, attribute/index paths, conversions, specs, escapes, broken braces. "
    "Non-trivial = has at least one conversion specifier / replacement field; distinct by (template, args) text; "
    "both outcomes (raises / succeeds) counted per conversion type."
)
ASSUMPTIONS = [
    "CPython 3.12 is the oracle: 'raises' = any exception while evaluating the formatting expression",
    "documented stricter lint rules (not violations when CPython succeeds): R1 % on a template with no specifier "
    "and non-empty args; R2 %% with flags/width/precision/key; R3 mixing mapping-key and positional/* specifiers; "
    "R4 .format arguments that no field uses; R5 use_fstrings/missing_f suggestions (other codes)",
    "diagnosed = bad_format_string / incompatible_call / incompatible_argument on the expression's line",
]
FLOORS = {
    "quick": {"distinct_nontrivial": 15000, "percent_cases": 15000, "format_cases": 3000, "cpython_raised": 1000, "cpython_ok": 1000},
    "thorough": {"distinct_nontrivial": 150000, "percent_cases": 150000, "format_cases": 20000},
}
CODES = {"bad_format_string", "incompatible_call", "incompatible_argument"}
BATCH = 250

LINT_RULES = [
    ("R1", re.compile(r"use of % on string with no conversion specifiers")),
    ("R2", re.compile(r"using % combined with optional specifiers does not make sense")),
    ("R3", re.compile(r"cannot combine specifiers that require a mapping with those that do not")),
    ("R4", re.compile(r"Numbered argument\(s\) .* were not used|Named argument\(s\) .* were not used")),
]

CONVERSIONS = list("diouxXeEfFgGcrsab%") + ["y", "k"]
FLAGS = ["", "#", "0", "-", " ", "+", "-0", "#0", "+ "]
WIDTHS = ["", "5", "*"]
PRECS = ["", ".2", ".*", "."]  # a bare "." is precision 0 for CPython
LENMODS = ["", "l"]
KEYS = [None, "a", "b"]

SCALARS = [
    "1", "0", "-1", "255", "256", "300", "True", "False", "1.5", "0.0", "1e100", "'x'", "''", "'xy'",
    "b'x'", "b''", "b'xy'", "None", "(1,)", "[1]", "1j", "IDX", "FLT", "Color.RED", "bytearray(b'q')",
]
PRELUDE = '''
import enum
class _Idx:
    def __index__(self): return 65
class _Flt:
    def __float__(self): return 2.5
IDX = _Idx()
FLT = _Flt()
class Color(enum.Enum):
    RED = 1
class Obj:
    real = 3
    def __init__(self): self.items = [1, 2]
OBJ = Obj()
'''


def spec_text(key, flags, width, prec, lenmod, conv) -> str:
    return "%" + (f"({key})" if key else "") + flags + width + prec + lenmod + conv


def gen_percent(ctx, n_random: int):
    """Yield (template_literal_source, args_source, feature) strings."""
    rng = ctx.rng
    out = []
    # (1) every single-specifier template x every scalar (exhaustive over conv x a flag/width/prec sample)
    singles = []
    for conv in CONVERSIONS:
        for flags in FLAGS:
            for width in WIDTHS:
                for prec in PRECS:
                    for lenmod in LENMODS:
                        singles.append((None, flags, width, prec, lenmod, conv))
    idx = 0
    for spec in singles:
        idx += 1
        if not ctx.mine(idx):
            continue
        key, flags, width, prec, lenmod, conv = spec
        full = (flags in ("", "#", "-0") and lenmod == "") or ctx.tier == "thorough"
        nstar = (width == "*") + (prec == "*")
        for is_bytes in (False, True):
            text = "<" + spec_text(*spec) + ">"
            tsrc = ("b" if is_bytes else "") + repr(text)
            scalars = SCALARS if full else rng.sample(SCALARS, 4)
            for s in scalars:
                if nstar == 0:
                    out.append((tsrc, s, conv))
                    if full and rng.random() < 0.15:
                        out.append((tsrc, f"({s},)", conv))
                else:
                    stars = ["3"] * nstar
                    if rng.random() < 0.2:
                        stars[0] = rng.choice(["'3'", "2.0", "None", "True"])
                    out.append((tsrc, f"({', '.join(stars)}, {s})", conv))
            if rng.random() < 0.3:
                out.append((tsrc, "()", conv))
                out.append((tsrc, f"({rng.choice(SCALARS)}, {rng.choice(SCALARS)})", conv))
    # (1b) "%%" next to every kind of specifier (it consumes no argument): mapping keys, positional, stars
    for is_bytes in (False, True):
        for text, args in [("%(a)s 100%%", "{'a': 1}"), ("%% %(a)d", "{'a': 1}"), ("%(a)s%%%(b)s", "{'a': 1, 'b': 2}"), ("%(a)s %%", "{}"),
                           ("%(a)s %%", "{'b': 1}"), ("%s %%", "1"), ("%% %s %%", "(1,)"), ("%%%s", "()"), ("%*d%%", "(3, 1)"), ("100%%", "()"),
                           ("100%%", "1"), ("%%", "{'a': 1}"), ("%%(a)s", "{'a': 1}"), ("%(a)%", "{'a': 1}"), ("%5%", "()"), ("%-%", "()"), ("%.2%", "()")]:
            if is_bytes:
                args = args.replace("'a'", "b'a'").replace("'b'", "b'b'")
            out.append((("b" if is_bytes else "") + repr(text), args, "percent-escape"))
    # (2) random multi-specifier templates, incl. mapping keys, with tuple / dict args
    for _ in range(n_random):
        n = rng.randrange(1, 4)
        is_bytes = rng.random() < 0.3
        use_map = rng.random() < 0.4
        specs = []
        for _ in range(n):
            conv = rng.choice(CONVERSIONS)
            key = rng.choice(["a", "b", "c"]) if use_map and rng.random() < 0.85 else None
            specs.append((key, rng.choice(FLAGS), rng.choice(WIDTHS if rng.random() < 0.2 else [""]),
                          rng.choice(PRECS if rng.random() < 0.2 else [""]), "", conv))
        text = " ".join(spec_text(*s) for s in specs)
        if rng.random() < 0.1:
            text += rng.choice([" %", " 100%", "%(a", " % s"])
        tsrc = ("b" if is_bytes else "") + repr(text)
        nargs = sum(1 + (s[2] == "*") + (s[3] == "*") for s in specs if s[5] != "%")
        r = rng.random()
        if use_map:
            keys = rng.sample(["a", "b", "c", "d"], rng.randrange(0, 4))
            if is_bytes and rng.random() < 0.7:
                items = ", ".join(f"b{k!r}: {rng.choice(SCALARS)}" for k in keys)
            else:
                items = ", ".join(f"{k!r}: {rng.choice(SCALARS)}" for k in keys)
            args = "{" + items + "}" if r < 0.85 else rng.choice(SCALARS)
        else:
            k = nargs if r < 0.6 else max(0, nargs + rng.choice([-1, 1, 2]))
            vals = []
            for s in specs:
                if s[5] == "%":
                    continue
                if s[2] == "*":
                    vals.append("4")
                if s[3] == "*":
                    vals.append("2")
                good = {"c": ["65", "'x'", "b'x'"], "s": ["'x'", "b'x'", "1"], "b": ["b'x'", "'x'"]}.get(s[5], ["1", "1.5", "'x'", "True"])
                vals.append(rng.choice(good) if rng.random() < 0.7 else rng.choice(SCALARS))
            vals = (vals + [rng.choice(SCALARS) for _ in range(4)])[:k]
            if len(vals) == 1 and rng.random() < 0.5:
                args = vals[0]
            else:
                args = "(" + "".join(v + ", " for v in vals) + ")"
        out.append((tsrc, args, "multi:" + "".join(s[5] for s in specs) + (":map" if use_map else "")))
    return out


FIELD_NAMES = ["", "0", "1", "2", "a", "b"]
FIELD_PATHS = ["", ".real", ".missing", "[0]", "[1]", "[k]", ".real.real", "[0][0]"]
FIELD_CONVS = ["", "!r", "!s", "!a", "!x"]
FIELD_SPECS = ["", ":", ":d", ":.2f", ":>5", ":{}", ":{w}", ":{1}", ":x", ":s", ":%", ":,", ":zz", ":{0}{1}"]
FORMAT_ARGS = ["1", "'x'", "None", "1.5", "(1, 2)", "[1]", "{'k': 1}", "OBJ", "True", "b'x'"]
BROKEN = ["{", "}", "{0", "0}", "{!}", "{:{}", "{0!}", "{[}", "{a.}", "{0[}", "{{}", "{}}", "{ }", "{0 }", "{-1}", "{0.}", "{.x}", "{[0]}"]


def gen_format(ctx, n_random: int):
    rng = ctx.rng
    out = []
    for _ in range(n_random):
        nfields = rng.randrange(0, 4)
        pieces = []
        for _ in range(nfields):
            r = rng.random()
            if r < 0.08:
                pieces.append(rng.choice(BROKEN))
                continue
            if r < 0.16:
                pieces.append(rng.choice(["{{", "}}", "{{}}", "{{0}}"]))
                continue
            name = rng.choice(FIELD_NAMES)
            path = rng.choice(FIELD_PATHS) if rng.random() < 0.35 else ""
            conv = rng.choice(FIELD_CONVS) if rng.random() < 0.3 else ""
            spec = rng.choice(FIELD_SPECS) if rng.random() < 0.4 else ""
            pieces.append("{" + name + path + conv + spec + "}")
        text = "-".join(pieces) if pieces else rng.choice(["", "plain", "{{}}"])
        npos = rng.randrange(0, 4)
        pos = [rng.choice(FORMAT_ARGS) for _ in range(npos)]
        kws = [f"{k}={rng.choice(FORMAT_ARGS)}" for k in rng.sample(["a", "b", "w"], rng.randrange(0, 3))]
        call = f"{text!r}.format({', '.join(pos + kws)})"
        feat = "broken" if any(b in text for b in ()) else "fmt"
        out.append((call, feat, text))
    return out


def gen_format_systematic(ctx):
    """Exhaustive small space of WELL-FORMED templates: every sequence of 1-4 fields over {auto, 0, 1, 2, a} (each
    optionally with an attribute/index path or a conversion) x 0-3 positional arguments x keyword a present/absent.
    Seed-independent; sharded with ctx.mine."""
    import itertools

    names = ["", "0", "1", "2", "a"]
    suffixes = ["", ".real", "[0]", "!r", ":>4"]
    out = []
    idx = 0
    for n in range(1, 5):
        for seq in itertools.product(names, repeat=n):
            for si in range(len(suffixes) if n <= 2 else 1):
                for npos in range(0, 4):
                    for with_a in (False, True):
                        idx += 1
                        if not ctx.mine(idx):
                            continue
                        fields = ["{" + nm + (suffixes[si] if j == 0 else "") + "}" for j, nm in enumerate(seq)]
                        text = " ".join(fields)
                        arg = "(1, 2)" if suffixes[si] == "[0]" else "3"
                        args = [arg] * npos + (["a=" + arg] if with_a else [])
                        out.append((f"{text!r}.format({', '.join(args)})", "fmt-systematic", text))
    return out


def lint_rule(desc: str):
    for name, rx in LINT_RULES:
        if rx.search(desc):
            return name
    return None


MISSED_MECHS = [
    # (kind, regex on "ExcType: message", mechanism)
    ("percent", r"TypeError: %[oxX] format: an integer is required, not float", "int-conversion-given-float"),
    ("format", r"AttributeError: .* has no attribute|IndexError: .*index out of range|KeyError: |TypeError: .* is not subscriptable|TypeError: .* indices must be integers", "field-path-not-validated"),
    ("format", r"TypeError: unsupported format string passed to|ValueError: Unknown format code|ValueError: Invalid format specifier|ValueError: Precision not allowed|ValueError: Cannot specify|ValueError: Sign not allowed|ValueError: Alternate form|ValueError: Format specifier missing precision|ValueError: Invalid conversion specification", "format-spec-not-validated"),
    ("format", r"ValueError: cannot switch from (automatic|manual) field", "auto-manual-numbering-mix"),
]
SPURIOUS_MECHS = [
    ("percent", r"%[eEfFgG] conversion specifier accepts numbers, not", r"\bFLT\b", "supports-float-object"),
    ("percent", r"%[bs] accepts only bytes, not bytearray|%c requires an integer or character, not bytearray", r"bytearray", "bytearray-for-bytes-conversion"),
    ("percent", r"%c requires an integer in range\(256\)", r"^'|^\"", "%c-range-on-str-template"),
    ("percent", r"%c requires an integer or character, not", r"\bIDX\b", "%c-supports-index-object"),
    ("percent", r"too many arguments to format string: got 1 but expected 0", r".", "escape-only-template-nontuple-arg"),
]


def missed_mechanism(kind: str, src: str, exc) -> str:
    text = f"{type(exc).__name__}: {exc}"
    if kind == "percent" and src.startswith("b") and "%(" in src and "% {" in src:
        return "bytes-template-mapping-keys-never-matched"
    for k, rx, mech in MISSED_MECHS:
        if k == kind and re.search(rx, text):
            return mech
    return f"{type(exc).__name__}|{norm_msg(str(exc))}"


def spurious_mechanism(kind: str, src: str, desc: str) -> str:
    for k, rx, src_rx, mech in SPURIOUS_MECHS:
        if k == kind and re.search(rx, desc) and re.search(src_rx, src):
            return mech
    return norm_msg(desc)


def norm_msg(d: str) -> str:
    d = re.sub(r"Literal\[.*?\]|'[^']*'", "X", d)
    d = re.sub(r"\d+", "#", d)
    return d[:70]


def check_exprs(ctx, exprs, kind: str) -> None:
    """exprs: list of (expr_source, feature)"""
    lines = [PRELUDE, "def holder():"]
    base = PRELUDE.count("\n") + 2
    for i, (src, feat) in enumerate(exprs):
        lines.append(f"    ({src})")
    source = "\n".join(lines) + "\n"
    tree = ast.parse(source)
    res = harness.run(source, tree=tree, annotate=True, keep_module=True, overrides={"use_fstrings": False})
    try:
        if res.exception is not None:
            ctx.violation("harness|exception", f"check raised {res.exception!r}", {"kind": kind, "exprs": [e[0] for e in exprs]})
            return
        by_line = res.by_line()
        ns = res.module.__dict__
        holder = next(n for n in tree.body if isinstance(n, ast.FunctionDef) and n.name == "holder")
        stmts = holder.body
        assert len(stmts) == len(exprs)
        line_of = {i: stmts[i].lineno for i in range(len(exprs))}
        for i, (src, feat) in enumerate(exprs):
            ds = [d for d in by_line.get(line_of[i], []) if d.code in CODES]
            with warnings.catch_warnings():
                warnings.simplefilter("ignore")
                try:
                    value = eval(src, ns)
                    raised = None
                except Exception as e:  # noqa: BLE001
                    raised = e
                    value = None
            ctx.count("evaluations")
            ctx.count(f"{kind}_cases")
            ctx.count("cpython_raised" if raised is not None else "cpython_ok")
            ctx.nontrivial((kind, src))
            ctx.histo("by_feature", f"{kind}:{feat.split(':')[0] if kind == 'percent' else feat}:{'raise' if raised is not None else 'ok'}:{'diag' if ds else 'clean'}")
            wit = {"kind": kind, "expr": src, "feature": feat}
            if raised is not None and not ds:
                etype = type(raised).__name__
                key = f"{kind}|missed|{missed_mechanism(kind, src, raised)}"
                ctx.violation(key, f"{src}: CPython raises {etype}: {raised}; pyanalyze reports nothing", wit)
            elif raised is None and ds:
                non_lint = [d for d in ds if lint_rule(d.description) is None]
                for d in ds:
                    r = lint_rule(d.description)
                    if r:
                        ctx.histo("lint_rules_excused", r)
                if non_lint:
                    key = f"{kind}|spurious|{spurious_mechanism(kind, src, non_lint[0].description)}"
                    ctx.violation(key, f"{src}: CPython gives {value!r}; pyanalyze reports {non_lint[0].short()}", wit)
            if raised is None:
                inferred = getattr(stmts[i].value, "inferred_value", None)
                if inferred is not None:
                    ok = _type_matches(inferred, value)
                    ctx.count("result_type_checked")
                    if ok is False:
                        key = f"{kind}|wrong-type|{type(value).__name__}|{type(inferred).__name__}"
                        ctx.violation(key, f"{src}: result is {type(value).__name__} but inferred {inferred}", wit)
        if len(ctx.samples) < 3:
            ctx.sample({"kind": kind, "expr": exprs[0][0]})
    finally:
        harness.forget_module(res.module)


def _type_matches(inferred, value):
    from pyanalyze.value import AnyValue, KnownValue, TypedValue, AnnotatedValue, MultiValuedValue

    if isinstance(inferred, AnnotatedValue):
        inferred = inferred.value
    if isinstance(inferred, AnyValue):
        return None
    if isinstance(inferred, KnownValue):
        return type(inferred.val) is type(value) and inferred.val == value
    if isinstance(inferred, TypedValue):
        return isinstance(inferred.typ, type) and isinstance(value, inferred.typ)
    if isinstance(inferred, MultiValuedValue):
        rs = [_type_matches(v, value) for v in inferred.vals]
        if any(r is True for r in rs):
            return True
        if any(r is None for r in rs):
            return None
        return False
    return None


def shard(ctx) -> None:
    pct = gen_percent(ctx, ctx.pick(700, 8000))
    exprs = [(f"{t} % {a}", feat) for t, a, feat in pct]
    for i in range(0, len(exprs), BATCH):
        check_exprs(ctx, exprs[i : i + BATCH], "percent")
    fmt = gen_format(ctx, ctx.pick(400, 4000)) + gen_format_systematic(ctx)
    exprs = [(call, feat) for call, feat, _ in fmt]
    for i in range(0, len(exprs), BATCH):
        check_exprs(ctx, exprs[i : i + BATCH], "format")


def replay(witness):
    from vp.core import Ctx

    ctx = Ctx(ID, "quick", 0, 0, 1)
    check_exprs(ctx, [(witness["expr"], witness.get("feature", "x"))], witness["kind"])
    for key, lst in ctx.violations.items():
        return key, lst[0]["what"]
    return None
