"""C18 — configuration layering follows the documented precedence.

Monitor: generated stacks of up to three chained TOML files (extend_config), top-level settings and
[[tool.pyanalyze.overrides]] sections, plus command-line option subsets, are written to a scratch directory and
handed to the real pyanalyze.  What it reports as the effective value of an option for a module path
(Options.from_option_list -> for_module -> get_value_for / is_error_code_enabled; NameCheckVisitor.main() with
--display-options; sampled: `python -m pyanalyze` in a subprocess and the diagnostics of a probe module) is compared
with a small executable reference model of the documented order.  A catalogue of invalid configurations must be
rejected with InvalidConfigOption.  Inclusion graphs (chains, cycles, diamonds over several directories, every hop and
the main path spelled in every way: plain, ./x, ../x, ../dir/x, down-and-up, absolute, through file and directory
symlinks) are judged against a walk of the files on disk with os.path.realpath: recursive -> InvalidConfigOption from
every entry point, not recursive -> loads and layers in walk order.
"""
from __future__ import annotations

import atexit
import contextlib
import copy
import io
import itertools
import json
import os
import re
import shutil
import sys
import tempfile
import types
from pathlib import Path

from vp import harness

from pyanalyze.error_code import ErrorCode  # noqa: E402
from pyanalyze.name_check_visitor import NameCheckVisitor  # noqa: E402
from pyanalyze.options import ConfigOption, InvalidConfigOption, Options, parse_config_file  # noqa: E402

ID = "C18"
LEVEL = "exploration"
TECHNIQUE = "reference-model monitor over generated configuration stacks (differential across API / CLI routes)"
RULE = (
    "case = (stack of 1-3 TOML files chained by extend_config in varying directory layouts, each with a shuffled "
    "top-level section and 0-4 overrides for module prefixes a, a.b, a.b.c, a.bx, d incl. two overrides for one module "
    "and disable_all; a command-line subset incl. --disable-all/--enable-all; a queried module path out of 8; an option "
    "out of 4 error codes, 2 boolean, 2 integer, 2 string-list options, plus every other error code when disable_all "
    "occurs). Non-trivial = at least two layers applicable to the path set the option to different values; distinct by "
    "layering shape (option, path, ordered list of (file, section kind, prefix length, via disable_all), and whether "
    "extend_config precedes the option in each file's top-level table). Invalid catalogue: every class x depth 0-2 x "
    "top-level/override placement x 3 entry points. Inclusion graphs: every shape (chain of 1-4 files whose last file "
    "extends nothing or file j: self-loops, cycles through the main file, cycles entered from a chain; diamond main -> "
    "{top-level extend, override-section extend} -> shared file -> nothing or file j) x 7 directory patterns (one "
    "directory, siblings, two siblings alternating, descending, ascending, cousins, one sub-directory) x 9 spellings used "
    "for every hop (relative, ./, ../<own dir>/, <sub dir>/../, absolute, absolute with .., symlinked file relative and "
    "absolute, symlinked directory), main path plain / with .. / a symlink, extend_config first / between / last in "
    "the table; then graphs with a random spelling per hop over 6 directories. Each file sets an integer, a list, an "
    "error code and (odd files) an override; ground truth = os.path.realpath walk of the written files; distinct by "
    "(kind, files, back edge, hop classes, entry spelling, directory pattern)."
)
LEVEL_TEXT = (
    "every explored (stack, command line, module path, option) was judged by the reference precedence function; list "
    "options as exact sequences; bounded to 3 files / 4 overrides per file / prefix depth 3; inclusion graphs of up to "
    "4 files judged against a realpath walk (hard links, bind mounts, case-insensitive file systems not explored)"
)
ASSUMPTIONS = [
    "reference model (function `layers` + `acceptable`, ~15 lines) encodes docs/configuration.md and the property "
    "statement: command line > main-file overrides (longest matching prefix first) > main-file top level > the same "
    "for each extended file in inclusion order > default; list options concatenate in that order, default last, once",
    "two overrides for the same module in one file setting the same option: either order is accepted (undocumented)",
    "disable_all = true in a section means `code = false` for every error code not set to true in that section; "
    "--disable-all/--enable-all do the same on the command line",
    "default values are read from ConfigOption.registry (the defaults themselves are not under test)",
    "the bulk route builds command-line instances the way prepare_constructor_kwargs does "
    "(option_cls(value, from_command_line=True)); the real assembly is observed through NameCheckVisitor.main() "
    "--display-options in-process for every stack and through `python -m pyanalyze` on a sample",
    "tomli is trusted to parse the generated TOML as written (key order = textual order)",
    "inclusion graphs: an extend_config value is relative to the real directory of the including file and names the "
    "file os.path.realpath gives (POSIX: symlinks resolved before '..'); inclusion is recursive iff the walk reaches a real "
    "path that is on its current stack; a shared file of a diamond is not recursive; for diamonds only the main file's "
    "value and a value set in the shared file alone are judged (the order of the two equally deep branches is "
    "undocumented); extend_config inside an override section is followed like the top-level one (observed behaviour)",
]
FLOORS = {
    "quick": {"distinct_nontrivial": 32000, "evaluations": 290000, "stacks": 1600, "nontrivial_cases": 60000,
              "tie_cases": 5000, "display_values_compared": 17000, "invalid_cases": 700, "invalid_rejected": 550,
              "cli_display_runs": 8, "cli_invalid_runs": 8, "diag_modules_checked": 250, "cli_diag_files": 48,
              "graph_cases": 950, "graph_recursive": 640, "graph_recursive_rejected": 1500,
              "graph_recursive_no_canonical_hop": 390, "graph_not_recursive_loaded": 700, "graph_values_compared": 3100,
              "graph_with_symlink": 570, "graph_cli_runs": 8},
    "thorough": {"distinct_nontrivial": 300000, "evaluations": 8000000, "stacks": 30000, "nontrivial_cases": 2000000,
                 "tie_cases": 150000, "display_values_compared": 1000000, "invalid_cases": 700, "invalid_rejected": 550,
                 "cli_display_runs": 60, "cli_invalid_runs": 50, "diag_modules_checked": 2000, "cli_diag_files": 150,
                 "graph_cases": 7600, "graph_recursive": 4400, "graph_recursive_rejected": 10300,
                 "graph_recursive_no_canonical_hop": 2100, "graph_not_recursive_loaded": 7300, "graph_values_compared": 34000,
                 "graph_with_symlink": 5300, "graph_cli_runs": 32},
}
NSHARDS = 16
WATCHDOG_S = {"quick": 900, "thorough": 7200}

# ---------------------------------------------------------------------------------------------------------------
# the options under test

CODES_ON = ["undefined_name", "duplicate_dict_key"]
CODES_OFF = ["value_always_true", "use_fstrings"]
CODES = CODES_ON + CODES_OFF
BOOLS = ["for_loop_always_entered", "ignore_none_attributes"]
INTS = ["maximum_positional_args", "union_simplification_limit"]
LISTS = ["extra_builtins", "disallowed_imports"]
OPTS = CODES + BOOLS + INTS + LISTS
ALL_CODES = sorted(code.name for code in ErrorCode)
DEFAULTS = {name: ConfigOption.registry[name].default_value for name in set(OPTS) | set(ALL_CODES)}
MODULES = ["a", "a.b", "a.b.c", "a.bx", "d"]
PATHS = [(), ("a",), ("a", "b"), ("a", "b", "c"), ("a", "b", "c", "z"), ("a", "bx"), ("d",), ("e",)]
SHARED = "dup"  # a list element that may occur in several layers (multiplicity must be kept)


def kind_of(opt: str) -> str:
    if opt in BOOLS:
        return "bool"
    if opt in INTS:
        return "int"
    if opt in LISTS:
        return "list"
    return "code"


# ---------------------------------------------------------------------------------------------------------------
# REFERENCE MODEL.  A stack is {"files": [{"path", "top": [[key, value], ...], "tables": bool}, ...]}; the value of
# "overrides" is a list of sections (lists of [key, value] pairs incl. ["module", "a.b"]); cmd is one more section.


def effective(pairs) -> dict:
    """{option: value} contributed by one section; disable_all / enable_all expanded over every error code."""
    d = {k: v for k, v in pairs}
    vals = {k: v for k, v in d.items() if k in DEFAULTS}
    if d.get("disable_all") is True:
        vals.update({c: False for c in ALL_CODES if vals.get(c) is not True})
    if d.get("enable_all") is True:
        vals.update({c: True for c in ALL_CODES if vals.get(c) is not False})
    return vals


class Model:
    def __init__(self, stack: dict, cmd: list):
        self.cmd = effective(cmd)
        self.files = []  # per file: (top values, [(module tuple, values)])
        for f in stack["files"]:
            top = f.get("top", [])
            ovs = [s for k, v in top if k == "overrides" for s in v]
            self.files.append((effective(top), [(tuple(dict(map(tuple, s))["module"].split(".")), effective(s)) for s in ovs]))

    def layers(self, path: tuple, opt: str) -> list:
        """Documented precedence order for `opt` at `path`: a list of tie groups of (layer id, value)."""
        out = []
        if opt in self.cmd:
            out.append([(("cmd",), self.cmd[opt])])
        for fi, (top, ovs) in enumerate(self.files):
            hits = [(len(m), (fi, "ov", oi), v[opt]) for oi, (m, v) in enumerate(ovs) if path[: len(m)] == m and opt in v]
            for n in sorted({h[0] for h in hits}, reverse=True):  # longest matching prefix first
                out.append([(h[1], h[2]) for h in hits if h[0] == n])
            if opt in top:
                out.append([((fi, "top"), top[opt])])
        return out

    def acceptable(self, path: tuple, opt: str) -> list:
        """All results the documentation allows (more than one only for same-module duplicate overrides)."""
        groups = self.layers(path, opt)
        if opt in LISTS:
            seqs = itertools.product(*[itertools.permutations(g) for g in groups])
            return [[x for g in seq for _, v in g for x in v] + list(DEFAULTS[opt]) for seq in seqs]
        return [v for _, v in groups[0]] if groups else [DEFAULTS[opt]]

    # --- helpers for classification only (not part of the oracle) -------------------------------------------
    def all_layers(self, opt: str) -> list:
        out = []
        if opt in self.cmd:
            out.append((("cmd",), self.cmd[opt]))
        for fi, (top, ovs) in enumerate(self.files):
            for oi, (m, v) in enumerate(ovs):
                if opt in v:
                    out.append(((fi, "ov", oi), v[opt]))
            if opt in top:
                out.append(((fi, "top"), top[opt]))
        return out

    def module_of(self, lid) -> tuple:
        return self.files[lid[0]][1][lid[2]][0]

    def applicable(self, lid, path: tuple) -> bool:
        if lid[0] == "cmd" or lid[1] == "top":
            return True
        m = self.module_of(lid)
        return path[: len(m)] == m


def same(a, b) -> bool:
    return type(a) is type(b) and a == b


# ---------------------------------------------------------------------------------------------------------------
# writing stacks to disk


def toml_value(v) -> str:
    if isinstance(v, bool):
        return "true" if v else "false"
    if isinstance(v, (int, float)):
        return repr(v)
    if isinstance(v, str):
        return json.dumps(v)
    if isinstance(v, (list, tuple)):
        return "[" + ", ".join(toml_value(x) for x in v) + "]"
    raise TypeError(v)


def inline_section(pairs) -> str:
    return "{" + ", ".join(f"{k} = {toml_value(v)}" for k, v in pairs) + "}"


def render(f: dict) -> str:
    if "raw" in f:
        return f["raw"]
    top = f.get("top", [])
    lines = ["[tool.pyanalyze]"]
    tail = []
    for i, (k, v) in enumerate(top):
        if k == "overrides":
            if f.get("tables") and i == len(top) - 1 and v:
                for s in v:
                    tail.append("[[tool.pyanalyze.overrides]]")
                    tail.extend(f"{kk} = {toml_value(vv)}" for kk, vv in s)
            else:
                lines.append("overrides = [" + ",\n  ".join(inline_section(s) for s in v) + "]")
        else:
            lines.append(f"{k} = {toml_value(v)}")
    return "\n".join(lines + tail) + "\n"


def wit_files(stack: dict) -> list:
    """Witness form of a stack: the TOML text of each file, in inclusion order."""
    return [{"path": f["path"], "raw": render(f)} for f in stack["files"]]


def stack_from_witness(files: list) -> dict:
    """Rebuild the ordered structure from the TOML text (tomli keeps textual key order)."""
    import tomli

    out = []
    for f in files:
        f = dict(f)
        if "top" not in f:
            data = tomli.loads(f["raw"]).get("tool", {}).get("pyanalyze", {})
            f["top"] = [[k, [[[kk, vv] for kk, vv in s.items()] for s in v] if k == "overrides" else v] for k, v in data.items()]
        out.append(f)
    return {"files": out}


class Scratch:
    def __init__(self, tag: str):
        base = os.environ.get("VERIF_SCRATCH")
        self.own = None
        if not base or not os.path.isdir(base):
            base = self.own = tempfile.mkdtemp(prefix="verif-c18-")
            atexit.register(self.cleanup)
        self.root = os.path.join(base, f"c18-{tag}-{os.getpid()}")
        os.makedirs(self.root, exist_ok=True)
        self.n = 0
        self.free: list = []
        self.made: set = set()

    def materialise(self, stack: dict) -> str:
        """Write the stack into a directory of its own; returns the path of the main file.  Directories are
        recycled (deleting is slow on the scratch file system): files are overwritten, and the names used by the
        'missing file' cases (nope.toml, missing_dir/, absent.toml) are never written by anything."""
        if self.free:
            d = self.free.pop()
        else:
            self.n += 1
            d = os.path.join(self.root, f"s{self.n}")
        for f in stack["files"]:
            p = os.path.join(d, f["path"])
            if os.path.dirname(p) not in self.made:
                os.makedirs(os.path.dirname(p), exist_ok=True)
                self.made.add(os.path.dirname(p))
            # in-place overwrite: open(..., "w") on an existing file costs ~4 ms here (ext4 flushes on
            # replace-via-truncate), O_WRONLY + ftruncate costs ~0.04 ms
            data = render(f).encode("utf-8")
            fd = os.open(p, os.O_WRONLY | os.O_CREAT, 0o644)
            try:
                os.write(fd, data)
                os.ftruncate(fd, len(data))
            finally:
                os.close(fd)
        return os.path.join(d, stack["files"][0]["path"])

    def release(self, main_path: str) -> None:
        d = main_path
        while os.path.dirname(d) != self.root and len(d) > len(self.root):
            d = os.path.dirname(d)
        if os.path.dirname(d) == self.root and d not in self.free:
            self.free.append(d)

    def cleanup(self) -> None:
        global _SCRATCH, _PROJ
        shutil.rmtree(self.root, ignore_errors=True)
        if self.own:
            shutil.rmtree(self.own, ignore_errors=True)
        if _SCRATCH is self:
            _SCRATCH, _PROJ = None, None


_SCRATCH = None
_PROJ = None


def scratch() -> Scratch:
    global _SCRATCH
    if _SCRATCH is None:
        _SCRATCH = Scratch("w")
    return _SCRATCH


# ---------------------------------------------------------------------------------------------------------------
# observing the real pyanalyze


def cmd_instances(cmd: list) -> list:
    """What prepare_constructor_kwargs turns command-line settings into."""
    return [ConfigOption.registry[k](v, from_command_line=True) for k, v in effective(cmd).items()]


def cmd_argv(cmd: list) -> list:
    argv = []
    for k, v in cmd:
        dashed = "--" + k.replace("_", "-")
        if k in ("disable_all", "enable_all"):
            argv.append(dashed)
        elif k in DEFAULTS and kind_of(k) == "code":
            argv += ["--enable" if v else "--disable", k]
        elif k in BOOLS:
            argv.append(dashed if v else "--no-" + dashed[2:])
        elif k in INTS:
            argv.append(f"{dashed}={v}")
        elif k in LISTS:
            argv += [f"{dashed}={x}" for x in v]
    return argv


def observe_api(options: Options, path: tuple, opt: str):
    om = options.for_module(path)
    value = om.get_value_for(ConfigOption.registry[opt])
    if isinstance(value, tuple) and opt in LISTS:
        value = list(value)
    return value


def build_options(main_path: str, cmd: list) -> Options:
    return Options.from_option_list(cmd_instances(cmd), config_file_path=Path(main_path))


_VALUE_RE = re.compile(r"^    (\w+) \(value: (.*)\)$")


def run_main_display(main_path: str, cmd: list):
    """NameCheckVisitor.main() in-process with --display-options: the real command-line assembly.
    Returns (outcome, stdout) where outcome is 'exit:<code>', 'returned:<rc>' or the exception."""
    argv = ["--config-file", main_path, "--display-options", *cmd_argv(cmd)]
    old = sys.argv
    sys.argv = ["pyanalyze", *argv]
    out, err = io.StringIO(), io.StringIO()
    cwd = os.getcwd()
    try:
        os.chdir(os.path.dirname(main_path))  # should main() not exit, its default directory is an empty place
        with contextlib.redirect_stdout(out), contextlib.redirect_stderr(err):
            rc = NameCheckVisitor.main()
        outcome = f"returned:{rc}"
    except SystemExit as e:
        outcome = f"exit:{e.code}"
    except Exception as e:  # noqa: BLE001
        outcome = e
    finally:
        sys.argv = old
        os.chdir(cwd)
    return outcome, out.getvalue()


def parse_display(text: str) -> dict:
    out = {}
    for line in text.splitlines():
        m = _VALUE_RE.match(line)
        if m:
            out[m.group(1)] = m.group(2)
    return out


PROBE_SRC = '''def _f():
    pass


def _probe(x):
    print(undefined_name_probe)
    y = {"k": 1, "k": 2}
    if 1:
        pass
    return "%s" % x, y
'''
PROBE_FILES = {("a",): "a/__init__.py", ("a", "b"): "a/b/__init__.py", ("a", "b", "c"): "a/b/c.py",
               ("a", "bx"): "a/bx.py", ("d",): "d.py", ("e",): "e.py"}


def diag_codes_inprocess(kw: dict, path: tuple) -> set:
    mod = types.ModuleType(".".join(path))
    exec(compile(PROBE_SRC, "<c18 probe>", "exec"), mod.__dict__)
    res = harness.run(PROBE_SRC, kwargs=kw, module=mod, check_attributes=False)
    if res.exception is not None:
        raise res.exception
    return {d.code for d in res.diags}


def constructor_kwargs(main_path, cmd: list) -> dict:
    eff = effective(cmd)
    kwargs: dict = {"settings": {getattr(ErrorCode, k): v for k, v in eff.items() if kind_of(k) == "code"}}
    kwargs.update({k: v for k, v in eff.items() if kind_of(k) != "code"})
    if main_path is not None:
        kwargs["config_file"] = Path(main_path)
    err = io.StringIO()
    with contextlib.redirect_stderr(err):
        return dict(NameCheckVisitor.prepare_constructor_kwargs(kwargs))


# ---------------------------------------------------------------------------------------------------------------
# classification of a mismatch into a mechanism key


def layer_name(model: Model, lid) -> str:
    if lid == "default":
        return "default"
    if lid[0] == "cmd":
        return "command line"
    f = ["main file", "1st extended file", "2nd extended file"][lid[0]]
    if lid[1] == "top":
        return f"{f} top level"
    return f"{f} override for {'.'.join(model.module_of(lid))}"


def relation(model: Model, E, A, path: tuple) -> str:
    """Mechanism class of: layer E should have preceded layer A at `path`, but A came first / won."""
    if A != "default" and A[0] != "cmd" and not model.applicable(A, path):
        m = ".".join(model.module_of(A))
        return "non-matching-override-applied" + ("(string-prefix-of-path)" if ".".join(path).startswith(m) else "")
    e = "default" if E == "default" else "cmdline" if E[0] == "cmd" else "config-file"
    if A == "default":
        return f"{e}-lost-to-default"
    if A[0] == "cmd":
        return f"{e}-lost-to-cmdline"
    if e != "config-file":
        return f"{e}-lost-to-config-file"
    if E[0] != A[0]:
        return "including-file-lost-to-included-file" if E[0] < A[0] else "included-file-lost-to-including-file"
    if E[1] == "ov" and A[1] == "top":
        return "same-file:override-lost-to-top-level"
    if E[1] == "ov" and A[1] == "ov":
        le, la = len(model.module_of(E)), len(model.module_of(A))
        return "same-file:longer-prefix-lost-to-shorter-prefix" if le > la else (
            "same-file:equal-prefix-order" if le == la else "same-file:shorter-prefix-lost-to-longer-prefix")
    return "same-file:top-level-lost-to-override"


def set_in_section(stack: dict, cmd: list, lid, opt: str, value):
    """Copy of (stack, cmd) with `opt` explicitly set to `value` in the section named by lid."""
    stack, cmd = copy.deepcopy(stack), copy.deepcopy(cmd)
    if lid[0] == "cmd":
        sec = cmd
    else:
        top = stack["files"][lid[0]]["top"]
        sec = top if lid[1] == "top" else [s for k, v in top if k == "overrides" for s in v][lid[2]]
    for pair in sec:
        if pair[0] == opt:
            pair[1] = value
            break
    else:
        sec.append([opt, value])
    for f in stack["files"]:
        if "top" in f:
            f.pop("raw", None)  # re-render from the structure
    return stack, cmd


def uniquify(stack: dict, cmd: list):
    """Copy of (stack, cmd) in which every occurrence of the shared list element gets a name of its own."""
    stack, cmd = copy.deepcopy(stack), copy.deepcopy(cmd)
    n = itertools.count(1)

    def fix(sec):
        for pair in sec:
            if pair[0] in LISTS:
                pair[1] = [f"dup{next(n)}" if x == SHARED else x for x in pair[1]]
            elif pair[0] == "overrides":
                for sub in pair[1]:
                    fix(sub)

    fix(cmd)
    for f in stack["files"]:
        if "top" in f:
            fix(f["top"])
            f.pop("raw", None)
    return stack, cmd


def find_winner(model: Model, stack, cmd, path, opt, observed, cands):
    """Differential probe: which candidate layer, when its value is changed, changes what pyanalyze reports?"""
    hits = []
    for lid in cands:
        if lid == "default":
            continue
        old = dict(model.all_layers(opt))[lid]
        new = (not old) if isinstance(old, bool) else 777777
        s2, c2 = set_in_section(stack, cmd, lid, opt, new)
        main = scratch().materialise(s2)
        try:
            got = observe_api(build_options(main, c2), path, opt)
        except Exception:  # noqa: BLE001
            got = observed
        finally:
            scratch().release(main)
        if not same(got, observed):
            hits.append(lid)
    if len(hits) == 1:
        return hits[0]
    if not hits and "default" in cands:
        return "default"
    return None


def judge_scalar(model: Model, stack, cmd, path, opt, observed):
    """-> None if the observed value is allowed, else (key, what)."""
    ok = model.acceptable(path, opt)
    if any(same(observed, v) for v in ok):
        return None
    kind = kind_of(opt)
    groups = model.layers(path, opt)
    E = groups[0][0][0] if groups else "default"
    head = f"{opt} for module {'.'.join(path) or '<top>'}: documented value {ok[0]!r} (from {layer_name(model, E)})"
    if any(observed == v for v in ok):
        return f"precedence|{kind}|wrong-type:{type(observed).__name__}", f"{head}, got {observed!r}"
    tied = {lid for lid, _ in groups[0]} if groups else set()
    cands = [lid for lid, v in model.all_layers(opt) if same(v, observed) and lid not in tied]
    if same(DEFAULTS[opt], observed) and groups:
        cands.append("default")
    if not cands:
        return f"precedence|{kind}|value-from-nowhere:{type(observed).__name__}", f"{head}, got {observed!r}"
    classes = {relation(model, E, c, path) for c in cands}
    if len(classes) == 1:
        A = cands[0]
    else:
        A = find_winner(model, stack, cmd, path, opt, observed, cands)
        if A is None:
            return f"precedence|{kind}|winner-not-identifiable", f"{head}, got {observed!r}"
    return (f"precedence|{kind}|{relation(model, E, A, path)}",
            f"{head}, got {observed!r} (from {layer_name(model, A)})")


def judge_list(model: Model, path, opt, observed) -> list:
    """-> list of (key, what); empty if the observed sequence is allowed."""
    ok = model.acceptable(path, opt)
    if not isinstance(observed, list):
        return [(f"precedence|list|wrong-type:{type(observed).__name__}", f"{opt}: got {observed!r}")]
    if observed in ok:
        return []
    head = f"{opt} for module {'.'.join(path) or '<top>'}: documented sequence {ok[0]!r}, got {observed!r}"
    default = list(DEFAULTS[opt])
    groups = model.layers(path, opt)
    order = {}  # layer id -> rank in the documented order
    for rank, g in enumerate(groups):
        for lid, _ in g:
            order[lid] = rank
    order["default"] = len(groups)
    owner = {}  # unique element -> layer id
    for lid, v in model.all_layers(opt):
        for x in v:
            if x != SHARED:
                owner[x] = lid
    for x in default:
        owner.setdefault(x, "default")
    out = []
    # (1) multiset
    exp = ok[0]
    for x in sorted(set(exp) | set(observed)):
        ne, no = exp.count(x), observed.count(x)
        if ne == no:
            continue
        lid = owner.get(x)
        if x == SHARED:
            cls = "repeated-value-collapsed" if no < ne else "repeated-value-multiplied"
        elif lid is None:
            cls = "unknown-element"
        elif lid == "default":
            cls = "default-repeated" if no > ne else "default-dropped"
        elif not model.applicable(lid, path):
            m = ".".join(model.module_of(lid))
            cls = "non-matching-override-applied" + ("(string-prefix-of-path)" if ".".join(path).startswith(m) else "")
        elif no > ne:
            cls = "layer-repeated"
        else:
            cls = ("cmdline" if lid[0] == "cmd" else "override" if lid[1] == "ov" else "top-level") + "-dropped"
        out.append((f"precedence|list|{cls}", f"{head} ({x!r} occurs {no}x instead of {ne}x)"))
    # (2) relative order of the layers (elements with a unique owner applicable to the path)
    seq = [(x, owner[x]) for x in observed if x in owner and owner[x] in order]
    done = False
    for i in range(len(seq)):
        for j in range(i + 1, len(seq)):
            (xa, A), (xe, E) = seq[i], seq[j]
            if order[E] < order[A]:
                out.append((f"precedence|list|{relation(model, E, A, path)}",
                            f"{head}: {xe!r} ({layer_name(model, E)}) must precede {xa!r} ({layer_name(model, A)})"))
                done = True
                break
            if E == A:
                vals = dict(model.all_layers(opt)).get(E, default)
                if xa in vals and xe in vals and list(vals).index(xe) < list(vals).index(xa):
                    out.append(("precedence|list|order-within-one-layer-changed", head))
                    done = True
                    break
        if done:
            break
    if not out:
        out.append(("precedence|list|sequence-differs-unclassified", head))
    # one report per key
    seen, uniq = set(), []
    for k, w in out:
        if k not in seen:
            seen.add(k)
            uniq.append((k, w))
    return uniq


_NO_VALUE = object()


def judge_query(model, stack, cmd, options, path, opt) -> tuple:
    """Judge one (path, option) query through the API route. -> (observed value, list of (key, what))."""
    try:
        observed = observe_api(options, path, opt)
    except Exception as e:  # noqa: BLE001
        return _NO_VALUE, [(f"api|query-raised|{type(e).__name__}", f"get_value_for({opt}) at {path}: {e!r}")]
    out = []
    if opt in LISTS:
        out += judge_list(model, path, opt, observed)
        if out and isinstance(observed, list) and (SHARED in observed or SHARED in model.acceptable(path, opt)[0]):
            # a repeated element cannot be attributed to a layer: re-observe with every occurrence made unique and,
            # if the mismatch is still there, classify that observation instead
            s2, c2 = uniquify(stack, cmd)
            main = scratch().materialise(s2)
            try:
                again = judge_list(Model(s2, c2), path, opt, observe_api(build_options(main, c2), path, opt))
            except Exception:  # noqa: BLE001
                again = []
            finally:
                scratch().release(main)
            if again:
                out = again
    else:
        r = judge_scalar(model, stack, cmd, path, opt, observed)
        if r:
            out.append(r)
    if opt in ALL_CODES:
        enabled = options.for_module(path).is_error_code_enabled(getattr(ErrorCode, opt))
        if not same(enabled, observed):
            out.append(("api|is_error_code_enabled-differs-from-get_value_for",
                        f"{opt} at {path}: is_error_code_enabled={enabled!r}, get_value_for={observed!r}"))
    return observed, out


def judge_stack_query(stack, cmd, path, opt) -> list:
    """Self-contained (materialises the stack): used by minimisation and replay."""
    model = Model(stack, cmd)
    main = scratch().materialise(stack)
    try:
        try:
            options = build_options(main, cmd)
        except Exception as e:  # noqa: BLE001
            return [(valid_rejected_key(e), f"valid configuration rejected: {e!r}")]
        return judge_query(model, stack, cmd, options, path, opt)[1]
    finally:
        scratch().release(main)


def valid_rejected_key(e: BaseException) -> str:
    msg = re.sub(r"'[^']*'|\"[^\"]*\"|\S*[/.]\S*", "X", str(e))
    msg = re.sub(r"\d+", "#", msg)
    return f"valid-rejected|{type(e).__name__}|{msg[:60]}"


# ---------------------------------------------------------------------------------------------------------------
# witness minimisation: greedy deletion while the same mechanism key keeps being produced


def removals(stack: dict, cmd: list):
    """Yield (stack', cmd') candidates, each with one element removed."""
    for i in range(len(cmd)):
        yield stack, cmd[:i] + cmd[i + 1:]
    files = stack["files"]
    if len(files) > 1:  # drop the last file of the chain
        s = copy.deepcopy(stack)
        s["files"].pop()
        if "top" in s["files"][-1]:
            s["files"][-1]["top"] = [p for p in s["files"][-1]["top"] if p[0] != "extend_config"]
            yield s, cmd
    if len(files) > 1 and all("top" in f for f in files):  # splice out a middle file
        for drop in range(1, len(files) - 1):
            s = copy.deepcopy(stack)
            gone = s["files"].pop(drop)
            prev, nxt = s["files"][drop - 1], s["files"][drop]
            rel = os.path.relpath(nxt["path"], os.path.dirname(prev["path"]) or ".")
            prev["top"] = [[k, rel] if k == "extend_config" else [k, v] for k, v in prev["top"]]
            del gone
            yield s, cmd
    for fi, f in enumerate(files):
        top = f.get("top", [])
        for ki, (k, v) in enumerate(top):
            if k == "extend_config":
                continue
            if k == "overrides":
                for oi in range(len(v)):
                    s = copy.deepcopy(stack)
                    s["files"][fi]["top"][ki][1].pop(oi)
                    yield s, cmd
                    for pi, (pk, _) in enumerate(v[oi]):
                        if pk != "module":
                            s = copy.deepcopy(stack)
                            s["files"][fi]["top"][ki][1][oi].pop(pi)
                            yield s, cmd
                if not v:
                    s = copy.deepcopy(stack)
                    s["files"][fi]["top"].pop(ki)
                    yield s, cmd
            else:
                s = copy.deepcopy(stack)
                s["files"][fi]["top"].pop(ki)
                yield s, cmd


def minimise(stack, cmd, path, opt, key, budget: int = 150):
    progress = True
    while progress and budget > 0:
        progress = False
        for s2, c2 in removals(stack, cmd):
            budget -= 1
            if budget <= 0:
                break
            try:
                keys = {k for k, _ in judge_stack_query(s2, c2, path, opt)}
            except Exception:  # noqa: BLE001
                continue
            if key in keys:
                stack, cmd, progress = s2, c2, True
                break
    # flatten the directory layout if that keeps the key
    flat = copy.deepcopy(stack)
    names = ["pyproject.toml", "base.toml", "common.toml"]
    for i, f in enumerate(flat["files"]):
        f["path"] = names[i]
        if "top" in f:
            f["top"] = [[k, names[i + 1]] if k == "extend_config" else [k, v] for k, v in f["top"]]
        f.pop("tables", None)
    try:
        if key in {k for k, _ in judge_stack_query(flat, cmd, path, opt)}:
            stack = flat
    except Exception:  # noqa: BLE001
        pass
    return stack, cmd


class Reporter:
    """Minimises and records the first few witnesses per key; afterwards only counts."""

    def __init__(self, ctx, per_key: int = 3):
        self.ctx = ctx
        self.per_key = per_key
        self.seen: dict = {}

    def report(self, key: str, what: str, witness: dict, minimisable: bool = False) -> None:
        ctx = self.ctx
        n = self.seen.get(key, 0)
        self.seen[key] = n + 1
        ctx.histo("violations_by_key", key)
        if n >= self.per_key:
            ctx.violation_counts[key] = ctx.violation_counts.get(key, 0) + 1
            return
        witness = dict(witness, key=key)
        if minimisable:
            path = tuple(p for p in witness["path"].split(".") if p)
            st = stack_from_witness(witness["files"])
            for f in st["files"]:
                f.pop("raw")  # re-rendered from the structure while shrinking
            s, c = minimise(st, witness["cmd"], path, witness["opt"], key)
            for k, w in judge_stack_query(s, c, path, witness["opt"]):
                if k == key:
                    what = w
            witness = dict(witness, files=wit_files(s), cmd=c)
            ctx.count("witnesses_minimised")
        ctx.violation(key, what, witness)


# ---------------------------------------------------------------------------------------------------------------
# generation of valid stacks

LAYOUTS = [
    ["pyproject.toml", "base.toml", "common.toml"],
    ["pyproject.toml", "cfg/base.toml", "cfg/deep/common.toml"],
    ["proj/pyproject.toml", "base.toml", "shared/common.toml"],
    ["pyproject.toml", "x/base.toml", "pyproject2.toml"],
]


class Gen:
    def __init__(self, rng):
        self.rng = rng
        self.n = 0

    def fresh(self) -> int:
        self.n += 1
        return self.n

    def value(self, opt: str):
        rng = self.rng
        k = kind_of(opt)
        if k in ("bool", "code"):
            return rng.random() < 0.5
        if k == "int":
            return 0 if rng.random() < 0.08 else 1000 + self.fresh()
        vals = [f"v{self.fresh()}" for _ in range(rng.choice([0, 1, 1, 2]))]
        if rng.random() < 0.12:
            vals.insert(rng.randrange(len(vals) + 1), SHARED)
        return vals

    def section(self, focus, p_focus: float, p_rest: float, p_disable: float) -> list:
        rng = self.rng
        pairs = [[o, self.value(o)] for o in OPTS if rng.random() < (p_focus if o in focus else p_rest)]
        if rng.random() < p_disable:
            pairs.append(["disable_all", rng.random() < 0.8])
        rng.shuffle(pairs)
        return pairs

    def stack(self):
        rng = self.rng
        self.n = 0
        nfiles = rng.choice([1, 2, 2, 3, 3, 3])
        layout = rng.choice(LAYOUTS)
        focus = rng.sample(OPTS, rng.choice([2, 3, 4]))
        p_focus, p_rest = rng.choice([(0.7, 0.08), (0.5, 0.2), (0.9, 0.0), (0.35, 0.35)])
        p_disable = rng.choice([0.0, 0.1, 0.3])
        files = []
        for fi in range(nfiles):
            top = self.section(focus, p_focus, p_rest, p_disable)
            if fi + 1 < nfiles:
                rel = os.path.relpath(layout[fi + 1], os.path.dirname(layout[fi]) or ".")
                if rng.random() < 0.2 and not rel.startswith(".."):
                    rel = "./" + rel
                top.insert(rng.randrange(len(top) + 1), ["extend_config", rel])
            novs = rng.choice([0, 1, 1, 2, 2, 3])
            if novs or rng.random() < 0.1:
                mods = [rng.choice(MODULES) for _ in range(novs)]
                if mods and rng.random() < 0.2:
                    mods.append(rng.choice(mods))  # two overrides for the same module
                secs = []
                for m in mods:
                    sec = self.section(focus, p_focus, p_rest, p_disable * 0.7)
                    sec.insert(rng.randrange(len(sec) + 1) if rng.random() < 0.3 else 0, ["module", m])
                    secs.append(sec)
                top.insert(rng.randrange(len(top) + 1), ["overrides", secs])
            files.append({"path": layout[fi], "top": top, "tables": rng.random() < 0.6})
        return {"files": files}, focus

    def cmd(self, focus) -> list:
        rng = self.rng
        p_focus, p_rest = rng.choice([(0.6, 0.1), (0.3, 0.3), (1.0, 0.0)])
        out = []
        for o in OPTS:
            if rng.random() < (p_focus if o in focus else p_rest):
                v = self.value(o)
                if o in LISTS:
                    v = [x for x in v if x] or [f"v{self.fresh()}"]
                out.append([o, v])
        r = rng.random()
        if r < 0.08:
            out.append(["disable_all", True])
        elif r < 0.12:
            out.append(["enable_all", True])
        rng.shuffle(out)
        return out


EDGE_STACKS = [
    {"files": [{"path": "pyproject.toml", "raw": ""}]},
    {"files": [{"path": "pyproject.toml", "raw": "[tool.other]\nx = 1\n"}]},
    {"files": [{"path": "pyproject.toml", "top": []}]},
    {"files": [{"path": "pyproject.toml", "top": [["overrides", []]]}]},
    {"files": [{"path": "pyproject.toml", "top": [["disable_all", False]]}]},
    {"files": [{"path": "pyproject.toml", "top": [["overrides", [[["module", "a.b"]]]]], "tables": True}]},
    {"files": [{"path": "pyproject.toml", "top": [["extend_config", "base.toml"]]}, {"path": "base.toml", "raw": ""}]},
    {"files": [{"path": "pyproject.toml", "top": [["extra_builtins", []], ["extend_config", "base.toml"]]},
               {"path": "base.toml", "top": [["extra_builtins", ["v1"]], ["maximum_positional_args", 0]]}]},
    {"files": [{"path": "pyproject.toml", "top": [["disable_all", True], ["undefined_name", True],
                                                  ["overrides", [[["module", "a"], ["disable_all", True]]]]]}]},
]


# ---------------------------------------------------------------------------------------------------------------
# checking one stack through every route


def shape_of(model: Model, stack: dict, path, opt, groups) -> tuple:
    lay = []
    for g in groups:
        for lid, _ in g:
            if lid[0] == "cmd":
                lay.append("cmd")
            else:
                sec = stack["files"][lid[0]]["top"] if lid[1] == "top" else None
                if sec is None:
                    ovs = [s for k, v in stack["files"][lid[0]]["top"] if k == "overrides" for s in v]
                    sec = ovs[lid[2]]
                explicit = any(k == opt for k, _ in sec)
                n = 0 if lid[1] == "top" else len(model.module_of(lid))
                lay.append(f"f{lid[0]}.{lid[1]}{n}{'' if explicit else '*'}")
    bits = []
    for f in stack["files"]:
        keys = [k for k, _ in f.get("top", [])]
        if "extend_config" in keys:
            e = keys.index("extend_config")
            o = keys.index(opt) if opt in keys else (keys.index("disable_all") if "disable_all" in keys else None)
            v = keys.index("overrides") if "overrides" in keys else None
            bits.append((None if o is None else e < o, None if v is None else e < v))
    return (opt, ".".join(path), tuple(lay), tuple(bits))


def check_stack(ctx, rep: Reporter, stack: dict, cmds: list, sample: dict) -> None:
    work = scratch()
    main = work.materialise(stack)
    ctx.count("stacks")
    ctx.histo("files_per_stack", str(len(stack["files"])))
    try:
        for ci, cmd in enumerate(cmds):
            last = ci == len(cmds) - 1
            ctx.count("stack_cmd_pairs")
            model = Model(stack, cmd)
            wit0 = {"route": "api", "files": wit_files(stack), "cmd": cmd}
            try:
                options = build_options(main, cmd)
            except Exception as e:  # noqa: BLE001
                ctx.count("evaluations")
                rep.report(valid_rejected_key(e), f"valid configuration rejected: {e!r}", dict(wit0, path="", opt=OPTS[0]))
                continue
            sweep = any(k in ("disable_all", "enable_all") for k, _ in cmd) or any(
                k == "disable_all" for f in stack["files"] for k, _ in f.get("top", [])) or any(
                k == "disable_all" for f in stack["files"] for kk, v in f.get("top", []) if kk == "overrides"
                for s in v for k, _ in s)
            sweep_path = ctx.rng.choice(PATHS) if sweep else None
            others = [c for c in ALL_CODES if c not in CODES]
            if sweep:
                others = ctx.rng.sample(others, ctx.pick(16, 40))
            api_values = {}
            for path in PATHS:
                opts = OPTS if path != sweep_path else OPTS + others
                for opt in opts:
                    ctx.count("evaluations")
                    ctx.count("api_queries")
                    kind = kind_of(opt)
                    groups = model.layers(path, opt)
                    nl = sum(len(g) for g in groups)
                    if opt in OPTS:
                        ctx.histo("layers_applicable", f"{kind}:{min(nl, 6)}")
                        first = groups[0][0][0] if groups else "default"
                        ctx.histo("deciding_layer", f"{kind}:" + ("default" if first == "default" else "cmd" if first[0] == "cmd"
                                  else f"file{first[0]}.{first[1]}" + (str(len(model.module_of(first))) if first[1] == "ov" else "")))
                    else:
                        ctx.count("other_code_queries")
                    vals = [json.dumps(v) for g in groups for _, v in g]
                    if len(set(vals)) >= 2:
                        ctx.count("nontrivial_cases")
                        ctx.nontrivial(shape_of(model, stack, path, opt, groups))
                    if any(len(g) > 1 for g in groups):
                        ctx.count("tie_cases")
                    observed, res = judge_query(model, stack, cmd, options, path, opt)
                    if observed is not _NO_VALUE:
                        api_values[(path, opt)] = observed
                    for key, what in res:
                        rep.report(key, what, dict(wit0, path=".".join(path), opt=opt), minimisable=True)
            if len(ctx.samples) < 2 and len(stack["files"]) > 1 and cmd:
                ctx.sample({"files": {f["path"]: render(f) for f in stack["files"]}, "argv": cmd_argv(cmd),
                            "documented": {".".join(p) or "<top>": {o: model.acceptable(p, o)[0] for o in OPTS} for p in PATHS[:3]}})
            # --- route: the real command-line assembly, in-process -------------------------------------------
            if sample.get("display", True) and (last or not ctx.quick):
                outcome, text = run_main_display(main, cmd)
                ctx.count("display_runs")
                if outcome != "exit:0":
                    ctx.count("evaluations")
                    rep.report(f"route|main-display|{outcome if isinstance(outcome, str) else type(outcome).__name__}",
                               f"main() --display-options on a valid stack: {outcome!r}", dict(wit0, route="display"))
                else:
                    shown = parse_display(text)
                    for opt in OPTS + (others if sweep else []):
                        if ((), opt) not in api_values:
                            continue
                        ctx.count("evaluations")
                        ctx.count("display_values_compared")
                        want = str(api_values[((), opt)])
                        if shown.get(opt) != want:
                            rep.report(f"route|main-display|differs-from-api|{kind_of(opt)}",
                                       f"{opt}: --display-options shows {shown.get(opt)!r}, API gives {want!r} for argv {cmd_argv(cmd)}",
                                       dict(wit0, route="display", opt=opt))
                    if last and sample.get("cli_display"):
                        cp = harness.run_cli(["--config-file", main, "--display-options", *cmd_argv(cmd)],
                                             cwd=os.path.dirname(main), env={"NO_COLOR": "1"})
                        ctx.count("evaluations")
                        ctx.count("cli_display_runs")
                        theirs = parse_display(cp.stdout)
                        names = [o for o in list(OPTS) + ALL_CODES if o in shown or o in theirs]
                        ctx.count("cli_display_values_compared", len(names))
                        diff = [(o, theirs.get(o), shown.get(o)) for o in names if theirs.get(o) != shown.get(o)]
                        if cp.returncode != 0 or diff or len(names) < len(OPTS):
                            rep.report("route|cli-subprocess|display-differs-from-in-process-main",
                                       f"python -m pyanalyze --display-options rc={cp.returncode}; (option, subprocess, in-process): "
                                       f"{diff[:3]!r}; stderr tail {cp.stderr[-200:]!r}",
                                       dict(wit0, route="cli-display"))
            # --- route: diagnostics of a probe module ------------------------------------------------------
            if last and sample.get("diag"):
                check_diag_inprocess(ctx, rep, main, cmd, api_values, wit0)
            if last and sample.get("cli_diag"):
                check_diag_cli(ctx, rep, main, cmd, api_values, wit0)
    finally:
        work.release(main)


_DIAG_SELFTEST = None


def diag_selftest(ctx) -> bool:
    """The probe source must produce exactly the four codes when enabled and none when disabled."""
    global _DIAG_SELFTEST
    if _DIAG_SELFTEST is None:
        try:
            on = diag_codes_inprocess(constructor_kwargs(None, [[c, True] for c in CODES]), ("e",))
            off = diag_codes_inprocess(constructor_kwargs(None, [[c, False] for c in CODES]), ("e",))
            _DIAG_SELFTEST = set(CODES) <= on and not (set(CODES) & off)
            if not _DIAG_SELFTEST:
                ctx.note(f"diag self-test failed: enabled -> {sorted(on)}, disabled -> {sorted(off)}")
        except Exception as e:  # noqa: BLE001
            ctx.note(f"diag self-test raised {e!r}")
            _DIAG_SELFTEST = False
    return _DIAG_SELFTEST


def check_diag_inprocess(ctx, rep, main, cmd, api_values, wit0) -> None:
    if not diag_selftest(ctx):
        ctx.count("diag_selftest_failed")
        return
    try:
        kw = constructor_kwargs(main, cmd)
    except Exception as e:  # noqa: BLE001
        ctx.count("evaluations")
        rep.report(f"route|diagnostics|prepare_constructor_kwargs-raised|{type(e).__name__}", repr(e), dict(wit0, route="diag"))
        return
    for path in PATHS[1:]:
        try:
            seen = diag_codes_inprocess(kw, path)
        except Exception as e:  # noqa: BLE001
            ctx.count("evaluations")
            rep.report(f"route|diagnostics|check-raised|{type(e).__name__}", repr(e), dict(wit0, route="diag", path=".".join(path)))
            continue
        ctx.count("diag_modules_checked")
        for code in CODES:
            if (path, code) not in api_values:
                continue
            ctx.count("evaluations")
            ctx.count("diag_codes_compared")
            ctx.histo("diag_outcomes", f"{code}:{'reported' if code in seen else 'silent'}")
            if (code in seen) != api_values[(path, code)]:
                rep.report("route|diagnostics|differs-from-api|code",
                           f"module {'.'.join(path)}: {code} {'reported' if code in seen else 'not reported'} although "
                           f"is_error_code_enabled is {api_values[(path, code)]}",
                           dict(wit0, route="diag", path=".".join(path), opt=code))


def probe_project() -> str:
    global _PROJ
    if _PROJ is None:
        _PROJ = os.path.join(scratch().root, "proj")
        for rel in PROBE_FILES.values():
            p = os.path.join(_PROJ, rel)
            os.makedirs(os.path.dirname(p), exist_ok=True)
            with open(p, "w") as f:
                f.write(PROBE_SRC)
    return _PROJ


def check_diag_cli(ctx, rep, main, cmd, api_values, wit0) -> None:
    proj = probe_project()
    out = os.path.join(os.path.dirname(main), "c18-failures.json")
    cp = harness.run_cli(["--config-file", main, "--json-output", out, *cmd_argv(cmd), "a", "d.py", "e.py"],
                         cwd=proj, env={"NO_COLOR": "1"})
    ctx.count("cli_diag_runs")
    failures = []
    if os.path.exists(out):
        with open(out) as f:
            failures = json.load(f)
        os.unlink(out)
    elif cp.returncode != 0:
        ctx.count("evaluations")
        rep.report("route|cli-subprocess|diagnostics-run-failed",
                   f"rc={cp.returncode} without a JSON report; stderr tail {cp.stderr[-300:]!r}", dict(wit0, route="cli-diag"))
        return
    by_file: dict = {}
    for fl in failures:
        by_file.setdefault(os.path.relpath(os.path.join(proj, fl["filename"]), proj), set()).add(fl["code"])
    for path, rel in PROBE_FILES.items():
        seen = by_file.get(rel, set())
        ctx.count("cli_diag_files")
        if "import_failed" in seen:
            ctx.count("cli_diag_import_failed")
            continue
        for code in CODES:
            if (path, code) not in api_values:
                continue
            ctx.count("evaluations")
            ctx.count("cli_diag_codes_compared")
            if (code in seen) != api_values[(path, code)]:
                rep.report("route|cli-subprocess|diagnostics-differ-from-api|code",
                           f"{rel}: {code} {'reported' if code in seen else 'not reported'} by python -m pyanalyze although "
                           f"is_error_code_enabled({'.'.join(path)}) is {api_values[(path, code)]}",
                           dict(wit0, route="cli-diag", path=".".join(path), opt=code))


# ---------------------------------------------------------------------------------------------------------------
# invalid-configuration catalogue

BOTH = ("top", "override")
INVALID = [
    # (class, placements, fragment)
    ("unknown-key", BOTH, "no_such_option = 1"),
    ("unknown-key", BOTH, "undefined_nam = true"),
    ("unknown-key", BOTH, "Maximum_positional_args = 3"),
    ("unknown-key", BOTH, 'extends_config = "x.toml"'),
    ("wrong-type|int-option<-bool", BOTH, "maximum_positional_args = true"),
    ("wrong-type|int-option<-bool", BOTH, "union_simplification_limit = false"),
    ("wrong-type|int-option<-str", BOTH, 'maximum_positional_args = "5"'),
    ("wrong-type|int-option<-float", BOTH, "maximum_positional_args = 5.0"),
    ("wrong-type|int-option<-list", BOTH, "union_simplification_limit = [5]"),
    ("wrong-type|bool-option<-int", BOTH, "for_loop_always_entered = 1"),
    ("wrong-type|bool-option<-int", BOTH, "ignore_none_attributes = 0"),
    ("wrong-type|bool-option<-str", BOTH, 'for_loop_always_entered = "true"'),
    ("wrong-type|bool-option<-list", BOTH, "ignore_none_attributes = [true]"),
    ("wrong-type|code<-int", BOTH, "undefined_name = 0"),
    ("wrong-type|code<-int", BOTH, "value_always_true = 1"),
    ("wrong-type|code<-str", BOTH, 'undefined_name = "false"'),
    ("wrong-type|code<-list", BOTH, "use_fstrings = []"),
    ("wrong-type|list-option<-str", BOTH, 'extra_builtins = "x"'),
    ("wrong-type|list-option<-int", BOTH, "disallowed_imports = 1"),
    ("wrong-type|list-option<-bool", BOTH, "extra_builtins = true"),
    ("wrong-type|list-option<-list-of-nonstr", BOTH, "extra_builtins = [1]"),
    ("wrong-type|list-option<-list-of-nonstr", BOTH, 'disallowed_imports = ["x", 1]'),
    ("wrong-type|list-option<-list-of-nonstr", BOTH, 'extra_builtins = [["x"]]'),
    ("wrong-type|disable_all", BOTH, 'disable_all = "yes"'),
    ("wrong-type|disable_all", BOTH, 'disable_all = "false"'),
    ("wrong-type|disable_all", BOTH, 'disable_all = ""'),
    ("wrong-type|disable_all", BOTH, "disable_all = 1"),
    ("wrong-type|disable_all", BOTH, "disable_all = 0"),
    ("wrong-type|disable_all", BOTH, "disable_all = []"),
    ("wrong-type|disable_all", BOTH, "disable_all = 1.5"),
    ("module-at-top-level", ("top",), 'module = "a"'),
    ("module-at-top-level", ("top",), "module = 1"),
    ("nested-overrides", ("override",), 'overrides = [{module = "a.b.c", undefined_name = false}]'),
    ("nested-overrides", ("override",), "overrides = []"),
    ("overrides-not-list", ("top",), 'overrides = "a"'),
    ("overrides-not-list", ("top",), "overrides = 1"),
    ("overrides-not-list", ("top",), "overrides = true"),
    ("overrides-not-list", ("top",), 'overrides = {module = "a", undefined_name = false}'),
    ("override-not-table", ("top",), "overrides = [1]"),
    ("override-not-table", ("top",), 'overrides = ["a"]'),
    ("override-not-table", ("top",), 'overrides = [{module = "a"}, []]'),
    ("override-missing-module", ("top",), "overrides = [{undefined_name = false}]"),
    ("override-missing-module", ("top",), "overrides = [{}]"),
    ("override-missing-module", ("top",), 'overrides = [{module = "a"}, {modul = "b"}]'),
    ("override-module-not-str", ("top",), "overrides = [{module = 1}]"),
    ("override-module-not-str", ("top",), 'overrides = [{module = ["a"]}]'),
    ("override-module-not-str", ("top",), "overrides = [{module = true}]"),
    ("extend_config-not-str", ("top",), "extend_config = 1"),
    ("extend_config-not-str", ("top",), 'extend_config = ["other.toml"]'),
    ("extend_config-not-str", ("top",), "extend_config = true"),
    ("extended-file-missing", ("top",), 'extend_config = "nope.toml"'),
    ("extended-file-missing", ("top",), 'extend_config = "missing_dir/pyproject.toml"'),
]
NAMES = ["pyproject.toml", "base.toml", "common.toml"]
NEUTRAL = "comprehension_length_inference_limit = 30"  # a valid key no fragment uses


def invalid_cases():
    """Yield (class, description, files)."""
    for cls, places, frag in INVALID:
        for place in places:
            for depth in (0, 1, 2):
                for variant in (0, 1):
                    files = []
                    for i in range(depth):
                        lines = [f'extend_config = "{NAMES[i + 1]}"', f"maximum_positional_args = {20 + i}"]
                        if variant:
                            lines.reverse()
                        files.append({"path": NAMES[i], "raw": "[tool.pyanalyze]\n" + "\n".join(lines) + "\n"})
                    if place == "top":
                        body = [NEUTRAL, frag] if variant else [frag, NEUTRAL]
                        raw = "[tool.pyanalyze]\n" + "\n".join(body) + "\n"
                    else:
                        body = ['module = "a.b"', NEUTRAL, frag] if variant else [frag, 'module = "a.b"']
                        raw = "[tool.pyanalyze]\nundefined_name = true\n[[tool.pyanalyze.overrides]]\n" + "\n".join(body) + "\n"
                    files.append({"path": NAMES[depth], "raw": raw})
                    yield cls, f"{frag!r} in {place} of file at depth {depth}", files

    def chain(*targets):
        return [{"path": NAMES[i], "raw": f'[tool.pyanalyze]\nmaximum_positional_args = {30 + i}\nextend_config = "{t}"\n'}
                for i, t in enumerate(targets)]

    for desc, files in [
        ("cycle of length 1 (file extends itself)", chain("pyproject.toml")),
        ("cycle of length 1 spelled ./", chain("./pyproject.toml")),
        ("cycle of length 1 below the main file", chain("base.toml", "base.toml")),
        ("cycle of length 2", chain("base.toml", "pyproject.toml")),
        ("cycle of length 2 spelled via ..", [{"path": "pyproject.toml", "raw": '[tool.pyanalyze]\nextend_config = "sub/base.toml"\n'},
                                                {"path": "sub/base.toml", "raw": '[tool.pyanalyze]\nextend_config = "../pyproject.toml"\n'}]),
        ("cycle of length 2 below the main file", chain("base.toml", "common.toml", "base.toml")),
        ("cycle of length 3", chain("base.toml", "common.toml", "pyproject.toml")),
        ("cycle of length 3, extend_config first", [
            {"path": NAMES[i], "raw": f'[tool.pyanalyze]\nextend_config = "{NAMES[(i + 1) % 3]}"\nundefined_name = false\n'} for i in range(3)]),
    ]:
        yield "recursive-inclusion", desc, files
    yield "main-file-missing", "main config file does not exist", [{"path": "pyproject.toml", "raw": ""}]


def invalid_outcome(main: str, entry: str):
    """-> 'rejected' | 'accepted' | exception type name"""
    try:
        if entry == "parse_config_file":
            list(parse_config_file(Path(main)))
        elif entry == "from_option_list":
            Options.from_option_list([], config_file_path=Path(main))
        else:
            outcome, _ = run_main_display(main, [])
            if isinstance(outcome, BaseException):
                raise outcome
            if outcome != "exit:0":
                return f"main-{outcome}"
    except InvalidConfigOption:
        return "rejected"
    except RecursionError:
        return "RecursionError"
    except Exception as e:  # noqa: BLE001
        return type(e).__name__
    return "accepted"


def judge_invalid(cls: str, files: list, entry: str):
    work = scratch()
    main = work.materialise({"files": files})
    if cls == "main-file-missing":
        main = os.path.join(os.path.dirname(main), "absent.toml")
    try:
        got = invalid_outcome(main, entry)
    finally:
        work.release(main)
    if got == "rejected":
        return None
    if got == "accepted":
        return f"invalid-accepted|{cls}", "accepted without InvalidConfigOption"
    return f"invalid-wrong-exception|{cls}|{got}", f"raised {got} instead of InvalidConfigOption"


ENTRIES = ["parse_config_file", "from_option_list", "main"]


def run_invalid(ctx, rep: Reporter) -> None:
    for i, (cls, desc, files) in enumerate(invalid_cases()):
        if not ctx.mine(i):
            continue
        for entry in ENTRIES:
            ctx.count("evaluations")
            ctx.count("invalid_cases")
            res = judge_invalid(cls, files, entry)
            ctx.histo("invalid_by_class", f"{cls}:{'rejected' if res is None else res[0].split('|')[0]}")
            ctx.nontrivial(("invalid", cls, desc, entry))
            if res is None:
                ctx.count("invalid_rejected")
            else:
                rep.report(res[0], f"{desc} via {entry}: {res[1]}",
                           {"route": "invalid", "cls": cls, "entry": entry, "files": files, "desc": desc})
        if i % (ctx.nshards * ctx.pick(24, 4)) == ctx.shard:  # the same through a real subprocess, sampled
            check_invalid_cli(ctx, rep, cls, desc, files)


def check_invalid_cli(ctx, rep, cls, desc, files) -> None:
    work = scratch()
    main = work.materialise({"files": files})
    if cls == "main-file-missing":
        main = os.path.join(os.path.dirname(main), "absent.toml")
    try:
        inproc = invalid_outcome(main, "main")
        cp = harness.run_cli(["--config-file", main, "--display-options"], cwd=os.path.dirname(main), env={"NO_COLOR": "1"})
    finally:
        work.release(main)
    ctx.count("evaluations")
    ctx.count("cli_invalid_runs")
    sub = "accepted" if cp.returncode == 0 else ("rejected" if "InvalidConfigOption" in cp.stderr else "other-failure")
    if sub != (inproc if inproc in ("accepted", "rejected") else "other-failure"):
        rep.report("route|cli-subprocess|invalid-config-outcome-differs",
                   f"{desc}: subprocess {sub} (rc={cp.returncode}), in-process main() {inproc}",
                   {"route": "cli-invalid", "cls": cls, "files": files, "desc": desc})


# ---------------------------------------------------------------------------------------------------------------
# inclusion graphs: chains, cycles ("rho" shapes incl. self-loops) and diamonds of 1-4 files over 1-4 directories, every
# hop and the entry path spelled in every way a path can be spelled.  Reference: a walk of the files on disk with
# os.path.realpath (never pyanalyze's own path handling): recursive iff a real path is reached again while it is on the
# walk's stack.  Recursive -> InvalidConfigOption from every entry point; not recursive -> loads, and the options layer
# per the reference model with the files in walk order.

ROOT = "{ROOT}"
DIR_PATTERNS = {
    "one-dir": ["", "", "", ""],
    "one-subdir": ["conf", "conf", "conf", "conf"],
    "siblings": ["ta", "tb", "tc", "td"],
    "two-siblings": ["ta", "tb", "ta", "tb"],
    "descending": ["", "sub", "sub/deep", "sub/deep/er"],
    "ascending": ["p/q/r", "p/q", "p", ""],
    "cousins": ["x/a", "y/b", "x/c", "y/d"],
}
SPELLINGS = ["rel", "dot", "via-own-dir", "via-subdir", "absolute", "absolute-dotdot", "symlink-file",
             "symlink-file-absolute", "symlink-dir"]
ENTRY_SPELLINGS = ["plain", "dotdot", "symlink"]
GRAPH_PATHS = [(), ("a", "b"), ("d",)]
GRAPH_OPTS = ["maximum_positional_args", "union_simplification_limit", "extra_builtins", "undefined_name"]


def _j(*parts) -> str:
    return "/".join(p for p in parts if p)


def spell_hop(kind: str, src: str, dst: str, k: int, links: list, mkdirs: list) -> str:
    """The extend_config value by which the file `src` names the file `dst` (both relative to the graph's root)."""
    sd = os.path.dirname(src)
    rel = os.path.relpath(dst, sd or ".")
    if kind == "dot":
        return "./" + rel
    if kind == "via-own-dir" and sd:
        return f"../{os.path.basename(sd)}/{rel}"
    if kind == "via-subdir":
        mkdirs.append(_j(sd, "_d"))
        return "_d/../" + rel
    if kind == "absolute":
        return _j(ROOT, dst)
    if kind == "absolute-dotdot":
        mkdirs.append(_j(sd, "_d"))
        return _j(ROOT, sd, "_d", "..", rel)
    if kind == "symlink-file":
        links.append([_j(sd, f"ln{k}.toml"), rel])
        return f"ln{k}.toml"
    if kind == "symlink-file-absolute":
        links.append([_j(sd, f"ln{k}.toml"), _j(ROOT, dst)])
        return f"ln{k}.toml"
    if kind == "symlink-dir":
        links.append([_j(sd, f"lnd{k}"), os.path.dirname(rel) or "."])
        return f"lnd{k}/{os.path.basename(dst)}"
    return rel


def graph_top(i: int, n: int, variant: int) -> list:
    pairs = []
    if i != 1:
        pairs.append(["maximum_positional_args", 100 + i])
    pairs.append(["extra_builtins", [f"g{i}"]])
    if (i + variant) % 2 == 0:
        pairs.append(["undefined_name", bool((i + variant // 2) % 2)])
    if i == n - 1:
        pairs.append(["union_simplification_limit", 200 + i])
    return pairs


def build_graph(spec: dict) -> dict:
    """spec: n (files), back (index the last file extends, or None), dirs (list of directories), spell (one kind per
    hop), entry (spelling of the main path), variant, diamond.  -> witness: files/links/mkdirs/entry (+ spec)."""
    n, back, variant = spec["n"], spec.get("back"), spec.get("variant", 0)
    dirs = spec["dirs"][:n]
    paths = [_j(d, "pyproject.toml" if dirs.count(d) == 1 else f"c{i}.toml") for i, d in enumerate(dirs)]
    links: list = []
    mkdirs: list = []
    spell = spec["spell"]
    hop = itertools.count()

    def value(src_i, dst_i):
        k = next(hop)
        return spell_hop(spell[k % len(spell)], paths[src_i], paths[dst_i], k, links, mkdirs)

    files = []
    for i in range(n):
        top = graph_top(i, n, variant)
        overrides = [[["module", "a.b"], ["maximum_positional_args", 300 + i], ["extra_builtins", [f"o{i}"]]]] if i % 2 == 1 else []
        targets = []
        if spec.get("diamond"):          # 0 -> 1 (top level) and 0 -> 2 (from an override section); 1 -> 3; 2 -> 3; 3 -> back
            if i == 0:
                targets = [1]
                overrides = [[["module", "a.b"], ["extend_config", value(0, 2)]]]
            elif i in (1, 2):
                targets = [3]
            elif back is not None:
                targets = [back]
        elif i + 1 < n:
            targets = [i + 1]
        elif back is not None:
            targets = [back]
        for t in targets:
            top.insert((i + variant) % (len(top) + 1), ["extend_config", value(i, t)])
        if overrides:
            top.insert((i + variant // 2) % (len(top) + 1), ["overrides", overrides])
        files.append({"path": paths[i], "raw": render({"top": top, "tables": False})})
    d0, name0 = os.path.dirname(paths[0]), os.path.basename(paths[0])
    if spec.get("entry") == "dotdot":
        if d0:
            entry = _j(ROOT, d0, "..", os.path.basename(d0), name0)
        else:
            mkdirs.append("_d")
            entry = _j(ROOT, "_d", "..", name0)
    elif spec.get("entry") == "symlink":
        links.append(["entry_ln.toml", paths[0]])
        entry = _j(ROOT, "entry_ln.toml")
    else:
        entry = _j(ROOT, paths[0])
    return {"route": "graph", "files": files, "links": links, "mkdirs": sorted(set(mkdirs)), "entry": entry, "spec": spec}


_GRAPH_N = itertools.count()


def materialise_graph(wit: dict) -> str:
    """Writes the graph into a fresh directory; returns that directory (the value of {ROOT})."""
    root = os.path.join(scratch().root, f"g{next(_GRAPH_N)}")
    os.makedirs(root)
    for d in wit.get("mkdirs", []):
        os.makedirs(os.path.join(root, d), exist_ok=True)
    for f in wit["files"]:
        p = os.path.join(root, f["path"])
        os.makedirs(os.path.dirname(p), exist_ok=True)
        with open(p, "w") as fh:
            fh.write(f["raw"].replace(ROOT, root))
    for link, target in wit.get("links", []):
        p = os.path.join(root, link)
        os.makedirs(os.path.dirname(p), exist_ok=True)
        os.symlink(target.replace(ROOT, root), p)
    return root


def reference_walk(entry: str):
    """Independent ground truth, read from the files on disk.  -> (recursive?, [real paths in inclusion order],
    [(real path of the including file, extend_config value, real path of the target)])."""
    import tomli

    order, hops = [], []

    def visit(p: str, active: frozenset) -> bool:
        real = os.path.realpath(p)
        if real in active:
            return True
        order.append(real)
        with open(real, "rb") as fh:
            data = tomli.load(fh).get("tool", {}).get("pyanalyze", {})
        values = []
        for k, v in data.items():
            if k == "extend_config":
                values.append(v)
            elif k == "overrides":
                values += [s["extend_config"] for s in v if "extend_config" in s]
        for v in values:
            target = os.path.join(os.path.dirname(real), v)
            hops.append((real, v, os.path.realpath(target)))
            if visit(target, active | {real}):
                return True
        return False

    return visit(entry, frozenset()), order, hops


def hop_class(real_src: str, value: str, real_dst: str) -> str:
    """How the hop is written, as pathlib sees it (`parent / value` collapses '.', keeps '..' and symlinks)."""
    joined = str(Path(real_src).parent / value)
    bits = []
    if os.path.isabs(value):
        bits.append("absolute")
    if ".." in value.split("/"):
        bits.append("dotdot")
    if joined != real_dst and os.path.normpath(joined) == real_dst:
        pass                               # only '..' / '.' segments make it differ
    elif joined != real_dst:
        bits.append("symlink")
    if joined == real_dst:
        bits.append("canonical")
    return "+".join(bits) or "plain"


def judge_graph(wit: dict, entries=ENTRIES):
    """-> (list of (key, what), info).  Raises AssertionError if the generated graph is not what the spec meant."""
    root = materialise_graph(wit)
    try:
        entry = wit["entry"].replace(ROOT, root)
        cyclic, order, hops = reference_walk(entry)
        spec = wit.get("spec", {})
        classes = [hop_class(*h) for h in hops]
        all_noncanonical = bool(hops) and all("canonical" not in c for c in classes)
        info = {"cyclic": cyclic, "files_walked": len(order), "hop_classes": classes, "all_noncanonical": all_noncanonical,
                "values_compared": 0, "loaded": 0, "rejected": 0}
        shape = "diamond" if spec.get("diamond") else "chain"
        desc = (f"{shape} of {len(wit['files'])} file(s) {[f['path'] for f in wit['files']]}, extend_config values "
                f"{[h[1].replace(root, ROOT) for h in hops]}, main path {wit['entry']}")
        out = []
        if cyclic:
            for e in entries:
                got = invalid_outcome(entry, e)
                if got == "rejected":
                    info["rejected"] += 1
                elif got == "accepted":
                    out.append((f"inclusion-graph|recursive|accepted", f"recursive inclusion accepted via {e}: {desc}"))
                else:
                    out.append((f"inclusion-graph|recursive|{got}",
                                f"recursive inclusion: {got} instead of InvalidConfigOption via {e}: {desc}"))
            return out, info
        # not recursive: must load through every entry point ...
        for e in entries:
            got = invalid_outcome(entry, e)
            if got == "accepted":
                info["loaded"] += 1
            else:
                out.append((f"inclusion-graph|not-recursive|{got}",
                            f"non-recursive {desc}: {got} via {e}"))
        if out:
            return out, info
        options = build_options(entry, [])
        by_real = {os.path.realpath(os.path.join(root, f["path"])): f for f in wit["files"]}
        if spec.get("diamond"):
            # the shared file is included twice and the two branches have equal depth: only what every reading of the
            # documentation agrees on is judged (main file first; a value set in the shared file only comes from there)
            first = stack_from_witness([by_real[order[0]]])["files"][0]
            last = stack_from_witness([by_real[order[-1]]])["files"][0]
            for opt, src in (("maximum_positional_args", first), ("union_simplification_limit", last)):
                want = dict((k, v) for k, v in src["top"] if k != "overrides").get(opt)
                got = observe_api(options, (), opt)
                info["values_compared"] += 1
                if want is not None and not same(got, want):
                    out.append((f"inclusion-graph|diamond|{'main-file-value-lost' if src is first else 'shared-file-value-lost'}",
                                f"{desc}: {opt} is {got!r}, documented {want!r}"))
            return out, info
        stack = stack_from_witness([by_real[r] for r in order])
        model = Model(stack, [])
        for path in GRAPH_PATHS:
            for opt in GRAPH_OPTS:
                info["values_compared"] += 1
                for key, what in judge_query(model, stack, [], options, path, opt)[1]:
                    out.append((key, f"{desc}: {what}"))
        return out, info
    finally:
        shutil.rmtree(root, ignore_errors=True)


def graph_specs(ctx):
    """Systematic part: every shape x directory pattern x one spelling used for every hop (entry spelling and key order
    rotate); then per-hop random mixtures."""
    idx = itertools.count()
    for n in (1, 2, 3, 4):
        for back in [None] + list(range(n)):
            for dname, dirs in DIR_PATTERNS.items():
                for sp in SPELLINGS:
                    i = next(idx)
                    yield {"n": n, "back": back, "dirs": dirs, "spell": [sp], "entry": ENTRY_SPELLINGS[i % 3],
                           "variant": i % 4, "pattern": dname}
    for back in (None, 0, 1, 2, 3):
        for dname, dirs in DIR_PATTERNS.items():
            for sp in SPELLINGS:
                i = next(idx)
                yield {"n": 4, "back": back, "dirs": dirs, "spell": [sp], "entry": ENTRY_SPELLINGS[i % 3],
                       "variant": i % 4, "pattern": dname, "diamond": True}
    import random

    rng = random.Random(f"C18-graphs/{ctx.seed}")      # the same list in every shard
    pool = ["", "ta", "tb", "ta/sub", "tb/sub", "p/q"]
    for _ in range(ctx.pick(700, 14000)):
        n = rng.choice([1, 2, 2, 3, 3, 4, 4])
        diamond = rng.random() < 0.15
        if diamond:
            n = 4
        yield {"n": n, "back": rng.choice([None, None] + list(range(n))), "dirs": [rng.choice(pool) for _ in range(4)],
               "spell": [rng.choice(SPELLINGS) for _ in range(6)], "entry": rng.choice(ENTRY_SPELLINGS),
               "variant": rng.randrange(4), "pattern": "random", "diamond": diamond}


def run_graphs(ctx, rep: Reporter) -> None:
    cli_left = ctx.pick(1, 4)          # recursive graphs without a canonical hop through a real subprocess, per shard
    for i, spec in enumerate(graph_specs(ctx)):
        if not ctx.mine(i):
            continue
        wit = build_graph(spec)
        # the real command-line front end (argparse over every option) is the expensive entry point: every third graph
        entries = ENTRIES if (i // ctx.nshards) % 3 == 0 else ENTRIES[:2]
        try:
            res, info = judge_graph(wit, entries)
        except Exception as e:  # noqa: BLE001 - the reference walk / generator failed: not a verdict
            ctx.count("graph_generator_failures")
            ctx.note(f"graph {spec}: {e!r}")
            continue
        ctx.count("evaluations", len(entries) + info["values_compared"])
        ctx.count("graph_cases")
        ctx.count("graph_entry_point_runs", len(entries))
        ctx.count("graph_values_compared", info["values_compared"])
        kind = ("diamond-" if spec.get("diamond") else "") + ("recursive" if info["cyclic"] else "not-recursive")
        ctx.histo("graph_kind", kind)
        ctx.histo("graph_files_walked", str(info["files_walked"]))
        ctx.histo("graph_entry_spelling", spec["entry"])
        ctx.histo("graph_dir_pattern", spec["pattern"])
        for c in info["hop_classes"]:
            ctx.histo("graph_hop_class", c)
        if info["cyclic"]:
            ctx.count("graph_recursive")
            ctx.count("graph_recursive_rejected", info["rejected"])
            if info["all_noncanonical"]:
                ctx.count("graph_recursive_no_canonical_hop")
        else:
            ctx.count("graph_not_recursive")
            ctx.count("graph_not_recursive_loaded", info["loaded"])
        if any("symlink" in c for c in info["hop_classes"]) or spec["entry"] == "symlink":
            ctx.count("graph_with_symlink")
        ctx.nontrivial(("graph", kind, spec["n"], spec.get("back"), tuple(info["hop_classes"]), spec["entry"], spec["pattern"]))
        seen = set()
        for key, what in res:
            if key not in seen:
                seen.add(key)
                rep.report(key, what, wit)
        if info["cyclic"] and info["all_noncanonical"] and cli_left > 0 and (i // ctx.nshards) % 7 == 3:
            cli_left -= 1
            check_graph_cli(ctx, rep, wit)


def check_graph_cli(ctx, rep, wit) -> None:
    root = materialise_graph(wit)
    try:
        entry = wit["entry"].replace(ROOT, root)
        cp = harness.run_cli(["--config-file", entry, "--display-options"], cwd=root, env={"NO_COLOR": "1"})
    finally:
        shutil.rmtree(root, ignore_errors=True)
    ctx.count("evaluations")
    ctx.count("graph_cli_runs")
    if cp.returncode == 0 or "InvalidConfigOption" not in cp.stderr:
        last = (re.sub(r"\x1b\[[0-9;]*m", "", cp.stderr).strip().splitlines() or [""])[-1]
        cls = "accepted" if cp.returncode == 0 else re.sub(r":.*", "", last)[:40]
        rep.report(f"inclusion-graph|recursive|{cls}",
                   f"python -m pyanalyze --display-options on a recursive inclusion: rc={cp.returncode}, {last[:200]!r}",
                   dict(wit, cli=True))


# ---------------------------------------------------------------------------------------------------------------


def shard(ctx) -> None:
    rep = Reporter(ctx)
    try:
        run_invalid(ctx, rep)
        run_graphs(ctx, rep)
        for i, st in enumerate(EDGE_STACKS):
            if ctx.mine(i):
                ctx.count("edge_stacks")
                check_stack(ctx, rep, st, [[], [["maximum_positional_args", 3], ["extra_builtins", ["c1"]]]], {"display": True})
        gen = Gen(ctx.rng)
        total = ctx.pick(3200, 60000)
        n = total // ctx.nshards
        n_cmds = ctx.pick(2, 3)
        every_cli = max(1, n // ctx.pick(1, 8))
        every_diag = max(1, n // ctx.pick(5, 40))
        every_cli_diag = max(1, n // ctx.pick(1, 4))
        for i in range(n):
            stack, focus = gen.stack()
            cmds = [[]] + [gen.cmd(focus) for _ in range(n_cmds - 1)]
            if i % 3 == 0:
                ctx.rng.shuffle(cmds)
            # the sampled routes look at the last command line of the stack only
            sample = {"display": True, "cli_display": i % every_cli == 0, "diag": i % every_diag == 1 % every_diag,
                      "cli_diag": i % every_cli_diag == 2 % every_cli_diag}
            check_stack(ctx, rep, stack, cmds, sample)
    finally:
        scratch().cleanup()


def replay(witness):
    from vp.core import Ctx

    route = witness.get("route", "api")
    want = witness.get("key")
    found = []
    try:
        if route == "graph" and not witness.get("cli"):
            found = judge_graph(witness)[0]
        elif route == "graph":
            ctx = Ctx(ID, "quick", 0, 0, 1)
            check_graph_cli(ctx, Reporter(ctx, per_key=10**9), witness)
            found = [(key, lst[0]["what"]) for key, lst in ctx.violations.items()]
        elif route == "invalid":
            r = judge_invalid(witness["cls"], witness["files"], witness["entry"])
            if r:
                found.append((r[0], f"{witness.get('desc', '')} via {witness['entry']}: {r[1]}"))
        elif route == "api" and witness.get("opt") is not None and "path" in witness:
            path = tuple(p for p in witness["path"].split(".") if p)
            found = judge_stack_query(stack_from_witness(witness["files"]), witness["cmd"], path, witness["opt"])
        else:
            ctx = Ctx(ID, "quick", 0, 0, 1)
            rep = Reporter(ctx, per_key=10**9)
            if route == "cli-invalid":
                check_invalid_cli(ctx, rep, witness["cls"], witness.get("desc", ""), witness["files"])
            else:
                sample = {"display": route in ("display", "cli-display"), "cli_display": route == "cli-display",
                          "diag": route == "diag", "cli_diag": route == "cli-diag"}
                check_stack(ctx, rep, stack_from_witness(witness["files"]), [witness["cmd"]], sample)
            for key, lst in ctx.violations.items():
                found.append((key, lst[0]["what"]))
    finally:
        if _SCRATCH is not None:
            _SCRATCH.cleanup()
    for key, what in found:
        if key == want:
            return key, what
    if want is not None:
        found = [f for f in found if f[0].split("|")[0] == want.split("|")[0]] if route != "api" else found
    return found[0] if found else None
