"""C19 — operations on known objects agree with performing them.

Monitor: each expression over literal operands sits on its own line of a never-called function;
pyanalyze checks the module (annotate=True, so every node carries `inferred_value`) and CPython
evaluates the same expression text in the same module namespace.  Compared: (a) "diagnosed" vs.
"CPython raises TypeError/AttributeError (IndexError for literal tuple[literal int])", (b) an inferred
literal vs. the evaluated result, in value and type.
"""
from __future__ import annotations

import ast
import enum
import random
import types
import warnings

from vp import harness

ID = "C19"
LEVEL = "exploration"
TECHNIQUE = "reference-oracle monitor: CPython evaluates the expression pyanalyze analysed"
RULE = (
    "case = one expression over a fixed universe of 49 literal operands (ints incl. 0/negatives, bools, floats, "
    "complex, str, bytes, tuples incl. empty/nested, None, Enum, IntEnum, IntFlag and str-mixin Enum members, classes, modules os/math). "
    "(1) flat, enumerated exhaustively in both tiers: operand x 13 binary operators x operand ('%' with a plain str/bytes "
    "left operand excluded: C17; str-mixin enum members are included), operand x 4 unary operators, operand x 21 subscript indices (in range / out of "
    "range / negative ints, bool, IntEnum, slices incl. a non-index bound, str, None, float), operand.attr for every "
    "name in dir(operand) plus 6 fixed and up to 6 derived misspellings. (2) 3-operand nests: a seed-independent "
    "selection of distinct small results of the flat operations (quick <= 2, thorough <= 64 values per result type), "
    "each in every spelling class (root operation kind x named/constant leaves) that produces it - the seed picks the "
    "spelling inside the class and the order/batching - crossed with every (inner op c), (c op inner), unary "
    "operator, subscripts and a dir() sample. (3) tuple displays with one computed-but-known member, subscripted / "
    "concatenated / repeated. Every case performs an operation, so every case is non-trivial; distinct_nontrivial "
    "counts distinct (operator | subscript+index kind | attribute name, operand type names, CPython outcome class). "
    "Histogram by_operator gives both outcomes per operator (MatMult can only raise in this universe)."
)
LEVEL_TEXT = (
    "exploration: the property held / failed on the executions listed; the 1- and 2-operand space over the stated "
    "universe is covered completely, deeper expressions by a structured selection"
)
ASSUMPTIONS = [
    "CPython 3.12 in /venv is the oracle; the expression is evaluated with eval() in the analysed module's namespace",
    "diagnosed = undefined_attribute / unsupported_operation / incompatible_call / incompatible_argument / "
    "not_callable on the expression's line (bad_format_string too when CPython raises on a `%` whose left operand is a str-mixin enum member); every other code on the line is lint-only and ignored",
    "claimed exceptions: TypeError, AttributeError; IndexError only for a literal tuple display indexed by an int "
    "literal; ZeroDivisionError / OverflowError / ValueError / MemoryError / KeyError / str-bytes IndexError outcomes "
    "are on neither side of the iff (counted as out_of_scope)",
    "literal clause: a KnownValue (or a tuple SequenceValue whose members are all single KnownValues) is compared with "
    "the result by type identity and ==, recursively for tuples, identity for enum members/classes/modules, "
    "(__self__, __name__) for bound methods; results of other kinds are counted as literal_undecided",
    "in nests the 'missed' direction is only claimed when pyanalyze's inferred values for the operands of the "
    "failing node are themselves literal (statically known operands)",
    "operands are kept small and operations whose result would exceed ~10^4 bits / 5000 elements are skipped before "
    "either side evaluates them (counted as skipped_huge)",
]
FLOORS = {
    "quick": {"distinct_nontrivial": 1900, "evaluations": 37000, "binop_cases": 13000, "unary_cases": 90,
              "subscript_cases": 470, "attr_cases": 1700, "nest_cases": 21000, "display_cases": 850,
              "cpython_raised_claimed": 29000, "cpython_ok": 7400, "literal_compared": 27000,
              "diagnosed_lines": 29000},
    "thorough": {"distinct_nontrivial": 1900, "evaluations": 270000, "binop_cases": 13000, "unary_cases": 90,
                 "subscript_cases": 470, "attr_cases": 1700, "nest_cases": 245000, "display_cases": 9500,
                 "cpython_raised_claimed": 200000, "cpython_ok": 57000, "literal_compared": 295000,
                 "diagnosed_lines": 200000},
}
NSHARDS = 16
WATCHDOG_S = {"quick": 600, "thorough": 3600}
BATCH = 300

DIAG_CODES = {"undefined_attribute", "unsupported_operation", "incompatible_call", "incompatible_argument",
              "not_callable"}
# `%` with a str-mixin enum member on the left goes through the format-string checker: its bad_format_string counts as
# a diagnosis when CPython raises, but (being partly a lint: "no conversion specifiers") never as a spurious report
FORMAT_DIAG_CODES = {"bad_format_string"}
CLAIMED = (TypeError, AttributeError)

PRELUDE = '''
import enum
import math
import os
class Color(enum.Enum):
    RED = 1
    BLUE = 2
class Num(enum.IntEnum):
    ONE = 1
    TWO = 2
class Perm(enum.IntFlag):
    R = 4
    W = 2
class Unit(str, enum.Enum):
    PLAIN = "u"
    FMT = "<%s>"
class A:
    x = 1
    def m(self):
        return 1
class B(A):
    y = "s"
    def __bool__(self):
        return False
class C:
    __slots__ = ()
'''

OPERANDS = [
    # ints
    "0", "1", "-1", "2", "3", "-7", "10", "255", "300",
    # bools
    "True", "False",
    # floats
    "0.0", "1.5", "-2.5", "1e3",
    # complex
    "1j", "(1+2j)", "0j",
    # str
    "''", "'a'", "'abc'", "'3'",
    # bytes
    "b''", "b'a'", "b'abc'",
    # tuples
    "()", "(1,)", "(1, 2, 3)", "(1, 'a')", "((1, 2), 'x')", "(None, 1.5)",
    # None
    "None",
    # enum / IntEnum members
    "Color.RED", "Color.BLUE", "Num.ONE", "Num.TWO",
    # IntFlag members (operators return members of the flag class) and a str-mixin enum
    "Perm.R", "Perm.W", "Unit.PLAIN", "Unit.FMT",
    # classes
    "A", "B", "C", "Color", "Num", "int", "tuple",
    # modules
    "os", "math",
]
BINOPS = [
    ("Add", "+"), ("Sub", "-"), ("Mult", "*"), ("Div", "/"), ("FloorDiv", "//"), ("Mod", "%"), ("Pow", "**"),
    ("LShift", "<<"), ("RShift", ">>"), ("BitAnd", "&"), ("BitOr", "|"), ("BitXor", "^"), ("MatMult", "@"),
]
BINOP_SYM = dict(BINOPS)
UNOPS = [("USub", "-"), ("UAdd", "+"), ("Invert", "~"), ("Not", "not ")]
INDICES = [
    "0", "1", "2", "3", "5", "-1", "-2", "-4", "-6", "True", "Num.ONE",
    ":", "1:", ":2", "::2", "::-1", "5:", "'a':",
    "'a'", "None", "1.5",
]
FIXED_MISSPELLINGS = ["ptah", "reel", "uppr", "__ad__", "nmae", "_x"]


# ---------------------------------------------------------------------------
# small helpers


def tname(v) -> str:
    return type(v).__name__


def safe_repr(v, limit: int = 160) -> str:
    try:
        r = repr(v)
    except Exception as e:  # noqa: BLE001  (e.g. int too large to convert)
        r = f"<unreprable {type(v).__name__}: {type(e).__name__}>"
    return r if len(r) <= limit else r[: limit - 3] + "..."


def par(src: str) -> str:
    return f"({src})"


def too_big(op: str, left, right) -> bool:
    """Would `left op right` produce an enormous object?  Decided from the operands alone."""
    try:
        if op == "Pow" and isinstance(left, int) and isinstance(right, int):
            return abs(int(left)) >= 2 and int(right) > 0 and int(right) * int(left).bit_length() > 10000
        if op == "LShift" and isinstance(left, int) and isinstance(right, int):
            return int(right) + int(left).bit_length() > 10000
        if op == "Mult":
            for a, b in ((left, right), (right, left)):
                if isinstance(a, (str, bytes, tuple)) and isinstance(b, int):
                    return len(a) * int(b) > 5000
            if isinstance(left, int) and isinstance(right, int):
                return int(left).bit_length() + int(right).bit_length() > 10000
    except Exception:  # noqa: BLE001
        return True
    return False


def py_eval(src: str, ns: dict):
    with warnings.catch_warnings():
        warnings.simplefilter("ignore")
        try:
            return True, eval(src, ns)
        except Exception as e:  # noqa: BLE001
            return False, e


def value_like(v, depth: int = 0) -> bool:
    if v is None or isinstance(v, (bool, int, float, complex, str, bytes, enum.Enum, type, types.ModuleType)):
        return True
    if isinstance(v, tuple) and depth < 4:
        return all(value_like(x, depth + 1) for x in v)
    return False


def same(a, b):
    """True / False / None (undecidable by this oracle): equal in value AND type."""
    if a is b:
        return True
    if type(a) is not type(b):
        return False
    if isinstance(a, (enum.Enum, type, types.ModuleType)) or a is None:
        return False  # identity already failed
    if isinstance(a, (float, complex)):
        if a != a and b != b:
            return True
        return a == b
    if isinstance(a, (int, str, bytes, types.UnionType, types.GenericAlias)):
        return a == b
    if isinstance(a, tuple):
        if len(a) != len(b):
            return False
        out = True
        for x, y in zip(a, b):
            r = same(x, y)
            if r is False:
                return False
            if r is None:
                out = None
        return out
    try:
        sa, sb = a.__self__, b.__self__
        na, nb = a.__name__, b.__name__
    except Exception:  # noqa: BLE001
        return None
    if na != nb:
        return False
    r = same(sa, sb)
    return r


def literal_of(inferred):
    """('known', obj) | ('seq', tuple) | None — what pyanalyze claims to know exactly."""
    from pyanalyze.value import AnnotatedValue, KnownValue, SequenceValue

    while isinstance(inferred, AnnotatedValue):
        inferred = inferred.value
    if isinstance(inferred, KnownValue):
        return "known", inferred.val
    if isinstance(inferred, SequenceValue) and inferred.typ is tuple:
        out = []
        for is_many, member in inferred.members:
            if is_many:
                return None
            sub = literal_of(member)
            if sub is None:
                return None
            out.append(sub[1])
        return "seq", tuple(out)
    return None


# ---------------------------------------------------------------------------
# structure of a case (derived from the expression text alone, so a replay needs nothing else)


def attr_class(name: str, present: bool) -> str:
    if not present:
        return "absent-dunder" if name.startswith("__") and name.endswith("__") else "absent"
    if name.startswith("__") and name.endswith("__"):
        return "dunder"
    return "private" if name.startswith("_") else "public"


def index_kind(node: ast.AST, ok: bool, val, container) -> str:
    if isinstance(node, ast.Slice):
        return "slice"
    if not ok:
        return "?"
    t = tname(val)
    if type(val) is int:
        try:
            n = len(container)
        except Exception:  # noqa: BLE001
            return "int"
        if -n <= val < n:
            return "int-neg-inrange" if val < 0 else "int-inrange"
        return "int-neg-outofrange" if val < 0 else "int-outofrange"
    return t


class Node:
    """One operation node of the expression with its operands evaluated by CPython."""

    def __init__(self, node: ast.AST, ns: dict, is_root: bool = False):
        self.node = node
        self.ns = ns
        self.src = ast.unparse(node)
        self.children: list = []
        self.kind = "leaf"
        self.op = ""
        if is_root:
            pass  # the root of a case is always the operation under test, never a literal spelling
        elif isinstance(node, ast.UnaryOp) and isinstance(node.operand, ast.Constant) and isinstance(node.op, ast.USub):
            self.kind = "literal"  # negative literal
        elif isinstance(node, ast.BinOp) and isinstance(node.op, (ast.Add, ast.Sub)) and isinstance(
            node.right, ast.Constant
        ) and isinstance(node.right.value, complex) and isinstance(node.left, ast.Constant):
            self.kind = "literal"  # complex literal 1+2j
        if self.kind == "literal":
            self.kind = "leaf"
        elif isinstance(node, ast.BinOp):
            self.kind, self.op = "binop", type(node.op).__name__
            self.children = [Node(node.left, ns), Node(node.right, ns)]
        elif isinstance(node, ast.UnaryOp):
            self.kind, self.op = "unary", type(node.op).__name__
            self.children = [Node(node.operand, ns)]
        elif isinstance(node, ast.Subscript):
            self.kind, self.op = "subscript", "[]"
            self.children = [Node(node.value, ns)]
            self.index = node.slice
        elif isinstance(node, ast.Attribute) and (is_root or not _is_enum_member_ref(node)):
            self.kind, self.op = "attr", node.attr
            self.children = [Node(node.value, ns)]
        elif isinstance(node, ast.Tuple):
            self.kind = "leaf"
        self.ok, self.val = py_eval(self.src, ns)
        if self.kind == "subscript":
            if isinstance(self.index, ast.Slice):
                self.index_ok, self.index_val = True, None
            else:
                self.index_ok, self.index_val = py_eval(ast.unparse(self.index), ns)

    def operations(self):
        """post-order list of operation nodes"""
        out = []
        for c in self.children:
            out.extend(c.operations())
        if self.kind != "leaf":
            out.append(self)
        return out

    def operand_types(self) -> list:
        ts = [tname(c.val) if c.ok else "?" for c in self.children]
        return ts

    def shape(self) -> str:
        ts = self.operand_types()
        if self.kind == "binop":
            return f"binop|{self.op}|{ts[0]},{ts[1]}"
        if self.kind == "unary":
            return f"unary|{self.op}|{ts[0]}"
        if self.kind == "subscript":
            c = self.children[0]
            ik = index_kind(self.index, self.index_ok, self.index_val, c.val if c.ok else None)
            return f"subscript|{ts[0]}[{ik}]"
        if self.kind == "attr":
            c = self.children[0]
            present = False
            if c.ok:
                try:
                    present = self.op in dir(c.val)
                except Exception:  # noqa: BLE001
                    present = False
            return f"attr|{ts[0]}|{attr_class(self.op, present)}"
        return "leaf"

    def claims_index_error(self) -> bool:
        if self.kind != "subscript":
            return False
        c = self.children[0]
        return (
            isinstance(c.node, ast.Tuple)
            and not isinstance(self.index, ast.Slice)
            and self.index_ok
            and type(self.index_val) is int
            and _is_int_literal(self.index)
        )


def _plain_literal(n: ast.AST) -> bool:
    """Spelled as a literal of the universe (no operation inside): statically known by construction."""
    if isinstance(n, ast.UnaryOp) and isinstance(n.op, ast.USub):
        n = n.operand
        return isinstance(n, ast.Constant)
    if isinstance(n, ast.BinOp):  # 1+2j
        return isinstance(n.left, ast.Constant) and isinstance(n.right, ast.Constant) and isinstance(
            n.right.value, complex)
    if isinstance(n, ast.Tuple):
        return all(_plain_literal(e) for e in n.elts)
    if isinstance(n, ast.Attribute):
        return _is_enum_member_ref(n)
    return isinstance(n, (ast.Constant, ast.Name))


def _is_int_literal(n: ast.AST) -> bool:
    if isinstance(n, ast.UnaryOp) and isinstance(n.op, (ast.USub, ast.UAdd)):
        n = n.operand
    return isinstance(n, ast.Constant) and type(n.value) is int


def _is_enum_member_ref(node: ast.Attribute) -> bool:
    return isinstance(node.value, ast.Name) and node.value.id in ("Color", "Num") and node.attr in (
        "RED", "BLUE", "ONE", "TWO"
    )


def is_c17(n: Node) -> bool:
    """`%` with a str/bytes left operand is C17's business."""
    return n.kind == "binop" and n.op == "Mod" and n.children[0].ok and type(n.children[0].val) in (str, bytes)


# ---------------------------------------------------------------------------
# mechanism keys


def norm_exc(e: BaseException) -> str:
    return type(e).__name__


def mechanism(shape: str, direction: str, extra: str = "") -> str:
    return f"{shape}|{direction}" + (f"|{extra}" if extra else "")


INTFLAG_KEY = "intflag|bit-operator-between-a-flag-member-and-a-plain-int-is-evaluated-as-an-int-operation"


def has_flag_int_bitop(n: "Node") -> bool:
    """n or one of its operands is `flag-member <&,|,^> plain int` (either order): typeshed declares
    Flag.__and__/__or__/__xor__(self, other: Self), so pyanalyze rejects that call, evaluates the reflected int operator
    and carries an int literal where CPython has a member of the flag class; everything computed from it inherits the
    wrong value."""
    for sub in ast.walk(n.node):
        if isinstance(sub, ast.BinOp) and isinstance(sub.op, (ast.BitAnd, ast.BitOr, ast.BitXor)):
            try:
                a = eval(compile(ast.Expression(sub.left), "<c19>", "eval"), n.ns)
                b = eval(compile(ast.Expression(sub.right), "<c19>", "eval"), n.ns)
            except Exception:  # noqa: BLE001
                continue
            fa, fb = isinstance(a, enum.Flag), isinstance(b, enum.Flag)
            if fa != fb and isinstance(b if fa else a, int):
                return True
    return False


_SEQ = (str, bytes, tuple)


def _is_annotated_literal(inferred) -> bool:
    from pyanalyze.value import AnnotatedValue

    return isinstance(inferred, AnnotatedValue) and literal_of(inferred) is not None


def missed_mechanism(n: "Node", exc: BaseException, line_codes: set) -> str:
    """Mechanism key of a missed diagnostic.  Named classes first (operand *categories* instead of type names where
    one cause spans several types); anything else falls through to (shape, exception type)."""
    crashed = "|internal_error" if "internal_error" in line_codes else ""
    if any(_is_annotated_literal(getattr(c.node, "inferred_value", None)) for c in n.children):
        # the operand is known to pyanalyze, but as Annotated[Literal[..], <constraint>] rather than a bare literal
        return mechanism(f"{n.kind}|operand inferred as Annotated[Literal]", "missed", norm_exc(exc)) + crashed
    if n.kind == "binop" and n.op == "Mult":
        a, b = n.children[0].val, n.children[1].val
        for x, y in ((a, b), (b, a)):
            if isinstance(x, _SEQ) and not isinstance(x, enum.Enum) and isinstance(y, type) and hasattr(y, "__index__"):
                return mechanism("binop|Mult|builtin-sequence*class-whose-instances-define-__index__", "missed",
                                 norm_exc(exc)) + crashed
    if n.kind == "subscript" and isinstance(n.index, ast.Slice) and str(exc).startswith("slice indices must be"):
        c = n.children[0].val
        cat = "str-or-bytes" if isinstance(c, (str, bytes)) else tname(c)
        return mechanism(f"subscript|{cat}[slice with non-index bound]", "missed", norm_exc(exc)) + crashed
    return mechanism(n.shape(), "missed", norm_exc(exc)) + crashed


# ---------------------------------------------------------------------------
# the monitor


def check_exprs(ctx, exprs, family: str) -> None:
    """exprs: list of expression source texts."""
    lines = [PRELUDE, "def holder():"]
    for src in exprs:
        lines.append(f"    ({src})")
    source = "\n".join(lines) + "\n"
    with warnings.catch_warnings():
        warnings.simplefilter("ignore")
        tree = ast.parse(source)
        res = harness.run(source, tree=tree, annotate=True, keep_module=True)
    try:
        if res.exception is not None:
            ctx.violation(
                "harness|exception|" + type(res.exception).__name__,
                f"check raised {res.exception!r}",
                {"family": family, "exprs": list(exprs)},
            )
            return
        by_line = res.by_line()
        ns = res.module.__dict__
        holder = next(n for n in tree.body if isinstance(n, ast.FunctionDef) and n.name == "holder")
        stmts = holder.body
        assert len(stmts) == len(exprs)
        for i, src in enumerate(exprs):
            judge(ctx, src, family, stmts[i].value, by_line.get(stmts[i].lineno, []), ns)
        if len(ctx.samples) < 3:
            ctx.sample({"family": family, "expr": exprs[0]})
    finally:
        harness.forget_module(res.module)


def judge(ctx, src: str, family: str, top: ast.AST, line_diags, ns: dict) -> None:
    ctx.count("evaluations")
    ctx.count(f"{family}_cases")
    wit = {"expr": src, "family": family}
    root = Node(top, ns, is_root=True)
    ops = root.operations()
    if not ops:
        ctx.count("no_operation")
        return
    # the failing node: first operation (evaluation order) that raises while its operands evaluated fine
    failing = None
    for n in ops:
        if not n.ok and all(c.ok for c in n.children):
            failing = n
            break
    if failing is None and not root.ok:
        ctx.count("raise_outside_operation")
        return
    if any(is_c17(n) for n in ops):
        ctx.count("excluded_c17")
        return
    ds = [d for d in line_diags if d.code in DIAG_CODES]
    if failing is not None and not ds:
        ds = [d for d in line_diags if d.code in FORMAT_DIAG_CODES]
    other = [d for d in line_diags if d.code not in DIAG_CODES]
    for d in other:
        ctx.histo("lint_only_codes_ignored", d.code)
    for d in ds:
        ctx.histo("diagnostic_codes", d.code)
    if ds:
        ctx.count("diagnosed_lines")
    subject = failing if failing is not None else root
    shape = subject.shape()
    opname = subject.op if subject.kind in ("binop", "unary") else subject.kind

    # ---- clause 1: diagnosed <=> CPython raises a claimed exception
    if failing is not None:
        exc = failing.val
        claimed = isinstance(exc, CLAIMED) or (isinstance(exc, IndexError) and failing.claims_index_error())
        outcome = norm_exc(exc) if claimed else "oos:" + norm_exc(exc)
        if claimed:
            ctx.count("cpython_raised_claimed")
            operands_known = True
            if family in ("nest", "display"):
                operands_known = all(
                    _plain_literal(c.node) or literal_of(getattr(c.node, "inferred_value", None)) is not None
                    for c in failing.children
                )
            if not ds:
                if operands_known:
                    ctx.violation(
                        missed_mechanism(failing, exc, {d.code for d in line_diags}),
                        f"{src}: CPython raises {type(exc).__name__}: {safe_repr(str(exc))}; pyanalyze reports "
                        f"{'only an internal_error' if any(d.code == 'internal_error' for d in line_diags) else 'nothing'}"
                        f" (inferred {safe_repr(getattr(failing.node, 'inferred_value', None))})",
                        wit,
                    )
                else:
                    ctx.count("nest_missed_unclaimed_operand_not_literal")
        else:
            ctx.count("out_of_scope")
            ctx.histo("out_of_scope", norm_exc(exc))
            if ds:
                ctx.histo("out_of_scope_but_diagnosed", f"{shape}|{norm_exc(exc)}")
    else:
        outcome = "ok"
        ctx.count("cpython_ok")
        if ds:
            # attribute the report to the operation node at the diagnostic's column when possible
            # (outermost node starting at that column wins: ops is post-order, so later = outer)
            d0 = ds[0]
            subj = root
            for n in ops:
                if getattr(n.node, "col_offset", None) == d0.col:
                    subj = n
            ctx.violation(
                INTFLAG_KEY if has_flag_int_bitop(root) else mechanism(subj.shape(), "spurious", d0.code),
                f"{src}: CPython gives {safe_repr(root.val)}; pyanalyze reports {d0.short()[:300]}",
                wit,
            )
    oclass = "ok" if outcome == "ok" else ("out-of-scope" if outcome.startswith("oos:") else "raise")
    ctx.histo("by_operator", f"{opname}:{oclass}:{'diag' if ds else 'clean'}")
    ctx.nontrivial((shape if subject.kind != "attr" else (shape, subject.op), outcome))

    # ---- clause 2: an inferred literal equals the evaluated result in value and type
    for n in ops:
        inferred = getattr(n.node, "inferred_value", None)
        if inferred is None:
            if n is root:
                ctx.count("no_inferred_value")
            continue
        lit = literal_of(inferred)
        if n is root:
            ctx.histo("inferred_value_class", type(inferred).__name__)
        if lit is None:
            continue
        how, claimed_val = lit
        if not n.ok:
            if n is failing and not ds:
                exc = n.val
                ctx.violation(
                    mechanism(n.shape(), "literal-for-raising", norm_exc(exc)),
                    f"{src}: pyanalyze infers the literal {safe_repr(claimed_val)} for {n.src}, silently, but CPython "
                    f"raises {type(exc).__name__}: {safe_repr(str(exc))}",
                    wit,
                )
            continue
        r = same(claimed_val, n.val)
        if r is None:
            ctx.count("literal_undecided")
            ctx.histo("literal_undecided_types", tname(n.val))
            continue
        ctx.count("literal_compared")
        if n is root:
            ctx.histo("literal_compared_by_result_type", tname(n.val))
        if r is False:
            direction = "wrong-literal" if how == "known" else "wrong-literal-tuple"
            ctx.violation(
                INTFLAG_KEY if has_flag_int_bitop(n) else mechanism(n.shape(), direction, f"{tname(claimed_val)}-for-{tname(n.val)}"),
                f"{src}: {n.src} evaluates to {safe_repr(n.val)} ({tname(n.val)}) but pyanalyze infers the literal "
                f"{safe_repr(claimed_val)} ({tname(claimed_val)})",
                wit,
            )


# ---------------------------------------------------------------------------
# workload


def prelude_ns() -> dict:
    ns: dict = {"__name__": "c19_prelude"}
    exec(compile(PRELUDE, "<c19 prelude>", "exec"), ns)
    return ns


def misspell(name: str) -> str:
    core = name.strip("_")
    if len(core) < 3:
        return name + "q"
    i = len(core) // 2
    sw = core[:i - 1] + core[i] + core[i - 1] + core[i + 1:]
    if sw == core:
        sw = core + "q"
    return name.replace(core, sw, 1)


def attr_names(obj) -> list:
    # dir(module) lists the module namespace only: the names a module inherits from its type / object
    # (__class__, __eq__, __reduce__ ...) exist at run time too
    names = sorted(set(dir(obj)) | set(dir(type(obj))))
    have = set(names)
    out = list(names)
    for m in FIXED_MISSPELLINGS:
        if m not in have:
            out.append(m)
    public = [n for n in names if not n.startswith("_")][:4] + [n for n in names if n.startswith("__")][:2]
    for n in public:
        m = misspell(n)
        if m not in have and m not in out and m.isidentifier():
            out.append(m)
    return out


def flat_cases(ns: dict):
    """Yield (family, expr) for the whole 1- and 2-operand space, in a fixed order."""
    vals = {o: eval(o, ns) for o in OPERANDS}
    for a in OPERANDS:
        for opname, sym in BINOPS:
            for b in OPERANDS:
                if opname == "Mod" and type(vals[a]) in (str, bytes):
                    continue
                if too_big(opname, vals[a], vals[b]):
                    yield "skipped_huge", f"{par(a)} {sym} {par(b)}"
                    continue
                yield "binop", f"{par(a)} {sym} {par(b)}"
    for a in OPERANDS:
        for opname, sym in UNOPS:
            yield "unary", f"{sym}{par(a)}"
    for a in OPERANDS:
        for idx in INDICES:
            yield "subscript", f"{par(a)}[{idx}]"
    for a in OPERANDS:
        for name in attr_names(vals[a]):
            yield "attr", f"{par(a)}.{name}"


def small_enough(v) -> bool:
    if isinstance(v, bool) or v is None:
        return True
    if isinstance(v, int):
        return v.bit_length() <= 64
    if isinstance(v, (float, complex)):
        return True
    if isinstance(v, (str, bytes)):
        return len(v) <= 16
    if isinstance(v, tuple):
        return len(v) <= 12 and all(small_enough(x) for x in v)
    if isinstance(v, enum.Enum):
        return True
    return False


def canon_key(v):
    if isinstance(v, (int, float)) and not isinstance(v, enum.Enum):
        if v != v:
            return (2, 0.0, "nan")
        return (0, abs(v), repr(v))
    if isinstance(v, complex):
        return (0, abs(v) if v == v else 0.0, repr(v))
    try:
        return (1, len(v), repr(v))
    except TypeError:
        return (1, 0, repr(v))


PER_TYPE = {"quick": 2, "thorough": 64}


def spelling_class(src: str) -> str:
    """Coarse class of an inner spelling: pyanalyze's path depends on the root operation kind and on whether a leaf is
    a Name/Attribute (those carry a varname, hence constraints / Annotated wrappers) or a plain constant."""
    node = ast.parse(src, mode="eval").body
    if isinstance(node, ast.BinOp):
        root = "binop"
    elif isinstance(node, ast.UnaryOp):
        root = "not" if isinstance(node.op, ast.Not) else "unary"
    else:
        root = type(node).__name__.lower()
    named = any(isinstance(n, (ast.Name, ast.Attribute)) for n in ast.walk(node))
    return f"{root}/{'named' if named else 'const'}"


def inner_pool(ns: dict, seed: int, per_type: int) -> list:
    """Seed-independent selection of distinct small results of flat operations, each in every spelling class that
    produces it; the seed only picks which spelling of that class is used."""
    by_val: dict = {}
    for family, src in flat_cases(ns):
        if family not in ("binop", "unary", "subscript"):
            continue
        ok, v = py_eval(src, ns)
        if not ok or not value_like(v) or isinstance(v, (type, types.ModuleType)) or not small_enough(v):
            continue
        k = (tname(v), repr(v))
        by_val.setdefault(k, (v, {}))[1].setdefault(spelling_class(src), []).append(src)
    by_type: dict = {}
    for (t, _), (v, classes) in by_val.items():
        by_type.setdefault(t, []).append((v, classes))
    out = []
    for t in sorted(by_type):
        items = sorted(by_type[t], key=lambda it: canon_key(it[0]))
        # spread the selection: smallest half + evenly spaced rest
        if len(items) > per_type:
            head = items[: per_type // 2]
            rest = items[per_type // 2:]
            step = len(rest) / (per_type - len(head))
            head += [rest[int(j * step)] for j in range(per_type - len(head))]
            items = head
        for v, classes in items:
            for cls in sorted(classes):
                rng = random.Random(f"C19/{seed}/{t}/{v!r}/{cls}")
                out.append((v, rng.choice(sorted(classes[cls]))))
    return out


def nest_cases(ns: dict, seed: int, per_type: int):
    vals = {o: eval(o, ns) for o in OPERANDS}
    for v, inner in inner_pool(ns, seed, per_type):
        for opname, sym in BINOPS:
            for c in OPERANDS:
                if not (opname == "Mod" and type(v) in (str, bytes)):
                    if too_big(opname, v, vals[c]):
                        yield "skipped_huge", f"{par(inner)} {sym} {par(c)}"
                    else:
                        yield "nest", f"{par(inner)} {sym} {par(c)}"
                if not (opname == "Mod" and type(vals[c]) in (str, bytes)):
                    if too_big(opname, vals[c], v):
                        yield "skipped_huge", f"{par(c)} {sym} {par(inner)}"
                    else:
                        yield "nest", f"{par(c)} {sym} {par(inner)}"
        for _, sym in UNOPS:
            yield "nest", f"{sym}{par(inner)}"
        idxs = INDICES if isinstance(v, (str, bytes, tuple)) else ["0", "-1", "1:"]
        for idx in idxs:
            yield "nest", f"{par(inner)}[{idx}]"
        names = attr_names(v)
        for name in names[::9] + names[-2:]:
            yield "nest", f"{par(inner)}.{name}"


DISPLAY_INDICES = ["0", "1", "2", "3", "-1", "-2", "-3", "-4", "True", ":", "1:", ":-1", "::-1", "'a'", "None"]


def display_cases(ns: dict, seed: int, per_type: int):
    """Tuple displays with one computed-but-known member: the subscript / concatenation implementations see a
    SequenceValue whose members pyanalyze inferred itself (not a ready-made KnownValue tuple)."""
    for v, inner in inner_pool(ns, seed, per_type):
        for disp in (f"({par(inner)}, 2, 'x')", f"(1, {par(inner)})"):
            for idx in DISPLAY_INDICES:
                yield "display", f"{disp}[{idx}]"
            yield "display", f"{disp} + (1,)"
            yield "display", f"(0,) + {disp}"
            yield "display", f"{disp} * (2)"
            yield "display", f"{disp} * ('a')"
            yield "display", f"{disp} - (1,)"
            yield "display", f"-{disp}"
            yield "display", f"{disp}.count"
            yield "display", f"{disp}.ptah"


def shard(ctx) -> None:
    ns = prelude_ns()
    mine: list = []
    idx = 0
    for family, src in flat_cases(ns):
        idx += 1
        if family == "skipped_huge":
            if ctx.mine(idx):
                ctx.count("skipped_huge")
            continue
        if ctx.mine(idx):
            mine.append((family, src))
    for family, src in nest_cases(ns, ctx.seed, PER_TYPE[ctx.tier]):
        idx += 1
        if family == "skipped_huge":
            if ctx.mine(idx):
                ctx.count("skipped_huge")
            continue
        if ctx.mine(idx):
            mine.append((family, src))
    for family, src in display_cases(ns, ctx.seed, PER_TYPE[ctx.tier]):
        idx += 1
        if ctx.mine(idx):
            mine.append((family, src))
    # the seed decides order and batching (and so the history the shared Checker sees)
    ctx.rng.shuffle(mine)
    by_family: dict = {}
    for family, src in mine:
        by_family.setdefault(family, []).append(src)
    for family in sorted(by_family):
        srcs = by_family[family]
        for i in range(0, len(srcs), BATCH):
            check_exprs(ctx, srcs[i: i + BATCH], family)


def replay(witness):
    from vp.core import Ctx

    ctx = Ctx(ID, "quick", 0, 0, 1)
    if "exprs" in witness:
        check_exprs(ctx, list(witness["exprs"]), witness.get("family", "binop"))
    else:
        check_exprs(ctx, [witness["expr"]], witness.get("family", "binop"))
    for key, lst in ctx.violations.items():
        return key, lst[0]["what"]
    return None
