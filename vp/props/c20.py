"""C20 — type evaluation functions follow their specification (docs/type_evaluation.md).

Monitor: generated `@evaluated` functions and calls to them are checked by the real pyanalyze; per call line we
observe (a) the revealed type, (b) the show_error messages returned by the real `Evaluator.evaluate` (recorded by a
pass-through wrapper), (c) the diagnostics finally shown.  Two oracles decide:

  ref  a small nondeterministic REFERENCE INTERPRETER written from docs/type_evaluation.md.  For an argument vector
       without unions it returns the *set of outcomes the document permits* (one outcome when the document decides
       everything; several where it is silent: value of a parameter whose argument kind is UNKNOWN, value of
       *args/**kwargs, `*()`/`**{}` for variadics, whether a permissive (exclude_any=False) match narrows an Any
       argument and for how long, an unannotated `= ...` default).  The real outcome must be a member of that set, or
       a union of members when several are permitted.  A case in which an Any argument permissively matches a union
       type is skipped (the argument may become a union, which the union-free reference does not model).
  law  the union law on the real code alone: eval(f, a|b) == eval(f, a) U eval(f, b), as sets of union members of the
       revealed type and as sets of messages.  Skipped when the union has an Any member and the body tests that
       parameter with exclude_any=False (same unspecified narrowing on both sides of the law).
"""
from __future__ import annotations

import ast
import collections
import copy
import enum
import itertools
import json
import random
import re
import sys
import warnings
from collections import Counter
from typing import Any, Dict, List, Literal, Optional, Union

from vp import harness

ID = "C20"
LEVEL = "exploration"
TECHNIQUE = "runtime monitoring: reference interpreter written from the specification + metamorphic union law on real results"
RULE = (
    "case = (@evaluated function, call). Functions: 1-3 parameters over positional-only/positional-or-keyword/"
    "keyword-only with no default, literal default or `...` default, optional *args/**kwargs, optional return "
    "annotation; body from the grammar block := (if/elif/else | return T | show_error('m_k'[, argument=p]) | pass)+ "
    "with nesting depth <= 3 and conditions from is_of_type(x, T[, exclude_any=b]), x ==/!=/is/is not L, "
    "is_provided/is_positional/is_keyword(p), sys.version_info/sys.platform comparisons under and/or/not (<= 3 "
    "operands). Calls: every parameter passed positionally / by keyword / omitted / through a *(..) or **{..} literal "
    "/ through *xs or **kw of unknown length, extra arguments into *args/**kwargs, `*()`/`**{}`; argument types: "
    "literals, classes, enum members, Any (explicit and unannotated), 2-3 member unions (one or two per call); every "
    "union call is accompanied by the calls for each member combination. A systematic part, identical under every "
    "seed, precedes the random one: S1 every value test (is_of_type over 21 types x exclude_any, 4 comparison "
    "operators x 7 constants, plain and negated) x every argument; S2 an argument-kind probe for every parameter of "
    "every signature with <= 2 parameters x 3 default forms x *args/**kwargs, ~14 call shapes each; S3 two value "
    "tests of one union/Any argument in sequence, nested, and under and/or with both polarities. Non-trivial = "
    "distinct (function, call) text where the body has >= 2 primitive conditions and the function's call set "
    "reached >= 2 distinct outcomes."
)
LEVEL_TEXT = (
    "exploration: conformance to the reference interpreter / the union law was observed on every generated case "
    "except the listed mechanisms; nothing is claimed for bodies outside the restricted grammar (generic evaluators, "
    "overloaded evaluators, Callable compatibility are not exercised)"
)
ASSUMPTIONS = [
    "docs/type_evaluation.md is the specification; the reference interpreter encodes only what it states and returns "
    "every outcome it permits where it is silent (those cases are counted as 'undecided' and only membership is checked)",
    "is_of_type(x, T, exclude_any=e) in the reference is pyanalyze's own T.can_assign(x) under/not under "
    "set_exclude_any() (assignability is C03/C04's business); Values are built with type_from_runtime/KnownValue and "
    "types are compared through str(Value) split into union members",
    "calls that pyanalyze rejects at binding/argument-compatibility level are skipped (C05/C06's business) and counted",
    "fired messages = the UserRaisedError list returned by the real Evaluator.evaluate for the call's line (pass-through "
    "wrapper); shown messages = incompatible_call diagnostics on that line",
]
FLOORS = {
    "quick": {"distinct_nontrivial": 24000, "bodies": 800, "systematic_bodies": 2300, "ref_checked": 50000,
              "ref_decided": 50000, "law_checked": 15000, "kind_UNKNOWN": 3000, "kind_DEFAULT": 15000,
              "errors_fired": 25000},
    "thorough": {"distinct_nontrivial": 140000, "bodies": 8000, "systematic_bodies": 2300, "ref_checked": 300000,
                 "ref_decided": 280000, "law_checked": 70000, "kind_UNKNOWN": 27000, "kind_DEFAULT": 118000,
                 "errors_fired": 110000},
}
NSHARDS = 16
WATCHDOG_S = {"quick": 900, "thorough": 7200}
LINES_PER_MODULE = 320
MIN_BUDGET = 200          # harness runs per minimisation
MIN_PER_CLASS = 6         # minimised violations per (oracle, output, direction, shape flags) class and shard
MIN_TOTAL = {"quick": 70, "thorough": 400}   # minimised violations per shard


# ---------------------------------------------------------------------------
# universe


class A:
    pass


class B(A):
    pass


class E(enum.Enum):
    X = 1
    Y = 2


class R0: pass  # noqa: E701
class R1: pass  # noqa: E701
class R2: pass  # noqa: E701
class R3: pass  # noqa: E701
class R4: pass  # noqa: E701
class R5: pass  # noqa: E701


SCOPE = {"A": A, "B": B, "E": E, "R0": R0, "R1": R1, "R2": R2, "R3": R3, "R4": R4, "R5": R5}
ENV = dict(SCOPE, Any=Any, Union=Union, Optional=Optional, Literal=Literal, List=List, Dict=Dict, sys=sys)
HEADER = (
    "import sys\n"
    "from typing import Any, Dict, List, Literal, Optional, Union\n"
    "from pyanalyze.extensions import evaluated, is_keyword, is_of_type, is_positional, is_provided, show_error\n"
)

# atoms: the argument expressions a call may use.  name -> (expression, annotation in caller(), members, class)
ATOMS: Dict[str, tuple] = {}
for _e in ["1", "2", "'a'", "'b'", "None", "True", "1.5", "E.X", "E.Y"]:
    ATOMS[_e] = (_e, None, None, "enum-literal" if _e.startswith("E.") else "literal")
for _n, _a in [("ci", "int"), ("cs", "str"), ("cb", "bool"), ("cf", "float"), ("co", "object"), ("ca", "A"),
               ("cB", "B"), ("ce", "E")]:
    ATOMS[_n] = (_n, _a, None, "class")
ATOMS["any_"] = ("any_", "Any", None, "any")
ATOMS["un"] = ("un", None, None, "any")
for _n, _a, _m in [
    ("u_is", "Union[int, str]", ["ci", "cs"]),
    ("u_oi", "Optional[int]", ["ci", "None"]),
    ("u_os", "Optional[str]", ["cs", "None"]),
    ("u_l12", "Literal[1, 2]", ["1", "2"]),
    ("u_lab", "Literal['a', 'b']", ["'a'", "'b'"]),
    ("u_isn", "Union[int, str, None]", ["ci", "cs", "None"]),
    ("u_1s", "Union[Literal[1], str]", ["1", "cs"]),
    ("u_Ai", "Union[A, int]", ["ca", "ci"]),
    ("u_Bs", "Union[B, str]", ["cB", "cs"]),
    ("u_ia", "Union[int, Any]", ["ci", "any_"]),
    ("u_e", "Literal[E.X, E.Y]", ["E.X", "E.Y"]),
    ("u_1an", "Union[Literal[1], Literal['a'], None]", ["1", "'a'", "None"]),
    ("u_bf", "Union[bool, float]", ["cb", "cf"]),
]:
    ATOMS[_n] = (_n, _a, _m, "union")
STARS = {"xs_i": ("List[int]", "ci"), "xs_a": ("List[Any]", "any_"), "xs_s": ("List[str]", "cs")}
DSTARS = {"kw_i": ("Dict[str, int]", "ci"), "kw_a": ("Dict[str, Any]", "any_"), "kw_s": ("Dict[str, str]", "cs")}
CALLER_DEF = "def caller(" + ", ".join(
    [f"{n}: {a}" if a else n for n, (_, a, _m, _c) in ATOMS.items() if _c in ("class", "any", "union")]
    + [f"{n}: {a}" for n, (a, _) in {**STARS, **DSTARS}.items()]
) + "):"

LIT_ATOMS = ["1", "2", "'a'", "'b'", "None", "True", "1.5", "E.X"]
CLASS_ATOMS = ["ci", "cs", "cb", "cf", "co", "ca", "cB", "ce"]
ANY_ATOMS = ["any_", "un"]
UNION_ATOMS = [n for n, v in ATOMS.items() if v[3] == "union"]
ANN_POOLS = {  # arguments compatible with a specific parameter annotation
    "int": (["1", "2", "True", "ci", "cb", "any_"], ["u_l12"]),
    "str": (["'a'", "'b'", "cs", "any_"], ["u_lab"]),
}
RET_TYPES = ["R0", "R1", "R2", "R3", "R4", "R5", "None", "Any", "int", "Optional[R0]", "Literal[1]"]
IS_TYPES = ["int", "int", "str", "str", "bool", "float", "object", "bytes", "A", "B", "E", "None", "None", "Any",
            "Literal[1]", "Literal['a']", "Literal[1, 2]", "Literal[True]", "Literal[E.X]", "Union[int, str]",
            "Optional[int]", "Optional[str]", "Union[A, str]"]
CMP_LITS = ["1", "1", "2", "'a'", "'a'", "'b'", "None", "None", "True", "E.X"]
CMP_OPS = ["==", "!=", "is", "is not"]
VER_CONDS = ["sys.version_info >= (3, 8)", "sys.version_info < (3, 9)", "sys.version_info >= (3, 14)",
             "sys.version_info < (3,)", "sys.version_info > (3, 0)", "sys.platform == 'linux'",
             "sys.platform != 'win32'", "sys.platform == 'darwin'", "sys.platform != 'linux'"]
KIND_FNS = ["is_provided", "is_positional", "is_keyword"]
DEFAULT_LITS = {"object": ["1", "2", "'a'", "None", "True"], "Any": ["1", "'a'", "None"], None: ["1", "'a'", "None"],
                "int": ["1", "2", "True"], "str": ["'a'", "'b'"]}

# ---------------------------------------------------------------------------
# Values (pyanalyze's own constructors; assignability is reused, not re-implemented)

_VAL: dict = {}


def type_value(text: str):
    from pyanalyze.annotations import type_from_runtime

    key = "T:" + text
    if key not in _VAL:
        _VAL[key] = type_from_runtime(eval(text, ENV))
    return _VAL[key]


def entry_value(entry: str):
    """entry = atom name, or 'T:<type text>' (a value known only by its type)."""
    from pyanalyze.value import AnySource, AnyValue, KnownValue

    if entry.startswith("T:"):
        return type_value(entry[2:])
    if entry.startswith("V:"):
        return _VAL[entry]
    if entry not in _VAL:
        expr, ann, members, cls = ATOMS[entry]
        if cls in ("literal", "enum-literal"):
            _VAL[entry] = KnownValue(eval(expr, ENV))
        elif ann is None:
            _VAL[entry] = AnyValue(AnySource.unannotated)
        else:
            _VAL[entry] = type_value(ann)
    return _VAL[entry]


def narrowed_entries(type_text: str) -> list:
    """entries for 'an Any argument narrowed to T': one per union member of T"""
    from pyanalyze.value import flatten_values

    vals = list(flatten_values(type_value(type_text)))
    if len(vals) == 1:
        return ["T:" + type_text]
    out = []
    for i, v in enumerate(vals):
        _VAL[f"V:{type_text}#{i}"] = v
        out.append(f"V:{type_text}#{i}")
    return out


def assignable(type_text: str, entry: str, exclude_any: bool) -> bool:
    from pyanalyze.value import CanAssignError

    cctx = harness.constructor_kwargs()["checker"]
    t, v = type_value(type_text), entry_value(entry)
    if exclude_any:
        with cctx.set_exclude_any():
            res = t.can_assign(v, cctx)
    else:
        res = t.can_assign(v, cctx)
    return not isinstance(res, CanAssignError)


def _split_top(s: str, sep: str) -> list:
    out, depth, cur, i, quote = [], 0, "", 0, None
    while i < len(s):
        ch = s[i]
        if quote:
            quote = None if ch == quote else quote
        elif ch in "'\"":
            quote = ch
        elif ch in "[(":
            depth += 1
        elif ch in "])":
            depth -= 1
        if not quote and depth == 0 and s.startswith(sep, i):
            out.append(cur)
            cur, i = "", i + len(sep)
            continue
        cur += ch
        i += 1
    return out + [cur]


def norm_members(s: str) -> frozenset:
    """union members of a printed Value; pyanalyze prints a union of literals merged as Literal[a, b]"""
    s = re.sub(r"Any\[[a-z_]+\]", "Any", harness.normalise_text(s))
    out = set()
    for part in _split_top(s, " | "):
        part = part.strip()
        if part.startswith("Literal[") and part.endswith("]"):
            for item in _split_top(part[8:-1], ", "):
                out.add("None" if item == "None" else f"Literal[{item}]")
        else:
            out.add(part)
    return frozenset(out)


def type_members(text: Optional[str]) -> frozenset:
    if text is None:
        return frozenset({"Any"})
    return norm_members(str(type_value(text)))


# ---------------------------------------------------------------------------
# rendering


def render_cond(c) -> str:
    t = c[0]
    if t == "isof":
        ex = "" if c[3] is None else f", exclude_any={c[3]}"
        return f"is_of_type({c[1]}, {c[2]}{ex})"
    if t == "cmp":
        return f"{c[1]} {c[2]} {c[3]}"
    if t == "kind":
        return f"{c[1]}({c[2]})"
    if t == "ver":
        return c[1]
    if t == "not":
        return f"not ({render_cond(c[1])})"
    return "(" + f" {t} ".join(render_cond(x) for x in c[1]) + ")"


def render_block(block, ind: int, out: list) -> None:
    pad = "    " * ind
    if not block:
        out.append(pad + "pass")
    for st in block:
        if st[0] == "ret":
            out.append(f"{pad}return {st[1]}")
        elif st[0] == "err":
            arg = f", argument={st[2]}" if st[2] else ""
            out.append(f'{pad}show_error("m_{st[1]}"{arg})')
        elif st[0] == "pass":
            out.append(pad + "pass")
        else:
            for i, (cond, blk) in enumerate(st[1]):
                out.append(f"{pad}{'if' if i == 0 else 'elif'} {render_cond(cond)}:")
                render_block(blk, ind + 1, out)
            if st[2] is not None:
                out.append(pad + "else:")
                render_block(st[2], ind + 1, out)


def render_params(params) -> str:
    parts, seen_slash, seen_star = [], False, False
    n_po = sum(1 for p in params if p[1] == "po")
    for i, (name, kind, default, ann) in enumerate(params):
        if kind == "ko" and not seen_star:
            parts.append("*")
            seen_star = True
        s = name if ann is None else f"{name}: {ann}"
        if kind == "va":
            s, seen_star = "*" + s, True
        elif kind == "vk":
            s = "**" + s
        elif default is not None:
            s += f" = {default}" if ann is not None else f"={default}"
        parts.append(s)
        if kind == "po" and i == n_po - 1:
            parts.append("/")
    return ", ".join(parts)


def render_fn(fn, name: str) -> str:
    ret = f" -> {fn['ret']}" if fn["ret"] else ""
    out = ["@evaluated", f"def {name}({render_params(fn['params'])}){ret}:"]
    render_block(fn["body"], 1, out)
    out.append(f"def {name}(*args, **kwargs): raise NotImplementedError")
    return "\n".join(out)


def render_call(call, name: str) -> str:
    parts = []
    for it in call:
        k = it[0]
        if k == "pos":
            parts.append(ATOMS[it[1]][0])
        elif k == "starlit":
            parts.append("*(" + "".join(ATOMS[a][0] + ", " for a in it[1]) + ")")
        elif k in ("starunk", "dstarunk"):
            parts.append(("*" if k == "starunk" else "**") + it[1])
        elif k == "kw":
            parts.append(f"{it[1]}={ATOMS[it[2]][0]}")
        else:
            parts.append("**{" + ", ".join(f'"{n}": {ATOMS[a][0]}' for n, a in it[1]) + "}")
    return f"{name}({', '.join(parts)})"


# ---------------------------------------------------------------------------
# binding: which argument reaches which parameter and with which *argument kind*
# (Python's call rules + the argument-kind table of the specification)

POS, KW, DEF, UNK = "POSITIONAL", "KEYWORD", "DEFAULT", "UNKNOWN"


def bind(fn, call):
    """-> {param: (mode, frozenset(possible kinds), entry)} or None if the call cannot bind.
    entry '?' = the document does not say which value the parameter has."""
    posq, kwq = [], {}
    star = dstar = None
    empty_star = empty_dstar = False
    for it in call:
        if it[0] == "pos":
            posq.append((it[1], "pos"))
        elif it[0] == "starlit":
            posq += [(a, "starlit") for a in it[1]]
            empty_star |= not it[1]
        elif it[0] == "starunk":
            star = STARS[it[1]][1]
        elif it[0] == "dstarunk":
            dstar = DSTARS[it[1]][1]
        else:
            pairs = [(it[1], it[2])] if it[0] == "kw" else it[1]
            empty_dstar |= not pairs
            for n, a in pairs:
                if n in kwq:
                    return None
                kwq[n] = (a, "kw" if it[0] == "kw" else "dstarlit")
    out, i, used = {}, 0, set()
    for name, kind, default, ann in fn["params"]:
        if kind in ("po", "pk") and i < len(posq):
            if name in kwq and kind == "pk":
                return None
            out[name] = (posq[i][1], frozenset({POS}), posq[i][0])
            i += 1
        elif kind == "va":
            extra, i = posq[i:], len(posq)
            kinds = {POS} if extra or star else ({POS, DEF} if empty_star else {DEF})
            out[name] = ("varargs", frozenset(kinds), "?")
        elif kind in ("pk", "ko") and name in kwq:
            out[name] = (kwq[name][1], frozenset({KW}), kwq[name][0])
            used.add(name)
        elif kind == "vk":
            extra = [n for n in kwq if n not in used]
            used.update(extra)
            kinds = {KW} if extra or dstar else ({KW, DEF} if empty_dstar else {DEF})
            out[name] = ("varkwargs", frozenset(kinds), "?")
        else:
            s = star is not None and kind in ("po", "pk")
            d = dstar is not None and kind in ("pk", "ko")
            if s and d:                      # "(with or without a default) in a call with both *args and **kwargs"
                out[name] = ("star+dstar-unknown", frozenset({UNK}), "?")
            elif s or d:
                mode = "star-unknown" if s else "dstar-unknown"
                if default is not None:      # "... with a default in a call with *args/**kwargs of unknown size"
                    out[name] = (mode, frozenset({UNK}), "?")
                else:                        # must come from the variadic argument
                    out[name] = (mode, frozenset({POS if s else KW}), star if s else dstar)
            elif default == "...":           # "If the default is `...`, the type is the parameter's annotation"
                out[name] = ("default-ellipsis", frozenset({DEF}), "T:" + ann if ann else "?")
            elif default is not None:        # "the type of the argument ... is Literal[X]"
                out[name] = ("default", frozenset({DEF}), default)
            else:
                return None
    if i < len(posq) or any(n not in used for n in kwq):
        return None
    return out


# ---------------------------------------------------------------------------
# REFERENCE INTERPRETER (from docs/type_evaluation.md).  Nondeterministic: returns every outcome the document permits.

KIND_TABLE = {"is_provided": {POS, KW}, "is_positional": {POS}, "is_keyword": {KW}}
FALL = "<fall-through>"


class Overflow(Exception):
    pass


class AnyBecomesUnion(Exception):
    """an Any argument matched a union type permissively: if it is narrowed it turns into a union argument, which the
    union-free reference does not model (unions are the union law's business)"""


def ref_isof(var, ttext, exclude_any, env):
    from pyanalyze.value import AnyValue

    cur = env[var]
    if cur == "?":
        return [(True, env), (False, env)]
    if not assignable(ttext, cur, exclude_any):
        return [(False, env)]
    out = [(True, env)]
    if isinstance(entry_value(cur), AnyValue) and not isinstance(type_value(ttext), AnyValue):
        # silent: is an Any argument narrowed by a permissive match?
        entries = narrowed_entries(ttext)
        if len(entries) > 1:
            raise AnyBecomesUnion()
        out.append((True, {**env, var: entries[0]}))
    return out


def ref_cond(c, env, kinds):
    """-> list of (truth value, environment)"""
    t = c[0]
    if t == "not":
        return [(not v, e) for v, e in ref_cond(c[1], env, kinds)]
    if t in ("and", "or"):
        stop = t == "or"
        live, out = [env], []
        for sub in c[1]:
            nxt = {}
            for e in live:
                for v, e2 in ref_cond(sub, e, kinds):
                    # silent: do narrowings made by an operand hold for the operands after it / for the outcome
                    for e3 in ([e2, e] if e2 != e else [e]):
                        if v == stop:
                            out.append((v, e3))
                        else:
                            nxt[_freeze(e3)] = e3
            live = list(nxt.values())
        return out + [(not stop, e) for e in live]
    if t == "ver":  # "Version and platform checks": evaluated by Python
        return [(bool(eval(c[1], {"sys": sys})), env)]
    if t == "kind":
        return [(v, env) for v in sorted({k in KIND_TABLE[c[1]] for k in kinds[c[2]]})]
    if t == "cmp":  # "equivalent to (not) is_of_type(arg, Literal[<constant>], exclude_any=True)"
        neg = c[2] in ("!=", "is not")
        return [(v != neg, e) for v, e in ref_isof(c[1], f"Literal[{c[3]}]", True, env)]
    return ref_isof(c[1], c[2], c[3] is not False, env)  # exclude_any defaults to True


def _freeze(env):
    return tuple(sorted(env.items()))


def ref_block(block, states, kinds, done):
    """states: set of (frozen env, fired messages).  Returns the states that fall out of the block."""
    for st in block:
        nxt = set()
        for env, errs in states:
            if st[0] == "ret":  # "until it reaches a return statement"
                done.add((st[1], errs))
            elif st[0] == "err":  # "Execution continues past the show_error() call as normal"
                nxt.add((env, errs + (f"m_{st[1]}",)))
            elif st[0] == "pass":
                nxt.add((env, errs))
            else:
                pending = {env}
                for cond, blk in st[1]:
                    still = set()
                    for e in pending:
                        for v, e2 in ref_cond(cond, dict(e), kinds):
                            # silent: which narrowings made while evaluating the condition hold in the branch taken
                            for e3 in {_freeze(e2), e}:
                                if v:
                                    outs = ref_block(blk, {(e3, errs)}, kinds, done)
                                    # silent: does a narrowing made for the branch survive the end of the `if`?
                                    nxt |= outs | {(env, er) for _, er in outs}
                                else:
                                    still.add(e3)
                    pending = still
                for e in pending:
                    outs = ref_block(st[2] or [], {(e, errs)}, kinds, done)
                    nxt |= outs | {(env, er) for _, er in outs}
        states = nxt
        if len(states) + len(done) > 200:
            raise Overflow()
    return states


def ref_eval(fn, binding):
    """-> set of permitted outcomes (frozenset of type members, sorted tuple of messages)"""
    kinds = {p: b[1] for p, b in binding.items()}
    env = {p: b[2] for p, b in binding.items()}
    done: set = set()
    for _, errs in ref_block(fn["body"], {(_freeze(env), ())}, kinds, done):
        done.add((FALL, errs))  # "Otherwise, return the type set in the ... return annotation, or Any"
    return {(type_members(fn["ret"] if r == FALL else r), tuple(sorted(errs))) for r, errs in done}


# ---------------------------------------------------------------------------
# observing the real evaluator

_REC: list = []


def _install_hook() -> None:
    from pyanalyze import type_evaluation as te

    if getattr(te.Evaluator.evaluate, "_c20", False):
        return
    orig = te.Evaluator.evaluate

    def evaluate(self, ctx):
        res = orig(self, ctx)
        try:
            v = ctx.can_assign_context
            if v._is_checking():
                stmt = v.node_context.nearest_enclosing(ast.stmt)
                _REC.append((getattr(stmt, "lineno", None), [e.message for e in res[1]],
                             {k: str(p) for k, p in ctx.positions.items()}))
        except Exception:  # noqa: BLE001 - observation must never change behaviour
            pass
        return res

    evaluate._c20 = True  # type: ignore[attr-defined]
    te.Evaluator.evaluate = evaluate  # type: ignore[method-assign]


def union_positions(call):
    """paths of union atoms in a call: list of (item index, sub index or None)"""
    out = []
    for i, it in enumerate(call):
        if it[0] == "pos" and ATOMS[it[1]][2]:
            out.append((i, None))
        elif it[0] == "kw" and ATOMS[it[2]][2]:
            out.append((i, None))
        elif it[0] == "starlit":
            out += [(i, j) for j, a in enumerate(it[1]) if ATOMS[a][2]]
        elif it[0] == "dstarlit":
            out += [(i, j) for j, (n, a) in enumerate(it[1]) if ATOMS[a][2]]
    return out


def _atom_at(call, path):
    it = call[path[0]]
    if it[0] == "pos":
        return it[1]
    if it[0] == "kw":
        return it[2]
    if it[0] == "starlit":
        return it[1][path[1]]
    return it[1][path[1]][1]


def _with_atom(call, path, atom):
    call = copy.deepcopy(call)
    it = call[path[0]]
    if it[0] == "pos":
        it[1] = atom
    elif it[0] == "kw":
        it[2] = atom
    elif it[0] == "starlit":
        it[1][path[1]] = atom
    else:
        it[1][path[1]][1] = atom
    return call


def member_calls(call):
    paths = union_positions(call)
    if not paths:
        return []
    out = []
    for combo in itertools.product(*[ATOMS[_atom_at(call, p)][2] for p in paths]):
        c = call
        for p, a in zip(paths, combo):
            c = _with_atom(c, p, a)
        out.append(c)
    return out


class Obs:
    __slots__ = ("members", "fired", "shown", "rejected", "positions", "other")

    def __repr__(self):
        return f"type={sorted(self.members) if self.members else None} fired={self.fired} shown={self.shown}" + (
            f" rejected={self.rejected}" if self.rejected else "")


_MSG = re.compile(r"^In call to [^:]*: (m_\d+(?:(?:; |, |\n)m_\d+)*)$")  # also: several messages joined into one diagnostic


def observe(cases):
    """cases: list of (fn, call).  Returns per case (Obs of the call, [Obs of each member-combination call])."""
    _install_hook()
    fnames: dict = {}
    lines = [HEADER]
    for fn, _ in cases:
        k = json.dumps(fn, sort_keys=True)
        if k not in fnames:
            fnames[k] = f"f{len(fnames)}"
            lines.append(render_fn(fn, fnames[k]))
    lines.append(CALLER_DEF)
    source = "\n".join(lines) + "\n"
    lineno = source.count("\n")
    body, where = [], []
    for fn, call in cases:
        name = fnames[json.dumps(fn, sort_keys=True)]
        row = []
        for c in [call, *member_calls(call)]:
            body.append(f"    reveal_type({render_call(c, name)})")
            lineno += 1
            row.append(lineno)
        where.append(row)
    source += "\n".join(body) + "\n"
    del _REC[:]
    with warnings.catch_warnings():
        warnings.simplefilter("ignore", SyntaxWarning)  # `x is 1`: the specification allows `is` with any Literal constant
        res = harness.run(source, extra_scope=SCOPE, check_attributes=False)
    if res.exception is not None:
        raise RuntimeError(f"pyanalyze raised {res.exception!r}") from res.exception
    rec: dict = {}
    for ln, msgs, positions in _REC:
        rec.setdefault(ln, []).append((msgs, positions))
    by_line = res.by_line()
    revealed = harness.reveal_types(res)

    def one(ln) -> Obs:
        o = Obs()
        o.members = norm_members(revealed[ln][0]) if ln in revealed else None
        o.shown, o.other = [], []
        for d in by_line.get(ln, []):
            m = _MSG.match(d.description)
            if d.code == "incompatible_call" and m:
                o.shown += re.findall(r"m_\d+", m.group(1))
            elif d.code != "reveal_type":
                o.other.append(d.short())
        r = rec.get(ln)
        o.fired = sorted(r[0][0]) if r else None
        o.positions = r[0][1] if r else None
        o.rejected = "; ".join(o.other) if o.other else ("" if r else "evaluator did not run")
        if not o.rejected and o.members is None:
            o.rejected = "no reveal_type diagnostic"
        o.shown.sort()
        return o

    return [(one(row[0]), [one(ln) for ln in row[1:]]) for row in where], source


# ---------------------------------------------------------------------------
# judging one case


def judge(fn, call, main: Obs, subs: list, stats=None):
    """-> list of violations (oracle, output, direction, detail, fn, call)"""
    out = []
    mcalls = member_calls(call)
    rows = [(call, main)] + list(zip(mcalls, subs))
    for c, o in rows:
        if o.rejected:
            if stats is not None:
                stats("rejected", o.rejected)
            if o.rejected == "evaluator did not run" and not o.other:
                out.append(("harness", "type", "evaluator-did-not-run", "no evaluation recorded and no diagnostic", fn, c))
            continue
        # shown diagnostics vs fired messages (all lines)
        if Counter(o.shown) != Counter(o.fired):
            sh, fi = Counter(o.shown), Counter(o.fired)
            if sh and not (sh - fi):
                direction = "shown-subset-of-fired"
            elif not sh:
                direction = "none-shown"
            else:
                direction = "shown-not-fired"
            out.append(("diagnostics", "errors", direction, f"fired {o.fired} but shown {o.shown}", fn, c))
    if main.rejected or any(o.rejected for o in subs):
        return out
    if mcalls and _any_member_permissive(fn, call):
        # whether a permissive match narrows the Any member is not specified, and the two sides of the law may
        # legitimately differ in it
        if stats is not None:
            stats("law-skipped-any-member-permissive", None)
    elif mcalls:
        # the union law, on real results only
        exp_t = frozenset().union(*[o.members for o in subs])
        exp_e = set().union(*[set(o.fired) for o in subs])
        if stats is not None:
            stats("law", None)
        if main.members != exp_t:
            out.append(("union-law", "type", _direction(main.members, exp_t),
                        f"union call gives {sorted(main.members)}, members give {sorted(exp_t)}", fn, call))
        if set(main.fired) != exp_e:
            out.append(("union-law", "errors", _direction(set(main.fired), exp_e),
                        f"union call fires {sorted(set(main.fired))}, members fire {sorted(exp_e)}", fn, call))
    for c, o in (rows[1:] if mcalls else rows):
        b = bind(fn, c)
        if b is None:
            if stats is not None:
                stats("ref-unbound", None)
            continue
        try:
            allowed = ref_eval(fn, b)
        except Overflow:
            if stats is not None:
                stats("ref-overflow", None)
            continue
        except AnyBecomesUnion:
            if stats is not None:
                stats("ref-skipped-any-becomes-union", None)
            continue
        if stats is not None:
            stats("ref", (b, allowed, o))
        real = (o.members, tuple(o.fired))
        if real in allowed:
            continue
        if len(allowed) > 1:
            # where the document leaves a value open pyanalyze may legitimately hold a union there, and then (by the
            # union rule) produces the union of several permitted outcomes
            inside = [a for a in allowed if a[0] <= real[0] and set(a[1]) <= set(real[1])]
            if inside and frozenset().union(*[a[0] for a in inside]) == real[0] and set().union(
                    *[set(a[1]) for a in inside]) == set(real[1]) and len(set(real[1])) == len(real[1]):
                if stats is not None:
                    stats("ref-undecided-mixture", None)
                continue
        best = min(sorted(allowed, key=repr), key=lambda a: (a[0] != real[0]) + (a[1] != real[1]))
        und = "" if len(allowed) == 1 else f" (one of {len(allowed)} permitted outcomes)"
        if best[0] != real[0]:
            out.append(("ref", "type", _direction(real[0], best[0]) if len(allowed) == 1 else "not-permitted",
                        f"specification gives {sorted(best[0])}{und}, pyanalyze reveals {sorted(real[0])}", fn, c))
        if best[1] != real[1]:
            out.append(("ref", "errors", _direction(set(real[1]), set(best[1])) if len(allowed) == 1 else "not-permitted",
                        f"specification fires {list(best[1])}{und}, pyanalyze fires {list(real[1])}", fn, c))
    return out


def _any_member_permissive(fn, call) -> bool:
    b = bind(fn, call) or {}
    with_any = {p for p, (_, _, entry) in b.items()
                if entry in ATOMS and ATOMS[entry][2] and any(ATOMS[m][3] == "any" for m in ATOMS[entry][2])}
    return any(n == "is_of_type[exclude_any=False]" and p in with_any for n, p in prims_of(fn["body"]))


def _direction(real, exp) -> str:
    real, exp = set(real), set(exp)
    if real > exp:
        return "extra"
    if real < exp:
        return "missing"
    return "different"


# ---------------------------------------------------------------------------
# minimisation and mechanism key


def prims_of(node, acc=None):
    """primitive conditions in a body/condition -> list of (primitive name, parameter or None)"""
    acc = [] if acc is None else acc
    if isinstance(node, list) and node and isinstance(node[0], str):
        t = node[0]
        if t == "isof":
            acc.append(("is_of_type" if node[3] is not False else "is_of_type[exclude_any=False]", node[1]))
        elif t == "cmp":
            acc.append(("compare", node[1]))
        elif t == "kind":
            acc.append((node[1], node[2]))
        elif t == "ver":
            acc.append(("version", None))
        elif t == "not":
            prims_of(node[1], acc)
        elif t in ("and", "or"):
            for x in node[1]:
                prims_of(x, acc)
        elif t == "if":
            for cond, blk in node[1]:
                prims_of(cond, acc)
                prims_of(blk, acc)
            prims_of(node[2] or [], acc)
        return acc
    if isinstance(node, list):
        for x in node:
            prims_of(x, acc)
    return acc


def cond_variants(c):
    t = c[0]
    if t == "not":
        yield c[1]
        for v in cond_variants(c[1]):
            yield ["not", v]
    elif t in ("and", "or"):
        for x in c[1]:
            yield x
        if len(c[1]) > 2:
            for i in range(len(c[1])):
                yield [t, c[1][:i] + c[1][i + 1:]]
        for i, x in enumerate(c[1]):
            for v in cond_variants(x):
                yield [t, c[1][:i] + [v] + c[1][i + 1:]]
    elif t == "cmp":
        if c[2] in ("==", "is"):
            yield ["isof", c[1], f"Literal[{c[3]}]", None]
        else:
            yield ["not", ["isof", c[1], f"Literal[{c[3]}]", None]]
            yield ["cmp", c[1], "==", c[3]]
    elif t == "isof" and c[3] is not None:
        yield ["isof", c[1], c[2], None]


def block_variants(block):
    for i, st in enumerate(block):
        rest = block[:i] + block[i + 1:]
        yield rest
        if st[0] == "if":
            for cond, blk in st[1]:
                yield block[:i] + blk + block[i + 1:]
            if st[2] is not None:
                yield block[:i] + st[2] + block[i + 1:]
                yield block[:i] + [["if", st[1], None]] + block[i + 1:]
            if len(st[1]) > 1 and st[2] is None:
                yield block[:i] + [["if", st[1][:-1], st[1][-1][1]]] + block[i + 1:]
            if len(st[1]) > 1:
                for j in range(len(st[1])):
                    yield block[:i] + [["if", st[1][:j] + st[1][j + 1:], st[2]]] + block[i + 1:]
            for j, (cond, blk) in enumerate(st[1]):
                for v in cond_variants(cond):
                    yield block[:i] + [["if", st[1][:j] + [[v, blk]] + st[1][j + 1:], st[2]]] + block[i + 1:]
                for v in block_variants(blk):
                    yield block[:i] + [["if", st[1][:j] + [[cond, v]] + st[1][j + 1:], st[2]]] + block[i + 1:]
            if st[2] is not None:
                for v in block_variants(st[2]):
                    yield block[:i] + [["if", st[1], v]] + block[i + 1:]
        elif st[0] == "err" and st[2]:
            yield block[:i] + [["err", st[1], None]] + block[i + 1:]


def canonical_call(fn, call, drop=()):
    """every explicitly passed parameter as a plain positional/keyword argument; nothing else"""
    b = bind(fn, call)
    if b is None:
        return None
    items, gap = [], False
    for name, kind, default, ann in fn["params"]:
        if name in drop or kind in ("va", "vk"):
            continue
        mode, _, entry = b[name]
        if mode not in ("pos", "kw", "starlit", "dstarlit"):
            gap = True
            continue
        if kind == "po" and gap:
            return None
        if kind == "ko" or gap:
            items.append(["kw", name, entry])
        else:
            items.append(["pos", entry])
    return items


def case_variants(fn, call):
    # call simplifications first (they canonicalise the argument kind), then the body, then the signature
    for i, it in enumerate(call):
        if it[0] in ("starunk", "dstarunk"):
            yield fn, call[:i] + call[i + 1:]
    cc = canonical_call(fn, call)
    if cc is not None and cc != call:
        yield fn, cc
    for i, it in enumerate(call):
        if it[0] == "starlit":
            yield fn, call[:i] + [["pos", a] for a in it[1]] + call[i + 1:]
        elif it[0] == "dstarlit":
            yield fn, call[:i] + [["kw", n, a] for n, a in it[1]] + call[i + 1:]
    for v in block_variants(fn["body"]):
        yield dict(fn, body=v), call
    if fn["ret"]:
        yield dict(fn, ret=None), call
    used = {p for _, p in prims_of(fn["body"]) if p} | {
        st[2] for st in _walk_stmts(fn["body"]) if st[0] == "err" and st[2]}
    for idx, (name, kind, default, ann) in enumerate(fn["params"]):
        if name not in used:
            nf = dict(fn, params=fn["params"][:idx] + fn["params"][idx + 1:])
            if bind(nf, call) is not None:
                yield nf, call
            cc = canonical_call(fn, call, drop=(name,))
            if cc is not None and bind(nf, cc) is not None:
                yield nf, cc
        if kind in ("po", "ko"):
            ps = [list(p) for p in fn["params"]]
            ps[idx][1] = "pk"
            if _params_ok(ps):
                nf = dict(fn, params=ps)
                if bind(nf, call) is not None:
                    yield nf, call
                cc = canonical_call(fn, call)
                if cc is not None:
                    cc2 = canonical_call(nf, cc)
                    if cc2 is not None:
                        yield nf, cc2
        if default is not None:
            ps = [list(p) for p in fn["params"]]
            ps[idx][2] = None
            if _params_ok(ps) and bind(dict(fn, params=ps), call) is not None:
                yield dict(fn, params=ps), call
        if ann not in (None, "object") and default != "...":
            ps = [list(p) for p in fn["params"]]
            ps[idx][3] = "object"
            yield dict(fn, params=ps), call
    # smaller unions / simpler atoms
    for p in union_positions(call):
        a = _atom_at(call, p)
        for sub in UNION_ATOMS:
            if len(ATOMS[sub][2]) < len(ATOMS[a][2]) and set(ATOMS[sub][2]) <= set(ATOMS[a][2]):
                yield fn, _with_atom(call, p, sub)


def _walk_stmts(block):
    for st in block:
        yield st
        if st[0] == "if":
            for _, blk in st[1]:
                yield from _walk_stmts(blk)
            yield from _walk_stmts(st[2] or [])


def _params_ok(params) -> bool:
    order = {"po": 0, "pk": 1, "va": 2, "ko": 3, "vk": 4}
    ks = [order[p[1]] for p in params]
    if ks != sorted(ks):
        return False
    seen_default = False
    for name, kind, default, ann in params:
        if kind in ("po", "pk"):
            if default is None and seen_default:
                return False
            seen_default |= default is not None
    return True


def size_of(fn, call) -> int:
    return len(json.dumps([fn, call]))


def violations_of(fn, call):
    obs, _ = observe([(fn, call)])
    return judge(fn, call, obs[0][0], obs[0][1])


def measure(fn, call):
    """lexicographic: canonical argument kinds first (plain positional, positional-or-keyword, is_of_type), then size"""
    return (sum(it[0] != "pos" for it in call), sum(p[1] != "pk" for p in fn["params"]),
            sum(1 for n, _ in prims_of(fn["body"]) if n != "is_of_type"), size_of(fn, call))


def minimise(fn, call, cls):
    """greedy descent on measure(): accept a variant that still shows a violation of class cls = (oracle, output, direction)"""
    budget = MIN_BUDGET
    improved = True
    while improved and budget > 0:
        improved = False
        cur = measure(fn, call)
        for nf, nc in case_variants(fn, call):
            if budget <= 0:
                break
            if not measure(nf, nc) < cur:
                continue
            budget -= 1
            try:
                vs = violations_of(nf, nc)
            except RuntimeError:
                continue
            hit = [v for v in vs if same_class(v, cls) and v[5] == nc]
            if hit:
                fn, call, improved = nf, nc, True
                if cls[2] == "not-permitted":  # an undecided case may become a decided one while shrinking
                    cls = hit[0][:3]
                break
    return fn, call, cls, budget > 0


def same_class(v, cls) -> bool:
    # an undecided case ("not-permitted") may turn into a decided one, showing in either output, while it shrinks
    if cls[0] == "ref":  # the direction of a disagreement with the reference is incidental
        return v[0] == "ref" and (v[1] == cls[1] or cls[2] == "not-permitted")
    return v[:3] == cls[:3]


def _always_returns(block) -> bool:
    for st in block:
        if st[0] == "ret":
            return True
        if st[0] == "if" and st[2] is not None and _always_returns(st[2]) and all(_always_returns(b) for _, b in st[1]):
            return True
    return False


def _lost_narrowing_shape(block) -> bool:
    """an `if` that may return and may fall through, followed in the same block by another test of the same parameter"""
    for i, st in enumerate(block):
        if st[0] != "if":
            continue
        vars_here = {p for _, p in prims_of([st]) if p}
        later = {p for _, p in prims_of(block[i + 1:]) if p}
        if vars_here & later and any(x[0] == "ret" for x in _walk_stmts([st])) and not _always_returns([st]):
            return True
        if any(_lost_narrowing_shape(b) for _, b in st[1]) or _lost_narrowing_shape(st[2] or []):
            return True
    return False


def _boolop_shape(node) -> bool:
    """an and/or in which a value test of a parameter is followed by a further operand"""
    if isinstance(node, list) and node and isinstance(node[0], str):
        if node[0] in ("and", "or"):
            if any(x[0] in ("isof", "cmp") or (x[0] == "not" and x[1][0] in ("isof", "cmp")) for x in node[1][:-1]):
                return True
            return any(_boolop_shape(x) for x in node[1])
        if node[0] == "not":
            return _boolop_shape(node[1])
        if node[0] == "if":
            return any(_boolop_shape(c) or _boolop_shape(b) for c, b in node[1]) or _boolop_shape(node[2] or [])
        return False
    return isinstance(node, list) and any(_boolop_shape(x) for x in node)


def _correlated_shape(fn, b) -> bool:
    """a parameter bound to a union argument is tested, and ANOTHER parameter is value-tested at least twice (the
    first test narrows it for some members of the union only, the second depends on that narrowing)"""
    tests = collections.Counter()
    union_tested = set()
    for node in _walk_conds(fn["body"]):
        if node[0] not in ("isof", "cmp"):
            continue
        var = node[1]
        tests[var] += 1
        entry = b.get(var, (None, None, "?"))[2]
        if entry in ATOMS and ATOMS[entry][2]:
            union_tested.add(var)
    return any(n >= 2 and any(u != v for u in union_tested) for v, n in tests.items())


def _overlap_shape(fn, call, b) -> bool:
    """some is_of_type/compare on a union argument: a member matches, another does not match but 'overlaps' T"""
    from pyanalyze.value import is_overlapping

    cctx = harness.constructor_kwargs()["checker"]
    for node in _walk_conds(fn["body"]):
        if node[0] == "isof":
            var, ttext, ex = node[1], node[2], node[3] is not False
        elif node[0] == "cmp":
            var, ttext, ex = node[1], f"Literal[{node[3]}]", True
        else:
            continue
        entry = b.get(var, (None, None, "?"))[2]
        members = ATOMS[entry][2] if entry in ATOMS else None
        if not members:
            continue
        ok = [assignable(ttext, m, ex) for m in members]
        if any(ok) and any(not o and is_overlapping(type_value(ttext), entry_value(m), cctx) for o, m in zip(ok, members)):
            return True
    return False


def _walk_conds(node):
    if isinstance(node, list) and node and isinstance(node[0], str):
        if node[0] in ("isof", "cmp", "kind", "ver"):
            yield node
        elif node[0] == "not":
            yield from _walk_conds(node[1])
        elif node[0] in ("and", "or"):
            for x in node[1]:
                yield from _walk_conds(x)
        elif node[0] == "if":
            for c, blk in node[1]:
                yield from _walk_conds(c)
                yield from _walk_conds(blk)
            yield from _walk_conds(node[2] or [])
    elif isinstance(node, list):
        for x in node:
            yield from _walk_conds(x)


def mechanism_key(v) -> str:
    """(oracle, primitive(s) left after minimisation, argument kind of the tested parameter(s), class, output:direction);
    three mechanisms recognised by the shape of the minimal witness get one name each, whichever output shows them"""
    oracle, output, direction, detail, fn, call = v
    if oracle in ("diagnostics", "harness"):
        return f"{oracle}|{direction}|{output}"
    prims = prims_of(fn["body"])
    b = bind(fn, call) or {}
    names = sorted({n for n, _ in prims}) or ["no-condition"]
    modes = sorted({b[p][0] for _, p in prims if p in b}) or ["-"]
    if oracle == "union-law" and direction == "extra" and _lost_narrowing_shape(fn["body"]):
        # statements after a partially matching `if` that returned in one branch run again with the un-narrowed union
        return "union-law|narrowing-lost-after-returning-if|extra"
    if oracle == "union-law" and direction == "extra" and _overlap_shape(fn, call, b):
        # the positive branch of a partial match is narrowed by intersection (constrain_value) instead of keeping the
        # matching members, so a member that did NOT match (float vs int, Any under exclude_any) re-enters it
        return "union-law|positive-branch-keeps-nonmatching-overlapping-member|extra"
    if oracle == "union-law" and direction in ("missing", "different") and _correlated_shape(fn, b):
        # variable maps are kept per variable: the narrowing of x made while y was one member of its union (inside an
        # and/or, or in an earlier branch) is forgotten - or applied to all members - once y's members are re-united,
        # so a later test of x is decided for the whole union at once
        return "union-law|narrowing-of-one-parameter-correlated-with-the-member-of-another|missing-or-different"
    if oracle == "union-law" and direction in ("missing", "different") and _boolop_shape(fn["body"]):
        # a decisive later operand of and/or discards the members split off by an earlier partially matching operand
        return "union-law|boolop-discards-earlier-partial-match|missing-or-different"
    if oracle == "ref" and modes == ["default-ellipsis"] and all(n.startswith(("is_of_type", "compare")) for n in names):
        # the value of an omitted `= ...` parameter is not the annotation
        return "ref|is_of_type/compare|default-ellipsis|value-is-not-the-annotation"
    conn = sorted({c for c in _connectives(fn["body"])})
    any_arg = any(p in b and b[p][2] in ATOMS and ATOMS[b[p][2]][3] == "any" for _, p in prims)
    if oracle == "union-law":
        return f"union-law|{'+'.join(conn + names)}|{'+'.join(modes)}|{output}:{direction}"
    return f"ref|{'+'.join(conn + names)}|{'+'.join(modes)}|{'any' if any_arg else '-'}|{output}"


def _connectives(node):
    if isinstance(node, list) and node and isinstance(node[0], str):
        if node[0] == "not":
            yield "not"
            yield from _connectives(node[1])
        elif node[0] in ("and", "or"):
            yield node[0]
            for x in node[1]:
                yield from _connectives(x)
        elif node[0] == "if":
            for c, blk in node[1]:
                yield from _connectives(c)
                yield from _connectives(blk)
            yield from _connectives(node[2] or [])
    elif isinstance(node, list):
        for x in node:
            yield from _connectives(x)


def describe(v) -> str:
    oracle, output, direction, detail, fn, call = v
    src = render_fn(fn, "f").split("\ndef f(*args")[0].replace("\n", " ⏎ ")
    return f"{src} ;; {render_call(call, 'f')}: {detail}"


# ---------------------------------------------------------------------------
# generation


def gen_cond(rng, fn, depth=0):
    params = fn["params"]
    plain = [p for p in params if p[1] not in ("va", "vk")]
    r = rng.random()
    if depth < 2 and r < 0.22:
        op = rng.choice(["and", "or"])
        return [op, [gen_cond(rng, fn, depth + 1) for _ in range(rng.choice([2, 2, 3]))]]
    if depth < 2 and r < 0.34:
        return ["not", gen_cond(rng, fn, depth + 1)]
    r = rng.random()
    if r < 0.40:
        p = rng.choice(plain)
        pool = IS_TYPES
        if p[3] in ("int", "str") and rng.random() < 0.6:
            pool = {"int": ["int", "Literal[1]", "Literal[1, 2]", "bool", "Literal[True]", "object", "Optional[int]"],
                    "str": ["str", "Literal['a']", "object", "Optional[str]", "Union[int, str]"]}[p[3]]
        return ["isof", p[0], rng.choice(pool), rng.choice([None, None, None, True, False, False])]
    if r < 0.62:
        p = rng.choice(plain)
        lits = CMP_LITS
        if p[3] == "int":
            lits = ["1", "2", "True"]
        elif p[3] == "str":
            lits = ["'a'", "'b'"]
        return ["cmp", p[0], rng.choice(CMP_OPS), rng.choice(lits)]
    if r < 0.92:
        return ["kind", rng.choice(KIND_FNS), rng.choice(params)[0]]
    return ["ver", rng.choice(VER_CONDS)]


def gen_block(rng, fn, depth, counter, force_if=False):
    n = rng.choice([1, 1, 2, 2, 3]) if depth else rng.choice([1, 2, 2, 3, 3])
    block = []
    for i in range(n):
        r = rng.random()
        if (force_if and i == 0) or (depth < 3 and r < (0.55 if depth == 0 else 0.30)):
            branches = [[gen_cond(rng, fn), gen_block(rng, fn, depth + 1, counter)]]
            while rng.random() < 0.25 and len(branches) < 3:
                branches.append([gen_cond(rng, fn), gen_block(rng, fn, depth + 1, counter)])
            orelse = gen_block(rng, fn, depth + 1, counter) if rng.random() < 0.5 else None
            block.append(["if", branches, orelse])
        elif r < 0.75:
            block.append(["ret", rng.choice(RET_TYPES)])
            break
        elif r < 0.93:
            arg = None
            if rng.random() < 0.15:
                arg = rng.choice(fn["params"])[0]
            block.append(["err", counter[0], arg])
            counter[0] += 1
        else:
            block.append(["pass"])
    return block


def gen_fn(rng):
    n = rng.choice([1, 1, 2, 2, 2, 3, 3])
    kinds = sorted((rng.choice(["po", "pk", "pk", "pk", "ko"]) for _ in range(n)), key=["po", "pk", "ko"].index)
    names = ["x", "y", "z"][:n]
    params = []
    seen_default = False
    for name, kind in zip(names, kinds):
        ann = rng.choice(["object"] * 6 + [None, "Any", "int", "str"])
        has_default = rng.random() < (0.75 if seen_default else 0.4)
        if kind in ("po", "pk"):
            has_default = has_default or seen_default
            seen_default |= has_default
        default = None
        if has_default:
            default = "..." if rng.random() < 0.3 else rng.choice(DEFAULT_LITS[ann])
        params.append([name, kind, default, ann])
    if rng.random() < 0.22:
        idx = max([i for i, p in enumerate(params) if p[1] in ("po", "pk")], default=-1) + 1
        params.insert(idx, ["args", "va", None, "object"])
    if rng.random() < 0.22:
        params.append(["kwargs", "vk", None, "object"])
    fn = {"params": params, "ret": rng.choice([None, None, "R5", "R4", "None", "int"]), "body": None}
    fn["body"] = gen_block(rng, fn, 0, [0], force_if=True)
    return fn


def pick_atom(rng, ann, allow_union: bool):
    if ann in ANN_POOLS:
        plain, unions = ANN_POOLS[ann]
        if allow_union and rng.random() < 0.3:
            return rng.choice(unions)
        return rng.choice(plain)
    r = rng.random()
    if allow_union and r < 0.35:
        return rng.choice(UNION_ATOMS)
    if r < 0.65:
        return rng.choice(LIT_ATOMS)
    if r < 0.88:
        return rng.choice(CLASS_ATOMS)
    return rng.choice(ANY_ATOMS)


def gen_call(rng, fn, max_unions: int):
    params = fn["params"]
    has_va = any(p[1] == "va" for p in params)
    has_vk = any(p[1] == "vk" for p in params)
    for _ in range(20):
        unions = [max_unions]

        def atom(ann="object"):
            a = pick_atom(rng, ann, unions[0] > 0)
            if ATOMS[a][2]:
                unions[0] -= 1
            return a

        pc = [p for p in params if p[1] in ("po", "pk")]
        k = rng.randint(0, len(pc))
        positional = [atom(p[3]) for p in pc[:k]]
        if has_va and k == len(pc):
            positional += [atom() for _ in range(rng.choice([0, 0, 1, 2]))]
        split = len(positional)
        starlit = None
        if rng.random() < 0.22:
            split = rng.randint(0, len(positional))
            starlit = positional[split:]
        elif rng.random() < 0.04:
            starlit = []
        items = [["pos", a] for a in positional[:split]]
        if starlit is not None:
            items.append(["starlit", starlit])
        use_star = rng.random() < 0.16 and (k < len(pc) or has_va)
        use_dstar = rng.random() < 0.16
        if use_star:
            items.append(["starunk", rng.choice(list(STARS))])
        kws, dlit = [], []
        for p in pc[k:] + [p for p in params if p[1] == "ko"]:
            if p[1] == "po":
                continue
            r = rng.random()
            omit_ok = p[2] is not None or (use_dstar) or (use_star and p[1] == "pk")
            if use_star and p[1] == "pk":
                continue  # pyanalyze rejects a keyword for a parameter *xs may also reach
            if omit_ok and r < 0.45:
                continue
            (dlit if rng.random() < 0.2 else kws).append([p[0], atom(p[3])])
        if has_vk:
            for w in ["w1", "w2"][: rng.choice([0, 0, 1, 2])]:
                (dlit if rng.random() < 0.3 else kws).append([w, atom()])
        tail = [["kw", n, a] for n, a in kws]
        if dlit or rng.random() < 0.03:
            tail.append(["dstarlit", dlit])
        rng.shuffle(tail)
        items += tail
        if use_dstar:
            items.append(["dstarunk", rng.choice(list(DSTARS))])
        b = bind(fn, items)
        if b is None:
            continue
        if use_dstar and not (has_vk or any(m[0] in ("dstar-unknown", "star+dstar-unknown") for m in b.values())):
            continue
        if len(member_calls(items)) > 9:
            continue
        return items
    return None


def gen_case_set(rng, n_calls: int):
    fn = gen_fn(rng)
    calls, seen = [], set()
    for j in range(n_calls * 2):
        if len(calls) >= n_calls:
            break
        c = gen_call(rng, fn, rng.choice([0, 0, 1, 1, 1, 2]))
        if c is None:
            continue
        k = json.dumps(c)
        if k not in seen:
            seen.add(k)
            calls.append(c)
    return fn, calls


# ---------------------------------------------------------------------------
# running


def _stats(ctx):
    def stats(kind, payload):
        if kind == "rejected":
            ctx.count("lines_rejected")
            ctx.histo("rejected_reason", re.sub(r"'[^']*'|\d+", "N", payload)[:70])
        elif kind == "law":
            ctx.count("law_checked")
        elif kind == "ref":
            b, allowed, o = payload
            ctx.count("ref_checked")
            ctx.count("ref_decided" if len(allowed) == 1 else "ref_undecided")
            ctx.count("errors_fired", len(o.fired))
            for p, (mode, kinds, entry) in b.items():
                ctx.histo("argument_mode", mode)
                ctx.count("kind_" + "/".join(sorted(kinds)))
                if entry in ATOMS:
                    ctx.histo("argument_class", ATOMS[entry][3])
        else:
            ctx.count(kind.replace("-", "_"))
    return stats


def process(ctx, cases, minimised_per_class: dict) -> None:
    """cases: list of (fn, call) sharing few functions"""
    try:
        obs, source = observe(cases)
    except RuntimeError as e:
        ctx.violation("harness|exception", str(e)[:300], {"cases": [[f, c] for f, c in cases[:40]]})
        return
    stats = _stats(ctx)
    per_fn: dict = {}
    for (fn, call), (main, subs) in zip(cases, obs):
        ctx.count("evaluations", 1 + len(subs))
        ctx.count("union_calls" if subs else "plain_calls")
        if subs:
            ctx.histo("member_combinations", str(len(subs)))
        for it in call:
            ctx.histo("call_item", it[0] + ("-empty" if it[0] in ("starlit", "dstarlit") and not it[1] else ""))
        vs = judge(fn, call, main, subs, stats)
        fk = json.dumps(fn, sort_keys=True)
        outcomes = per_fn.setdefault(fk, (fn, set(), []))
        if not main.rejected:
            outcomes[1].add((main.members, tuple(main.fired)))
            outcomes[2].append(call)
        for v in vs:
            ctx.count("violations_raw")
            ctx.histo("violation_class", "|".join(v[:3]))
            # cap per (class, cheap shape flags): a flood of one mechanism must not use up the budget of another
            cls = (*v[:3], _lost_narrowing_shape(fn["body"]), _boolop_shape(fn["body"]),
                   tuple(sorted({m[0] for m in (bind(fn, v[5]) or {}).values()} & {"default-ellipsis"})))
            n = minimised_per_class.get(cls, 0)
            minimised_per_class[cls] = n + 1
            if v[0] == "diagnostics" and n >= 2:
                ctx.violation(mechanism_key(v), describe(v), witness_of(v))
            elif n >= ctx.pick(MIN_PER_CLASS, 2 * MIN_PER_CLASS) or ctx.counters.get("violations_minimised", 0) >= MIN_TOTAL[ctx.tier]:
                ctx.count("violations_not_minimised")
            else:
                record(ctx, v)
    for fk, (fn, outs, calls) in per_fn.items():
        prims = prims_of(fn["body"])
        for name, _ in prims:
            ctx.histo("primitive", name)
        ctx.histo("distinct_outcomes_per_body", str(min(len(outs), 6)))
        if len(prims) >= 2 and len(outs) >= 2:
            ctx.count("bodies_nontrivial")
            src = render_fn(fn, "f")
            for c in calls:
                ctx.nontrivial((src, render_call(c, "f")))
    if len(ctx.samples) < 2 and cases:
        fn, call = cases[0]
        ctx.sample({"function": render_fn(fn, "f").split("\ndef f(*args")[0], "call": render_call(call, "f"),
                    "observed": repr(obs[0][0])})


def record(ctx, v) -> None:
    ctx.count("violations_minimised")
    w, complete = minimal_violation(v)
    if not complete:
        ctx.count("minimisation_budget_exhausted")
    ctx.violation(mechanism_key(w), describe(w), witness_of(w))


def witness_of(v) -> dict:
    # fn/call as JSON text: core.jsonable() flattens anything nested deeper than 8 levels
    return {"fn": json.dumps(v[4]), "call": json.dumps(v[5]), "class": list(v[:3]),
            "source": render_fn(v[4], "f").split("\ndef f(*args")[0] + "\n" + render_call(v[5], "f")}


def minimal_violation(v):
    try:
        mfn, mcall, cls, complete = minimise(v[4], v[5], v[:3])
        vs = [w for w in violations_of(mfn, mcall) if same_class(w, cls) and w[5] == mcall]
    except RuntimeError:
        vs, complete = [], False
    return (vs[0] if vs else v), complete


# ---------------------------------------------------------------------------
# systematic part (identical under every seed)

SYS_TYPES = ["int", "str", "None", "float", "bool", "object", "Literal[1]", "Literal['a']", "Optional[int]",
             "Union[int, str]"]
SYS_ATOMS = UNION_ATOMS + ["any_"]


def _fn1(body, ret=None, ann="object"):
    return {"params": [["x", "pk", None, ann]], "ret": ret, "body": body}


def systematic_cases():
    """yields (tag, fn, [calls])"""
    # S1: every primitive value test, both polarities, against every atom
    conds = []
    for t in dict.fromkeys(IS_TYPES):
        conds += [["isof", "x", t, None], ["isof", "x", t, False]]
    for lit in dict.fromkeys(CMP_LITS):
        conds += [["cmp", "x", op, lit] for op in CMP_OPS]
    every = [[["pos", a]] for a in ATOMS]
    for c in conds:
        for c2 in (c, ["not", c]):
            yield "S1", _fn1([["if", [[c2, [["err", 0, None], ["ret", "R0"]]]], None], ["ret", "R1"]]), every
    # S2: argument kinds, every small signature x generated call shapes
    probe = lambda p: [  # noqa: E731
        ["if", [[["kind", "is_provided", p], [["if", [[["kind", "is_positional", p], [["ret", "R0"]]],
                                                       [["kind", "is_keyword", p], [["ret", "R1"]]]], [["ret", "R2"]]]]]],
         [["if", [[["kind", "is_positional", p], [["ret", "R3"]]]], None],
          ["if", [[["kind", "is_keyword", p], [["ret", "R4"]]]], None], ["ret", "R5"]]]]
    rng = random.Random("C20/systematic")
    for n in (1, 2):
        for kinds in itertools.product(["po", "pk", "ko"], repeat=n):
            if list(kinds) != sorted(kinds, key=["po", "pk", "ko"].index):
                continue
            for defaults in itertools.product([None, "1", "..."], repeat=n):
                for va, vk in itertools.product([False, True], repeat=2):
                    params = [[nm, k, d, "object"] for nm, k, d in zip("xy", kinds, defaults)]
                    if va:
                        idx = max([i for i, p in enumerate(params) if p[1] in ("po", "pk")], default=-1) + 1
                        params.insert(idx, ["args", "va", None, "object"])
                    if vk:
                        params.append(["kwargs", "vk", None, "object"])
                    if not _params_ok(params):
                        continue
                    for p in params:
                        fn = {"params": params, "ret": None, "body": probe(p[0])}
                        calls, seen = [], set()
                        for _ in range(60):
                            c = gen_call(rng, fn, 0)
                            if c is not None and json.dumps(c) not in seen and len(calls) < 14:
                                seen.add(json.dumps(c))
                                calls.append(c)
                        yield "S2", fn, calls
    # S3: two value tests of the same (union / Any) argument: in sequence, nested, under and/or
    calls = [[["pos", a]] for a in SYS_ATOMS]
    for t1, t2 in itertools.product(SYS_TYPES, repeat=2):
        i1, i2 = ["isof", "x", t1, None], ["isof", "x", t2, None]
        yield "S3seq", _fn1([["if", [[i1, [["ret", "R0"]]]], None], ["if", [[i2, [["ret", "R1"]]]], None],
                             ["err", 0, None], ["ret", "R2"]]), calls
        yield "S3nest", _fn1([["if", [[i1, [["if", [[i2, [["ret", "R0"]]]], [["err", 0, None], ["ret", "R1"]]]]]],
                               None], ["ret", "R2"]]), calls
    anys = [[["pos", a]] for a in ("any_", "un", "u_ia")]
    for t1, t2, t3 in itertools.product(SYS_TYPES, SYS_TYPES, ["None", "int", "str"]):
        for e1, e2 in ((False, False), (False, None)):
            i1, i2, i3 = ["isof", "x", t1, e1], ["isof", "x", t2, e2], ["isof", "x", t3, False]
            yield "S3any", _fn1([["if", [[i1, [["if", [[i2, [["ret", "R0"]]]], None]]]], None],
                                 ["if", [[i3, [["ret", "R1"]]]], None], ["ret", "R2"]]), anys
    for t1, t2, t3 in itertools.product(["int", "bool", "str", "object", "B"], repeat=3):
        for op1, op2, e2, e3 in itertools.product(("and", "or"), ("and", "or"), (False, None), (False, None)):
            cond = [op2, [[op1, [["isof", "x", t1, False], ["isof", "x", t2, e2]]], ["isof", "x", t3, e3]]]
            yield "S3anybool", _fn1([["if", [[cond, [["ret", "R0"]]]], None], ["ret", "R1"]]), anys[:1]
    for t1, t2 in itertools.product(SYS_TYPES[:8], repeat=2):
        for op in ("and", "or"):
            for n1, n2 in itertools.product([False, True], repeat=2):
                a = ["not", ["isof", "x", t1, None]] if n1 else ["isof", "x", t1, None]
                b = ["not", ["isof", "x", t2, None]] if n2 else ["isof", "x", t2, None]
                for t3 in (t1, t2):
                    inner = ["if", [[["isof", "x", t3, None], [["ret", "R0"]]]], [["err", 0, None], ["ret", "R1"]]]
                    yield "S3bool", _fn1([["if", [[[op, [a, b]], [inner]]], [["err", 1, None], ["ret", "R2"]]]]), calls


def run_systematic(ctx, minimised) -> None:
    pending, lines = [], 0
    for i, (tag, fn, calls) in enumerate(systematic_cases()):
        if not ctx.mine(i):
            continue
        ctx.count("systematic_bodies")
        ctx.histo("systematic_suite", tag)
        for c in calls:
            pending.append((fn, c))
            lines += 1 + len(member_calls(c))
        if lines >= LINES_PER_MODULE:
            process(ctx, pending, minimised)
            pending, lines = [], 0
    if pending:
        process(ctx, pending, minimised)


def shard(ctx) -> None:
    n_bodies = ctx.pick(1600, 16000)
    n_calls = 25
    pending, lines = [], 0
    minimised: dict = {}
    run_systematic(ctx, minimised)
    for i in range(n_bodies):
        if not ctx.mine(i):
            continue
        rng = random.Random(f"C20/{ctx.seed}/{i}")
        fn, calls = gen_case_set(rng, n_calls)
        ctx.count("bodies")
        ctx.histo("signature", ",".join(p[1] + ("=" if p[2] else "") for p in fn["params"]))
        for c in calls:
            pending.append((fn, c))
            lines += 1 + len(member_calls(c))
        if lines >= LINES_PER_MODULE:
            process(ctx, pending, minimised)
            pending, lines = [], 0
    if pending:
        process(ctx, pending, minimised)


def replay(witness):
    fn, call = witness["fn"], witness["call"]
    if isinstance(fn, str):
        fn, call = json.loads(fn), json.loads(call)
    cls = tuple(witness.get("class") or ())
    vs = violations_of(fn, call)
    vs = [v for v in vs if v[5] == call] or vs
    if cls:
        vs = sorted(vs, key=lambda v: v[:3] != cls)
    for v in vs:
        w, _ = minimal_violation(v)
        return mechanism_key(w), describe(w)
    return None
