"""Enumeration of def signatures and call shapes (shared by C05, C07, C13)."""
from __future__ import annotations

import itertools
from dataclasses import dataclass
from typing import Iterator, Optional, Sequence

PO, PK, VA, KO, VK = "po", "pk", "va", "ko", "vk"
NAMES = "abcdef"


@dataclass(frozen=True)
class Param:
    name: str
    kind: str
    default: bool = False


@dataclass(frozen=True)
class Sig:
    params: tuple

    def shape(self) -> str:
        """kinds+defaults string, e.g. 'po,pk=,*,ko,**'."""
        out = []
        for p in self.params:
            if p.kind == VA:
                out.append("*")
            elif p.kind == VK:
                out.append("**")
            else:
                out.append(p.kind + ("=" if p.default else ""))
        return ",".join(out)

    def names(self) -> list:
        return [p.name for p in self.params if p.kind not in (VA, VK)]

    def render_params(self, annotations: Optional[dict] = None, defaults: Optional[dict] = None) -> str:
        parts = []
        seen_slash = False
        n_po = sum(1 for p in self.params if p.kind == PO)
        seen_star = False
        for i, p in enumerate(self.params):
            ann = f": {annotations[p.name]}" if annotations and p.name in annotations else ""
            dflt = (defaults or {}).get(p.name, "0")
            if p.kind == VA:
                parts.append(f"*{p.name}{ann}")
                seen_star = True
                continue
            if p.kind == VK:
                parts.append(f"**{p.name}{ann}")
                continue
            if p.kind == KO and not seen_star:
                parts.append("*")
                seen_star = True
            if p.default:
                parts.append(f"{p.name}{ann} = {dflt}" if ann else f"{p.name}={dflt}")
            else:
                parts.append(f"{p.name}{ann}")
            if p.kind == PO and sum(1 for q in self.params[: i + 1] if q.kind == PO) == n_po:
                parts.append("/")
        return ", ".join(parts)

    def render(self, fname: str, body: str = "pass", **kw) -> str:
        return f"def {fname}({self.render_params(**kw)}): {body}"


def enumerate_sigs(max_params: int, *, min_params: int = 0) -> Iterator[Sig]:
    """Every legal signature with at most max_params parameters (incl. *args/**kwargs)."""
    for n_po in range(0, max_params + 1):
        for n_pk in range(0, max_params + 1 - n_po):
            for has_va in (False, True):
                for n_ko in range(0, max_params + 1 - n_po - n_pk - has_va):
                    for has_vk in (False, True):
                        total = n_po + n_pk + has_va + n_ko + has_vk
                        if total > max_params or total < min_params:
                            continue
                        n_pos = n_po + n_pk
                        # positional defaults are a suffix
                        for n_def in range(0, n_pos + 1):
                            for ko_defs in itertools.product((False, True), repeat=n_ko):
                                params = []
                                names = iter(NAMES)
                                for i in range(n_pos):
                                    kind = PO if i < n_po else PK
                                    params.append(Param(next(names), kind, i >= n_pos - n_def))
                                if has_va:
                                    params.append(Param("args", VA))
                                for d in ko_defs:
                                    params.append(Param(next(names), KO, d))
                                if has_vk:
                                    params.append(Param("kw", VK))
                                yield Sig(tuple(params))


@dataclass(frozen=True)
class Call:
    npos: int
    kws: tuple  # explicit keyword names
    star: Optional[int]  # length of *(...) literal or None
    dstar: Optional[tuple]  # keys of **{...} literal or None

    def render(self, fname: str) -> str:
        args = [str(i + 1) for i in range(self.npos)]
        if self.star is not None:
            inner = "".join(f"{10 + i}, " for i in range(self.star))
            args.append(f"*({inner})")
        args += [f"{k}={20 + i}" for i, k in enumerate(self.kws)]
        if self.dstar is not None:
            inner = ", ".join(f"{k!r}: {30 + i}" for i, k in enumerate(self.dstar))
            args.append("**{" + inner + "}")
        return f"{fname}({', '.join(args)})"

    def shape(self) -> str:
        return f"p{self.npos}|k{len(self.kws)}|s{self.star}|d{None if self.dstar is None else len(self.dstar)}"


def call_shapes(names: Sequence[str], *, max_pos: int, max_kw: int, max_star: int, max_dstar: int,
                foreign: str = "zz") -> Iterator[Call]:
    pool = [*names, foreign]
    kw_subsets = [c for r in range(0, max_kw + 1) for c in itertools.combinations(pool, r)]
    d_subsets = [None] + [c for r in range(0, max_dstar + 1) for c in itertools.combinations(pool, r)]
    stars = [None, *range(0, max_star + 1)]
    for npos in range(0, max_pos + 1):
        for star in stars:
            for kws in kw_subsets:
                for d in d_subsets:
                    yield Call(npos, kws, star, d)


def valid_call(sig: Sig, rng) -> Call:
    """A call that binds (then mutated by the caller)."""
    npos = 0
    kws = []
    for p in sig.params:
        if p.kind == PO:
            if not p.default or rng.random() < 0.5:
                npos += 1
            else:
                break
        elif p.kind == PK:
            break
    # remaining pk/ko params
    started_kw = False
    pos_ok = npos == sum(1 for p in sig.params if p.kind == PO and True) or True
    idx = 0
    po = [p for p in sig.params if p.kind == PO]
    pk = [p for p in sig.params if p.kind == PK]
    ko = [p for p in sig.params if p.kind == KO]
    if npos == len(po):
        for p in pk:
            if not started_kw and rng.random() < 0.5:
                npos += 1
            else:
                started_kw = True
                if not p.default or rng.random() < 0.5:
                    kws.append(p.name)
    else:
        for p in pk:
            if not p.default:
                kws.append(p.name)
    for p in ko:
        if not p.default or rng.random() < 0.5:
            kws.append(p.name)
    return Call(npos, tuple(kws), None, None)


def mutate_call(c: Call, names: Sequence[str], rng, foreign: str = "zz") -> Call:
    pool = [*names, foreign]
    choice = rng.randrange(8)
    npos, kws, star, dstar = c.npos, list(c.kws), c.star, c.dstar
    if choice == 0:
        npos = max(0, npos - 1)
    elif choice == 1:
        npos = min(5, npos + 1)
    elif choice == 2 and kws:
        kws.pop(rng.randrange(len(kws)))
    elif choice == 3:
        k = rng.choice(pool)
        if k not in kws:
            kws.append(k)
    elif choice == 4:
        star = rng.choice([None, 0, 1, 2])
        if star and npos and rng.random() < 0.5:
            npos -= 1
    elif choice == 5:
        r = rng.randrange(0, 3)
        dstar = tuple(rng.sample(pool, min(r, len(pool))))
    elif choice == 6 and kws:
        # move a keyword into the ** literal
        k = kws.pop(rng.randrange(len(kws)))
        dstar = tuple([*(dstar or ()), k]) if k not in (dstar or ()) else dstar
    elif choice == 7 and npos:
        # move last positional into the * literal
        npos -= 1
        star = (star or 0) + 1
    return Call(npos, tuple(kws), star, dstar)
