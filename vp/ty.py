"""Ty: a small type-term language with executable, three-valued membership.

This (plus CPython) is the trusted base of the soundness properties. It is deliberately boring and
independent of pyanalyze's own assignability code.  member() returns True / False / None (UNKNOWN);
UNKNOWN never produces a violation, it is counted.
"""
from __future__ import annotations

import collections.abc
import enum
import types
import typing
from dataclasses import dataclass, field
from typing import Any, Optional, Sequence

from vp import prelude

UNKNOWN = None
NoneType = type(None)

# Documented leniency L2 (DESIGN §3 C04): a fixed-length tuple type accepts a variadic tuple of compatible
# element type. When this flag is on, Tuple(t1..tn) additionally admits tuples of any length whose elements
# belong to every ti, so that exactly the documented leniency (and nothing else) is excused.
LENIENT_FIXED_TUPLES = False


@dataclass(frozen=True)
class Ty:
    kind: str
    args: tuple = ()
    extra: Any = field(default=None, compare=True, hash=False)

    def __repr__(self) -> str:
        try:
            return f"<{render(self)}>"
        except Exception:
            return f"Ty({self.kind}, {self.args!r}, {self.extra!r})"


ANY = Ty("Any")
NEVER = Ty("Never")
OBJECT = Ty("Object")
NONE = Ty("NoneT")
OPAQUE = Ty("Opaque")


def Cls(c) -> Ty:
    if c is object:
        return OBJECT
    if c is NoneType:
        return NONE
    return Ty("Cls", (), c)


def Lit(v) -> Ty:
    return Ty("Lit", (), _Box(v))


class _Box:
    """Holds an arbitrary (possibly unhashable) object; equality by type+value."""

    __slots__ = ("v",)

    def __init__(self, v):
        self.v = v

    def __eq__(self, other):
        return isinstance(other, _Box) and lit_equal(self.v, other.v) is True

    def __hash__(self):
        return hash(type(self.v).__name__)

    def __repr__(self):
        return f"Box({self.v!r})"


def Union(*ts) -> Ty:
    flat = []
    for t in ts:
        if t.kind == "Union":
            flat.extend(t.args)
        elif t.kind != "Never":
            flat.append(t)
    out = []
    for t in flat:
        if t not in out:
            out.append(t)
    if not out:
        return NEVER
    if len(out) == 1:
        return out[0]
    return Ty("Union", tuple(out))


def UnionOf(members, merged: bool = False) -> Ty:
    """Union keeping the written member order (flattened, structurally de-duplicated). merged=True only changes the
    SPELLING: consecutive literal members (and None) are written as one `Literal[a, b, ...]`."""
    u = Union(*members)
    if merged and u.kind == "Union":
        return Ty("Union", u.args, "merged")
    return u


def Gen(cls, *ts) -> Ty:
    """User-defined generic class `cls` (one of vp.prelude's G* classes) specialised with ts."""
    return Ty("Gen", tuple(ts), cls)


def List(t): return Ty("List", (t,))
def Set(t): return Ty("Set", (t,))
def FrozenSet(t): return Ty("FrozenSet", (t,))
def Dict(k, v): return Ty("Dict", (k, v))
def Seq(t): return Ty("Seq", (t,))
def Iter(t): return Ty("Iter", (t,))
def Coll(t): return Ty("Coll", (t,))
def Map(k, v): return Ty("Map", (k, v))
def Tuple(*ts): return Ty("Tuple", tuple(ts))
def VarTuple(t): return Ty("VarTuple", (t,))
def MixTuple(prefix, star, suffix): return Ty("MixTuple", (tuple(prefix), star, tuple(suffix)))
def SeqPat(typ, members): return Ty("SeqPat", (tuple(members),), typ)  # members: (is_many, Ty)
def DictPat(pairs): return Ty("DictPat", (tuple(pairs),))  # pairs: (key Ty, value Ty, is_many, required)
def TypedDictT(name, fields, closed=False): return Ty("TypedDict", (tuple(sorted(fields.items())), closed), name)  # closed: False | True | Ty (type of the values of undeclared keys)
def NewTypeT(name, c): return Ty("NewType", (), (name, c))
def TypeOf(t): return Ty("TypeOf", (t,))
def CallableT(): return Ty("Callable")
def AtMost(t): return Ty("AtMost", (t,))  # some unknown subset of t
def Refine(t, checks): return Ty("Refine", (t,), tuple(checks))  # t restricted by (op, bound) checks, e.g. ("maxlen", 2)


# ---------------------------------------------------------------------------
# three-valued logic


def and3(vals) -> Optional[bool]:
    unknown = False
    for v in vals:
        if v is False:
            return False
        if v is None:
            unknown = True
    return None if unknown else True


def or3(vals) -> Optional[bool]:
    unknown = False
    for v in vals:
        if v is True:
            return True
        if v is None:
            unknown = True
    return None if unknown else False


# ---------------------------------------------------------------------------
# literal equality (value AND type, recursively)

_IDENTITY_TYPES = (type, types.FunctionType, types.BuiltinFunctionType, types.ModuleType, types.MethodType)


def lit_equal(o, v) -> Optional[bool]:
    if o is v:
        return True
    if v is None or o is None or isinstance(v, (enum.Enum,)) or isinstance(o, enum.Enum):
        if isinstance(v, enum.Enum) and isinstance(o, enum.Enum):
            if isinstance(v, enum.Flag) and type(o) is type(v):
                return o._value_ == v._value_  # composite / zero flag values are instances without a member name
            return o is v
        return False if (v is None or o is None) else (type(o) is type(v) and o == v)
    if isinstance(v, _IDENTITY_TYPES) or isinstance(o, _IDENTITY_TYPES):
        return False
    if type(o) is not type(v):
        return False
    if isinstance(v, float) and v != v:
        return o != o
    if isinstance(v, (tuple, list)):
        return len(o) == len(v) and and3(lit_equal(a, b) for a, b in zip(o, v))
    if isinstance(v, (set, frozenset)):
        if len(o) != len(v):
            return False
        return and3(or3(lit_equal(a, b) for b in v) for a in o)
    if isinstance(v, dict):
        if len(o) != len(v):
            return False
        res = []
        for k, val in o.items():
            match = [kk for kk in v if lit_equal(k, kk) is True]
            if not match:
                return False
            res.append(lit_equal(val, v[match[0]]))
        return and3(res)
    if type(v).__eq__ is object.__eq__:
        return False  # identity semantics and not identical
    try:
        return bool(o == v)
    except Exception:
        return None


# ---------------------------------------------------------------------------
# membership

_PROMOTIONS = {float: (int, float), complex: (int, float, complex)}


def _isinstance(o, c) -> Optional[bool]:
    if c in _PROMOTIONS:
        return isinstance(o, _PROMOTIONS[c])
    try:
        if getattr(c, "_is_protocol", False) and not getattr(c, "_is_runtime_protocol", False):
            return None
        return isinstance(o, c)
    except TypeError:
        return None


def _issubclass(o, c) -> Optional[bool]:
    if not isinstance(o, type):
        return False
    if c in _PROMOTIONS:
        return issubclass(o, _PROMOTIONS[c])
    try:
        if getattr(c, "_is_protocol", False) and not getattr(c, "_is_runtime_protocol", False):
            return None
        return issubclass(o, c)
    except TypeError:
        return None


_REITERABLE = (list, tuple, set, frozenset, dict, str, bytes, bytearray, range)


def _elements(o):
    if isinstance(o, str):
        return list(o)
    return list(o)


def member(o, t: Ty) -> Optional[bool]:
    k = t.kind
    if k in ("Any", "Object"):
        return True
    if k == "Never":
        return False
    if k == "Opaque":
        return None
    if k == "NoneT":
        return o is None
    if k == "Cls":
        return _isinstance(o, t.extra)
    if k == "Lit":
        return lit_equal(o, t.extra.v)
    if k == "Union":
        return or3(member(o, a) for a in t.args)
    if k == "AtMost":
        return False if member(o, t.args[0]) is False else None
    if k == "Refine":
        base = member(o, t.args[0])
        if base is False:
            return False
        res = [base]
        for op, bound in t.extra:
            try:
                if op == "minlen":
                    res.append(len(o) >= bound)
                elif op == "maxlen":
                    res.append(len(o) <= bound)
                elif op == "gt":
                    res.append(bool(o > bound))
                elif op == "ge":
                    res.append(bool(o >= bound))
                elif op == "lt":
                    res.append(bool(o < bound))
                elif op == "le":
                    res.append(bool(o <= bound))
                else:
                    res.append(None)
            except Exception:
                res.append(None)
        return and3(res)
    if k == "List":
        return isinstance(o, list) and and3(member(e, t.args[0]) for e in o)
    if k == "Set":
        return isinstance(o, set) and and3(member(e, t.args[0]) for e in o)
    if k == "FrozenSet":
        return isinstance(o, frozenset) and and3(member(e, t.args[0]) for e in o)
    if k == "Dict":
        return isinstance(o, dict) and and3(
            and3((member(kk, t.args[0]), member(vv, t.args[1]))) for kk, vv in o.items()
        )
    if k == "Map":
        if not isinstance(o, collections.abc.Mapping):
            return False
        if not isinstance(o, dict):
            return None
        return and3(and3((member(kk, t.args[0]), member(vv, t.args[1]))) for kk, vv in o.items())
    if k in ("Seq", "Iter", "Coll"):
        abc = {"Seq": collections.abc.Sequence, "Iter": collections.abc.Iterable, "Coll": collections.abc.Collection}[k]
        if not isinstance(o, abc):
            return False
        if not isinstance(o, _REITERABLE):
            return None
        if isinstance(o, (str, bytes, bytearray)):
            # a str is nominally a Sequence[str] (bytes: of int): answer True only when the element type admits
            # every str (int), False when some actual element is excluded, otherwise refrain (Literal['a'] etc.)
            reps = ("a", "zq") if isinstance(o, str) else (0, 77)
            if all(member(rep, t.args[0]) is True for rep in reps):
                return True
            if any(member(e, t.args[0]) is False for e in _elements(o)):
                return False
            return None
        return and3(member(e, t.args[0]) for e in _elements(o))
    if k == "Tuple":
        if not isinstance(o, tuple):
            return False
        strict = len(o) == len(t.args) and and3(member(e, a) for e, a in zip(o, t.args))
        if LENIENT_FIXED_TUPLES and strict is not True:
            return or3((strict, and3(member(e, a) for e in o for a in t.args)))
        return strict
    if k == "VarTuple":
        return isinstance(o, tuple) and and3(member(e, t.args[0]) for e in o)
    if k == "MixTuple":
        prefix, star, suffix = t.args
        if not isinstance(o, tuple) or (len(o) < len(prefix) + len(suffix) and not LENIENT_FIXED_TUPLES):
            return False
        if LENIENT_FIXED_TUPLES:
            comps = [*prefix, star, *suffix]
            strict = None
            if len(o) >= len(prefix) + len(suffix):
                LEN = len(o)
                strict = and3(
                    [member(e, a) for e, a in zip(o, prefix)]
                    + [member(e, star) for e in o[len(prefix): LEN - len(suffix)]]
                    + [member(e, a) for e, a in zip(o[LEN - len(suffix):] if suffix else (), suffix)]
                )
                if strict is True:
                    return True
            return or3((strict if strict is not None else False, and3(member(e, a) for e in o for a in comps)))
        mid = o[len(prefix): len(o) - len(suffix)]
        tail = o[len(o) - len(suffix):] if suffix else ()
        return and3(
            [member(e, a) for e, a in zip(o, prefix)]
            + [member(e, star) for e in mid]
            + [member(e, a) for e, a in zip(tail, suffix)]
        )
    if k == "SeqPat":
        typ = t.extra
        members = t.args[0]
        if not isinstance(typ, type):
            return None
        if not isinstance(o, typ):
            return False
        if issubclass(typ, (set, frozenset)):
            if not members:
                return len(o) == 0
            return and3(or3(member(e, m) for _, m in members) for e in o)
        if not isinstance(o, (list, tuple)):
            return None
        return _match_pattern(list(o), list(members))
    if k == "DictPat":
        if not isinstance(o, dict):
            return False
        pairs = t.args[0]
        res = []
        for kk, vv in o.items():
            res.append(or3(and3((member(kk, kt), member(vv, vt))) for kt, vt, _m, _r in pairs))
        for kt, vt, many, required in pairs:
            if required and not many and kt.kind == "Lit":
                res.append(or3(member(kk, kt) for kk in o))
        return and3(res)
    if k == "TypedDict":
        if not isinstance(o, dict):
            return False
        fields, closed = t.args
        res = []
        names = set()
        for name, (ft, required) in fields:
            names.add(name)
            if name in o:
                res.append(member(o[name], ft))
            elif required:
                return False
        for kk in o:
            if not isinstance(kk, str):
                return False
            if closed and kk not in names:
                if isinstance(closed, Ty):  # undeclared keys are allowed with values of this type
                    res.append(member(o[kk], closed))
                    continue
                return False
        return and3(res)
    if k == "NewType":
        _name, c = t.extra
        if type(o) is c:
            return True
        if not isinstance(o, c):
            return False
        return None
    if k == "TypeOf":
        if not isinstance(o, type):
            return False
        return _type_of(o, t.args[0])
    if k == "Callable":
        return False if not callable(o) else None
    if k == "CallSig":
        if not callable(o):
            return False
        ps = _CS_PARAMS_OF.get(o) if isinstance(o, types.FunctionType) else None
        if ps is None:
            return None
        if ps == t.args[0]:
            return True
        # some call the signature permits (binds, every argument in its annotation) fails on o  =>  o is not a member
        return False if callsig_mask(t.args[0]) & ~callsig_mask(ps) else None
    if k == "Gen":
        views = GEN_VIEWS.get(t.extra)
        if views is None or len(views) != len(t.args):
            return None
        if not isinstance(o, t.extra):
            return False
        return and3(member(e, a) for view, a in zip(views, t.args) for e in view(o))
    raise ValueError(f"unknown Ty kind {k}")


# User-defined generic classes of the prelude: for each class, one "view" per OWN type parameter giving the
# sub-objects of an instance that are declared with that parameter.  o in G[X1..Xn]  iff  isinstance(o, G) and
# every object of view_i(o) is in X_i.  (For a base class the views are the base's own attributes, which the
# subclass constructors fill exactly as their `class Sub(Base[...])` header declares.)
GEN_VIEWS = {
    prelude.GPair: (lambda o: [o.first], lambda o: [o.second]),
    prelude.GSame: (lambda o: [o.first], lambda o: [o.second]),
    prelude.GFlip: (lambda o: [o.a], lambda o: [o.b]),
    prelude.GFlipFresh: (lambda o: [o.a], lambda o: [o.b]),
    prelude.GFlipSub: (lambda o: [o.p], lambda o: [o.q]),
    prelude.GShift: (lambda o: [o.a], lambda o: [o.b]),
    prelude.GShiftFresh: (lambda o: [o.a], lambda o: [o.b]),
    prelude.GIntFirst: (lambda o: [o.a],),
    prelude.GDup: (lambda o: [o.a],),
    prelude.GBox: (lambda o: [o.item],),
    prelude.GListBox: (lambda o: [o.a],),
    prelude.GRevDict: (lambda o: list(o.values()), lambda o: list(o.keys())),
    prelude.GList: (lambda o: list(o),),
}


def _type_of(cls, inner: Ty) -> Optional[bool]:
    k = inner.kind
    if k in ("Any", "Object"):
        return True
    if k == "Cls":
        return _issubclass(cls, inner.extra)
    if k == "NoneT":
        return cls is NoneType
    if k == "Union":
        return or3(_type_of(cls, a) for a in inner.args)
    if k == "Never":
        return False
    return None


def _match_pattern(elems: list, members: list) -> Optional[bool]:
    """members: [(is_many, Ty)]; is_many matches >= 0 elements. Three-valued regex-style match."""
    from functools import lru_cache

    n, m = len(elems), len(members)
    memo = {}

    def go(i, j):
        if (i, j) in memo:
            return memo[(i, j)]
        if j == m:
            r = i == n
        else:
            many, ty = members[j]
            if many:
                opts = [go(i, j + 1)]
                if i < n:
                    opts.append(and3((member(elems[i], ty), go(i + 1, j))))
                r = or3(opts)
            else:
                r = False if i >= n else and3((member(elems[i], ty), go(i + 1, j + 1)))
        memo[(i, j)] = r
        return r

    return go(0, 0)


# ---------------------------------------------------------------------------
# TypedDict classes read back from CPython's own bookkeeping


def _strip_qualifiers(hint):
    import typing_extensions

    quals = {q for mod in (typing, typing_extensions) for n in ("Required", "NotRequired", "ReadOnly")
             if (q := getattr(mod, n, None)) is not None}
    while typing.get_origin(hint) in quals:
        (hint,) = typing.get_args(hint)
    return hint


def typeddict_from_class(cls) -> Ty:
    """The TypedDict term of a TypedDict class as CPYTHON recorded it: the keys of __annotations__ (own and inherited),
    required iff listed in __required_keys__ (which must partition the keys with __optional_keys__); value types must be
    plain classes."""
    hints = dict(cls.__annotations__)
    req, opt = cls.__required_keys__, cls.__optional_keys__
    if set(hints) != set(req) | set(opt) or set(req) & set(opt):
        raise ValueError(f"{cls.__name__}: __required_keys__/__optional_keys__ do not partition the annotations")
    fields = {}
    for name, hint in hints.items():
        inner = _strip_qualifiers(hint)
        if not isinstance(inner, type):
            raise ValueError(f"{cls.__name__}.{name}: unsupported value type {inner!r}")
        fields[name] = (Cls(inner), name in req)
    return TypedDictT(cls.__name__, fields)


# ---------------------------------------------------------------------------
# Callable signature types with an EXECUTABLE membership.
# A signature is a tuple of parameters (name, kind, has_default, type name); every signature returns None.  For each
# signature a reference function is generated whose body raises unless every bound argument is an instance of its
# annotation.  A call is PERMITTED by a signature iff its reference function runs it (CPython binds, the body checks).
# A function g belongs to the callable type of signature E only if every call E permits also runs on g; this is
# examined on a fixed finite pool of calls, so only NON-membership is ever definite (a counterexample call exists).

PO, PK, VA, KO, VK = "po", "pk", "va", "ko", "vk"
CALLSIG_TYPES = {"int": ("0", 1), "str": ("''", "s")}  # type name -> (default source, the pool value of that type)
CALLSIG_KW_NAMES = ("a", "b", "zz")  # zz is no parameter's name: only **kwargs can take it


class CallSigBad(Exception):
    """Raised by a reference function: the named parameter received an object outside its annotation."""


def CallSig(params) -> Ty:
    return Ty("CallSig", (tuple(tuple(p) for p in params),))


def callsig_params_text(ps) -> str:
    parts = []
    n_po = sum(1 for p in ps if p[1] == PO)
    seen_star = False
    npo = 0
    for n, k, d, t in ps:
        if k == VA:
            parts.append(f"*{n}: {t}")
            seen_star = True
            continue
        if k == VK:
            parts.append(f"**{n}: {t}")
            continue
        if k == KO and not seen_star:
            parts.append("*")
            seen_star = True
        parts.append(f"{n}: {t}" + (f" = {CALLSIG_TYPES[t][0]}" if d else ""))
        if k == PO:
            npo += 1
            if npo == n_po:
                parts.append("/")
    return ", ".join(parts)


_CS_MODULE = None
_CS_INDEX: dict = {}  # params -> [serial number, function, protocol class]
_CS_PARAMS_OF: dict = {}  # reference function -> params
_CS_MASK: dict = {}
_CS_CALLS: list = []


def _callsig_module():
    global _CS_MODULE
    if _CS_MODULE is None:
        import sys

        _CS_MODULE = types.ModuleType("vp_callsigs")  # importable by name: pyanalyze resolves classes through __module__
        _CS_MODULE.__dict__["CallSigBad"] = CallSigBad
        exec("from typing_extensions import Protocol", _CS_MODULE.__dict__)
        sys.modules[_CS_MODULE.__name__] = _CS_MODULE
    return _CS_MODULE


def _callsig_build(ps, what: int):
    """what: 0 = the reference function, 1 = the Protocol class (built separately, on first use)."""
    ps = tuple(tuple(p) for p in ps)
    slot = _CS_INDEX.get(ps)
    if slot is None:
        slot = _CS_INDEX[ps] = [len(_CS_INDEX), None, None]
    if slot[1 + what] is None:
        mod = _callsig_module()
        i = slot[0]
        text = callsig_params_text(ps)
        if what == 0:
            checks = []
            for n, k, _d, t in ps:
                if k == VA:
                    checks.append(f"    for _v in {n}:\n        if not isinstance(_v, {t}): raise CallSigBad({n!r})")
                elif k == VK:
                    checks.append(f"    for _v in {n}.values():\n        if not isinstance(_v, {t}): raise CallSigBad({n!r})")
                else:
                    checks.append(f"    if not isinstance({n}, {t}): raise CallSigBad({n!r})")
            src = f"def f{i}({text}) -> None:\n" + ("\n".join(checks) or "    pass") + "\n"
        else:
            src = f"class P{i}(Protocol):\n    def __call__(self{', ' if text else ''}{text}) -> None: ...\n"
        exec(compile(src, "<vp_callsigs>", "exec", dont_inherit=True), mod.__dict__)
        slot[1 + what] = mod.__dict__[f"{'fP'[what]}{i}"]
        if what == 0:
            _CS_PARAMS_OF[slot[1]] = ps
    return slot[1 + what]


def callsig_function(ps):
    """The reference function of the signature (also THE canonical member of its callable type)."""
    return _callsig_build(ps, 0)


def callsig_protocol(ps):
    """A Protocol class whose __call__ has the signature."""
    return _callsig_build(ps, 1)


def callsig_calls() -> list:
    """The fixed pool of calls: 0..3 positional arguments and 0..3 keywords from CALLSIG_KW_NAMES, every value one of
    the pool values of CALLSIG_TYPES; ordered by size (fewest arguments first)."""
    if not _CS_CALLS:
        import itertools

        vals = [v for _src, v in CALLSIG_TYPES.values()]
        calls = []
        for npos in range(4):
            for pos in itertools.product(vals, repeat=npos):
                for r in range(len(CALLSIG_KW_NAMES) + 1):
                    for names in itertools.combinations(CALLSIG_KW_NAMES, r):
                        for kv in itertools.product(vals, repeat=r):
                            calls.append((pos, dict(zip(names, kv))))
        calls.sort(key=lambda c: len(c[0]) + len(c[1]))
        _CS_CALLS.extend(calls)
    return _CS_CALLS


def callsig_mask(ps) -> int:
    """Bit j set iff call j of the pool runs on the reference function (binds, every argument inside its annotation)."""
    ps = tuple(tuple(p) for p in ps)
    m = _CS_MASK.get(ps)
    if m is None:
        f = callsig_function(ps)
        m = 0
        for j, (pos, kw) in enumerate(callsig_calls()):
            try:
                f(*pos, **kw)
            except (TypeError, CallSigBad):
                continue
            m |= 1 << j
        _CS_MASK[ps] = m
    return m


# ---------------------------------------------------------------------------
# rendering as annotation source / evaluation to runtime typing objects

_CLS_NAMES = {
    int: "int", bool: "bool", float: "float", complex: "complex", str: "str", bytes: "bytes",
    list: "list", dict: "dict", set: "set", frozenset: "frozenset", tuple: "tuple", type: "type",
    bytearray: "bytearray", range: "range",
}


def cls_name(c) -> str:
    if c in _CLS_NAMES:
        return _CLS_NAMES[c]
    if getattr(prelude, getattr(c, "__name__", ""), None) is c:
        return c.__name__
    raise ValueError(f"class {c!r} has no source spelling")


def lit_source(v) -> str:
    if isinstance(v, enum.Flag) and v not in list(type(v)):
        return f"{type(v).__name__}({v._value_})"  # FPerm(6): a composite or zero value has no attribute spelling
    if isinstance(v, enum.Enum):
        return f"{type(v).__name__}.{v.name}"
    if isinstance(v, type):
        return cls_name(v)
    return repr(v)


_BARE_TYPING_NAMES = {list: "List", dict: "Dict", set: "Set", frozenset: "FrozenSet", tuple: "Tuple", type: "Type"}


def render(t: Ty, style: int = 0) -> str:
    """style 0: builtin generics + `|`-free Union spelling; style 1: typing.* spellings; style 2: as style 1 and
    un-parameterised generic classes are spelled with their typing alias too (`Tuple` for `tuple`)."""
    k = t.kind
    r = lambda x, _style=style: render(x, _style)  # noqa: E731
    if k == "Cls" and style == 2 and t.extra in _BARE_TYPING_NAMES:
        return _BARE_TYPING_NAMES[t.extra]
    style = 1 if style else 0
    if k == "Any":
        return "Any"
    if k == "Gen":
        return f"{cls_name(t.extra)}[{', '.join(r(a) for a in t.args)}]"
    if k == "Union" and t.extra == "merged":
        parts, run = [], []
        for a in [*t.args, None]:
            if a is not None and a.kind in ("Lit", "NoneT"):
                run.append("None" if a.kind == "NoneT" else lit_source(a.extra.v))
                continue
            if run:
                parts.append(f"Literal[{', '.join(run)}]")
                run = []
            if a is not None:
                parts.append(r(a))
        return parts[0] if len(parts) == 1 else "Union[" + ", ".join(parts) + "]"
    if k == "Never":
        return "typing.NoReturn"
    if k == "Object":
        return "object"
    if k == "NoneT":
        return "None"
    if k == "Cls":
        return cls_name(t.extra)
    if k == "Lit":
        return f"Literal[{lit_source(t.extra.v)}]"
    if k == "Union":
        if len(t.args) == 2 and NONE in t.args and style == 1:
            other = [a for a in t.args if a != NONE][0]
            return f"Optional[{r(other)}]"
        return "Union[" + ", ".join(r(a) for a in t.args) + "]"
    if k in ("List", "Set", "FrozenSet", "Dict", "Seq", "Iter", "Coll", "Map"):
        names = {
            "List": ("list", "List"), "Set": ("set", "Set"), "FrozenSet": ("frozenset", "FrozenSet"),
            "Dict": ("dict", "Dict"), "Seq": ("Sequence", "Sequence"), "Iter": ("Iterable", "Iterable"),
            "Coll": ("Collection", "Collection"), "Map": ("Mapping", "Mapping"),
        }[k]
        return f"{names[style]}[{', '.join(r(a) for a in t.args)}]"
    if k == "Tuple":
        nm = ("tuple", "Tuple")[style]
        if not t.args:
            return f"{nm}[()]"
        return f"{nm}[{', '.join(r(a) for a in t.args)}]"
    if k == "VarTuple":
        return f"{('tuple', 'Tuple')[style]}[{r(t.args[0])}, ...]"
    if k == "MixTuple":
        prefix, star, suffix = t.args
        mid = f"Unpack[Tuple[{r(star)}, ...]]" if style else f"*tuple[{r(star)}, ...]"
        parts = [r(a) for a in prefix] + [mid] + [r(a) for a in suffix]
        return f"{('tuple', 'Tuple')[style]}[{', '.join(parts)}]"
    if k == "TypedDict":
        return t.extra
    if k == "NewType":
        return t.extra[0]
    if k == "TypeOf":
        return f"{('type', 'Type')[style]}[{r(t.args[0])}]"
    if k == "Callable":
        return "Callable[..., Any]"
    if k == "CallSig":
        return f"CallbackProtocol[({callsig_params_text(t.args[0])}) -> None]"  # a description, not evaluable source
    if k == "Refine":
        return f"Annotated[{r(t.args[0])}, {', '.join(f'{op}:{b}' for op, b in t.extra)}]"
    if k == "AtMost":
        return f"<some subtype of {r(t.args[0])}>"
    raise ValueError(f"cannot render {k}")


_EVAL_NS = None


def eval_ns() -> dict:
    global _EVAL_NS
    if _EVAL_NS is None:
        ns = {"typing": typing}
        ns.update({n: getattr(prelude, n) for n in prelude.__all__})
        ns.update({n: getattr(prelude, n) for n in prelude.TDI_NAMES})  # generated TypedDict family (not star-exported)
        _EVAL_NS = ns
    return _EVAL_NS


def evaluate(t: Ty, style: int = 0):
    return eval(render(t, style), dict(eval_ns()))


# ---------------------------------------------------------------------------
# from a pyanalyze Value (an OUTPUT of the checker: its structure is read, not trusted to be right)


def from_value(v) -> Ty:
    from pyanalyze import value as V

    if isinstance(v, V.AnnotatedValue):
        inner = from_value(v.value)
        checks = []
        for ext in v.metadata:
            cc = getattr(ext, "custom_check", None)
            name = type(cc).__name__ if cc is not None else ""
            op = {"MinLen": "minlen", "MaxLen": "maxlen", "Gt": "gt", "Ge": "ge", "Lt": "lt", "Le": "le"}.get(name)
            if op is not None and isinstance(getattr(cc, "value", None), (int, float)):
                checks.append((op, cc.value))
        return Refine(inner, checks) if checks else inner
    if isinstance(v, V.AnyValue):
        return ANY
    if isinstance(v, V.KnownValue):
        return Lit(v.val)
    if isinstance(v, V.MultiValuedValue):
        return Union(*[from_value(x) for x in v.vals])
    if isinstance(v, V.TypeAliasValue):
        try:
            return from_value(v.get_value())
        except Exception:
            return OPAQUE
    if isinstance(v, V.NewTypeValue):
        return NewTypeT(v.name, v.typ) if isinstance(v.typ, type) else OPAQUE
    if isinstance(v, V.TypedDictValue):
        fields = {k: (from_value(e.typ), bool(e.required)) for k, e in v.items.items()}
        if v.extra_keys is not None:
            return AtMost(Cls(dict))
        return TypedDictT("<TD>", fields, closed=False)
    if isinstance(v, V.DictIncompleteValue):
        if not isinstance(v.typ, type) or not issubclass(v.typ, dict):
            return OPAQUE
        return DictPat([(from_value(p.key), from_value(p.value), p.is_many, p.is_required) for p in v.kv_pairs])
    if isinstance(v, V.SequenceValue):
        if not isinstance(v.typ, type):
            return OPAQUE
        return SeqPat(v.typ, [(m, from_value(x)) for m, x in v.members])
    if isinstance(v, V.CallableValue):
        return CallableT()
    if isinstance(v, V.GenericValue):
        typ = v.typ
        args = [from_value(a) for a in v.args]
        if typ is list and len(args) == 1:
            return List(args[0])
        if typ is set and len(args) == 1:
            return Set(args[0])
        if typ is frozenset and len(args) == 1:
            return FrozenSet(args[0])
        if typ is dict and len(args) == 2:
            return Dict(*args)
        if typ is tuple and len(args) == 1:
            return VarTuple(args[0])
        if typ is collections.abc.Sequence and len(args) == 1:
            return Seq(args[0])
        if typ is collections.abc.Iterable and len(args) == 1:
            return Iter(args[0])
        if typ is collections.abc.Collection and len(args) == 1:
            return Coll(args[0])
        if typ is collections.abc.Mapping and len(args) == 2:
            return Map(*args)
        if typ is type and len(args) == 1:
            return TypeOf(args[0])
        if isinstance(typ, type):
            return AtMost(Cls(typ))
        return OPAQUE
    if isinstance(v, V.TypedValue):
        if isinstance(v.typ, type):
            return Cls(v.typ)
        return OPAQUE
    if isinstance(v, V.SubclassValue):
        return TypeOf(from_value(v.typ))
    if isinstance(v, V.TypeVarValue):
        if v.bound is not None:
            return AtMost(from_value(v.bound))
        if v.constraints:
            return AtMost(Union(*[from_value(c) for c in v.constraints]))
        return OPAQUE
    return OPAQUE


def is_informative(t: Ty) -> bool:
    """False for Any/object/Opaque-only terms (a membership verdict against them says nothing)."""
    if t.kind in ("Any", "Object", "Opaque"):
        return False
    if t.kind == "Refine":
        return True
    if t.kind == "Union":
        return all(is_informative(a) for a in t.args)
    return True


def kinds(t: Ty) -> frozenset:
    out = {t.kind}
    for a in t.args:
        if isinstance(a, Ty):
            out |= kinds(a)
        elif isinstance(a, tuple):
            for b in a:
                if isinstance(b, Ty):
                    out |= kinds(b)
                elif isinstance(b, tuple):
                    for c in b:
                        if isinstance(c, Ty):
                            out |= kinds(c)
    return frozenset(out)
