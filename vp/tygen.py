"""Enumeration / sampling of Ty terms over a fixed leaf vocabulary."""
from __future__ import annotations

import itertools

from vp import prelude, ty
from vp.ty import Ty

LEAVES = [
    ty.Cls(int), ty.Cls(bool), ty.Cls(float), ty.Cls(complex), ty.Cls(str), ty.Cls(bytes), ty.NONE, ty.OBJECT,
    ty.Cls(prelude.A), ty.Cls(prelude.B), ty.Cls(prelude.C), ty.Cls(prelude.Color), ty.Cls(prelude.Num),
    ty.Lit(1), ty.Lit(True), ty.Lit("a"), ty.Lit(b"a"), ty.Lit(prelude.Color.RED), ty.Lit(0),
]
SPECIAL = [
    ty.TypedDictT("TD1", {"a": (ty.Cls(int), True), "b": (ty.Cls(str), False)}),
    ty.TypedDictT("TD2", {"a": (ty.Cls(int), True), "c": (ty.Cls(prelude.A), True)}),
    ty.TypedDictT("TD3", {"a": (ty.Union(ty.Cls(int), ty.NONE), True), "b": (ty.Union(ty.Cls(str), ty.NONE), False)}),
    ty.NewTypeT("NT", int), ty.NewTypeT("NS", str),
    ty.Cls(list), ty.Cls(tuple), ty.Cls(dict), ty.Cls(prelude.DC),
]
CORE_LEAVES = [ty.Cls(int), ty.Cls(bool), ty.Cls(float), ty.Cls(str), ty.NONE, ty.Cls(prelude.A), ty.Cls(prelude.B),
               ty.Lit(1), ty.Lit("a"), ty.Cls(prelude.Color), ty.OBJECT, ty.Cls(bytes)]

UNARY = [ty.List, ty.Set, ty.FrozenSet, ty.Seq, ty.Iter, ty.VarTuple, ty.TypeOf,
         lambda t: ty.Union(t, ty.NONE), lambda t: ty.Tuple(t), lambda t: ty.Coll(t)]
BINARY = [ty.Dict, ty.Map, lambda a, b: ty.Tuple(a, b), lambda a, b: ty.Union(a, b),
          lambda a, b: ty.MixTuple([a], b, []), lambda a, b: ty.MixTuple([], a, [b])]


def _ok(t: Ty) -> bool:
    try:
        ty.render(t)
    except ValueError:
        return False
    # sets / dict keys need hashable members: fine for typing purposes; TypeOf only of classes/unions
    if t.kind == "TypeOf" and t.args[0].kind not in ("Cls", "Union", "Object", "Any"):
        return False
    if t.kind == "TypeOf" and t.args[0].kind == "Union" and any(a.kind not in ("Cls", "Object") for a in t.args[0].args):
        return False
    return True


def depth1() -> list:
    out = list(LEAVES) + list(SPECIAL) + [ty.Tuple()]
    return [t for t in out if _ok(t)]


def depth2(leaves=None) -> list:
    leaves = leaves or CORE_LEAVES
    out = []
    for u in UNARY:
        for a in leaves:
            out.append(u(a))
    for b in BINARY:
        for a1 in leaves:
            for a2 in leaves:
                out.append(b(a1, a2))
    out.append(ty.Tuple(ty.Cls(int), ty.Cls(str), ty.Cls(float)))
    out.append(ty.MixTuple([ty.Cls(int)], ty.Cls(str), [ty.Cls(float)]))
    out.append(ty.Union(ty.Cls(int), ty.Cls(str), ty.NONE))
    seen = []
    s = set()
    for t in out:
        if _ok(t):
            r = ty.render(t)
            if r not in s:
                s.add(r)
                seen.append(t)
    return seen


def random_ty(rng, depth: int, leaves=None) -> Ty:
    leaves = leaves or (LEAVES + SPECIAL)
    for _ in range(20):
        if depth <= 0 or rng.random() < 0.25:
            t = rng.choice(leaves)
        elif rng.random() < 0.55:
            t = rng.choice(UNARY)(random_ty(rng, depth - 1, leaves))
        else:
            t = rng.choice(BINARY)(random_ty(rng, depth - 1, leaves), random_ty(rng, depth - 1, leaves))
        if _ok(t):
            return t
    return ty.Cls(int)


# ---------------------------------------------------------------------------
# wide unions: many flattened members, around the size at which union implementations switch to indexed lookup;
# literal members that are ==-equal (same hash) but of different type; optionally one non-literal member.

COLLIDING_GROUPS = [
    (), (1, True), (0, False), (prelude.Num.ONE, 1), (prelude.Num.TWO, 2), (prelude.Num.ONE, True),
    (1, True, prelude.Num.ONE),
]
FILLER_FAMILIES = {
    "ints": [3, 4, 5, 6, 7, 8, 9, 10, 11, 12, 13, 14, 15, 16, 17, 18],
    "strs": ["a", "b", "c", "d", "e", "f", "g", "h", "i", "j", "k", "l", "m", "n", "o", "p"],
    "mixed": ["a", 3, b"a", None, prelude.Color.RED, "ab", 255, b"ab", prelude.Color.GREEN, -1, "", 300, b"",
              prelude.Color.BLUE, "zq", 77],
}
WIDE_STRUCTS = [
    None, ty.Cls(int), ty.Cls(str), ty.Cls(prelude.A), ty.List(ty.Cls(int)), ty.VarTuple(ty.Cls(int)),
    ty.Tuple(ty.Cls(int), ty.Cls(str)), ty.Dict(ty.Cls(str), ty.Cls(int)), ty.Set(ty.Cls(int)),
    ty.FrozenSet(ty.Cls(int)), SPECIAL[0], ty.Seq(ty.Cls(str)), ty.Map(ty.Cls(str), ty.Cls(int)),
    ty.TypeOf(ty.Cls(prelude.A)), ty.Tuple(),
]
WIDE_SIZES = (3, 9, 10, 11, 14)
WIDE_PLACEMENTS = ("front", "back", "split")


def _lit_or_none(v) -> Ty:
    return ty.NONE if v is None else ty.Lit(v)


def wide_union(group, reverse: bool, placement: str, size: int, family: str, struct, struct_front: bool, merged: bool):
    g = [ty.Lit(v) for v in (group[::-1] if reverse else group)]
    n_fill = size - len(g) - (0 if struct is None else 1)
    if n_fill < 0:
        return None
    fill = [_lit_or_none(v) for v in FILLER_FAMILIES[family][:n_fill]]
    if placement == "front":
        lits = g + fill
    elif placement == "back":
        lits = fill + g
    else:
        lits = g[:1] + fill + g[1:]
    members = lits if struct is None else ([struct] + lits if struct_front else lits + [struct])
    t = ty.UnionOf(members, merged)
    return t if t.kind == "Union" and _ok(t) else None


def wide_union_space() -> list:
    """The whole parameter space, as argument tuples of wide_union (deterministic order)."""
    out = []
    for group in COLLIDING_GROUPS:
        for reverse in ((False, True) if group else (False,)):
            for placement in (WIDE_PLACEMENTS if group else ("front",)):
                for size in WIDE_SIZES:
                    for family in FILLER_FAMILIES:
                        for struct in WIDE_STRUCTS:
                            for struct_front in ((False, True) if struct is not None else (False,)):
                                for merged in (False, True):
                                    out.append((group, reverse, placement, size, family, struct, struct_front, merged))
    return out


def wide_unions_core() -> list:
    """Seed-independent part: every colliding group in both orders x sizes just below / at / above 10 x placements
    (no structural member), and every structural member x the same sizes x two filler families."""
    out, seen = [], set()

    def add(*args):
        t = wide_union(*args)
        if t is not None and ty.render(t) not in seen:
            seen.add(ty.render(t))
            out.append(t)

    i = 0
    for group in COLLIDING_GROUPS:
        for reverse in ((False, True) if group else (False,)):
            for size in (9, 10, 13):
                for placement in (("front", "split") if group else ("front",)):
                    i += 1
                    add(group, reverse, placement, size, ("ints", "mixed", "strs")[i % 3], None, False, bool(i % 2))
    for struct in WIDE_STRUCTS[1:]:
        for size in (9, 10, 13):
            i += 1
            add(COLLIDING_GROUPS[i % len(COLLIDING_GROUPS)], False, "front", size, ("ints", "mixed")[i % 2], struct,
                bool((i // 2) % 2), bool(i % 2))
    return out


def wide_unions(rng, n_sampled: int) -> list:
    out = wide_unions_core()
    seen = {ty.render(t) for t in out}
    space = wide_union_space()
    for args in rng.sample(space, min(len(space), 3 * n_sampled)):
        if n_sampled <= 0:
            break
        t = wide_union(*args)
        if t is not None and ty.render(t) not in seen:
            seen.add(ty.render(t))
            out.append(t)
            n_sampled -= 1
    return out


# ---------------------------------------------------------------------------
# user-defined generic classes of the prelude, specialised over a small atom set

GEN_ATOMS = [ty.Cls(int), ty.Cls(str), ty.Cls(float), ty.Cls(bool)]


def generic_terms() -> list:
    out = []
    for cls, views in ty.GEN_VIEWS.items():
        for args in itertools.product(GEN_ATOMS, repeat=len(views)):
            out.append(ty.Gen(cls, *args))
    # arguments that are themselves structured
    out.append(ty.Gen(prelude.GPair, ty.List(ty.Cls(int)), ty.Union(ty.Cls(int), ty.NONE)))
    out.append(ty.Gen(prelude.GBox, ty.List(ty.Cls(int))))
    out.append(ty.Gen(prelude.GBox, ty.List(ty.Cls(str))))
    out.append(ty.Gen(prelude.GBox, ty.Gen(prelude.GBox, ty.Cls(int))))
    return out
