"""Enumeration / sampling of Ty terms over a fixed leaf vocabulary."""
from __future__ import annotations

import itertools

from vp import prelude, ty
from vp.ty import Ty

LEAVES = [
    ty.Cls(int), ty.Cls(bool), ty.Cls(float), ty.Cls(complex), ty.Cls(str), ty.Cls(bytes), ty.NONE, ty.OBJECT,
    ty.Cls(prelude.A), ty.Cls(prelude.B), ty.Cls(prelude.C), ty.Cls(prelude.Color), ty.Cls(prelude.Num),
    ty.Lit(1), ty.Lit(True), ty.Lit("a"), ty.Lit(b"a"), ty.Lit(prelude.Color.RED), ty.Lit(0),
]
SPECIAL = [
    ty.TypedDictT("TD1", {"a": (ty.Cls(int), True), "b": (ty.Cls(str), False)}),
    ty.TypedDictT("TD2", {"a": (ty.Cls(int), True), "c": (ty.Cls(prelude.A), True)}),
    ty.TypedDictT("TD3", {"a": (ty.Union(ty.Cls(int), ty.NONE), True), "b": (ty.Union(ty.Cls(str), ty.NONE), False)}),
    ty.NewTypeT("NT", int), ty.NewTypeT("NS", str),
    ty.Cls(list), ty.Cls(tuple), ty.Cls(dict), ty.Cls(prelude.DC),
]
CORE_LEAVES = [ty.Cls(int), ty.Cls(bool), ty.Cls(float), ty.Cls(str), ty.NONE, ty.Cls(prelude.A), ty.Cls(prelude.B),
               ty.Lit(1), ty.Lit("a"), ty.Cls(prelude.Color), ty.OBJECT, ty.Cls(bytes)]

UNARY = [ty.List, ty.Set, ty.FrozenSet, ty.Seq, ty.Iter, ty.VarTuple, ty.TypeOf,
         lambda t: ty.Union(t, ty.NONE), lambda t: ty.Tuple(t), lambda t: ty.Coll(t)]
BINARY = [ty.Dict, ty.Map, lambda a, b: ty.Tuple(a, b), lambda a, b: ty.Union(a, b),
          lambda a, b: ty.MixTuple([a], b, []), lambda a, b: ty.MixTuple([], a, [b])]


def _ok(t: Ty) -> bool:
    try:
        ty.render(t)
    except ValueError:
        return False
    # sets / dict keys need hashable members: fine for typing purposes; TypeOf only of classes/unions
    if t.kind == "TypeOf" and t.args[0].kind not in ("Cls", "Union", "Object", "Any"):
        return False
    if t.kind == "TypeOf" and t.args[0].kind == "Union" and any(a.kind not in ("Cls", "Object") for a in t.args[0].args):
        return False
    return True


def depth1() -> list:
    out = list(LEAVES) + list(SPECIAL) + [ty.Tuple()]
    return [t for t in out if _ok(t)]


def depth2(leaves=None) -> list:
    leaves = leaves or CORE_LEAVES
    out = []
    for u in UNARY:
        for a in leaves:
            out.append(u(a))
    for b in BINARY:
        for a1 in leaves:
            for a2 in leaves:
                out.append(b(a1, a2))
    out.append(ty.Tuple(ty.Cls(int), ty.Cls(str), ty.Cls(float)))
    out.append(ty.MixTuple([ty.Cls(int)], ty.Cls(str), [ty.Cls(float)]))
    out.append(ty.Union(ty.Cls(int), ty.Cls(str), ty.NONE))
    seen = []
    s = set()
    for t in out:
        if _ok(t):
            r = ty.render(t)
            if r not in s:
                s.add(r)
                seen.append(t)
    return seen


def random_ty(rng, depth: int, leaves=None) -> Ty:
    leaves = leaves or (LEAVES + SPECIAL)
    for _ in range(20):
        if depth <= 0 or rng.random() < 0.25:
            t = rng.choice(leaves)
        elif rng.random() < 0.55:
            t = rng.choice(UNARY)(random_ty(rng, depth - 1, leaves))
        else:
            t = rng.choice(BINARY)(random_ty(rng, depth - 1, leaves), random_ty(rng, depth - 1, leaves))
        if _ok(t):
            return t
    return ty.Cls(int)


# ---------------------------------------------------------------------------
# wide unions: many flattened members, around the size at which union implementations switch to indexed lookup;
# literal members that are ==-equal (same hash) but of different type; optionally one non-literal member.

COLLIDING_GROUPS = [
    (), (1, True), (0, False), (prelude.Num.ONE, 1), (prelude.Num.TWO, 2), (prelude.Num.ONE, True),
    (1, True, prelude.Num.ONE),
]
FILLER_FAMILIES = {
    "ints": [3, 4, 5, 6, 7, 8, 9, 10, 11, 12, 13, 14, 15, 16, 17, 18],
    "strs": ["a", "b", "c", "d", "e", "f", "g", "h", "i", "j", "k", "l", "m", "n", "o", "p"],
    "mixed": ["a", 3, b"a", None, prelude.Color.RED, "ab", 255, b"ab", prelude.Color.GREEN, -1, "", 300, b"",
              prelude.Color.BLUE, "zq", 77],
}
WIDE_STRUCTS = [
    None, ty.Cls(int), ty.Cls(str), ty.Cls(prelude.A), ty.List(ty.Cls(int)), ty.VarTuple(ty.Cls(int)),
    ty.Tuple(ty.Cls(int), ty.Cls(str)), ty.Dict(ty.Cls(str), ty.Cls(int)), ty.Set(ty.Cls(int)),
    ty.FrozenSet(ty.Cls(int)), SPECIAL[0], ty.Seq(ty.Cls(str)), ty.Map(ty.Cls(str), ty.Cls(int)),
    ty.TypeOf(ty.Cls(prelude.A)), ty.Tuple(),
]
WIDE_SIZES = (3, 9, 10, 11, 14)
WIDE_PLACEMENTS = ("front", "back", "split")


def _lit_or_none(v) -> Ty:
    return ty.NONE if v is None else ty.Lit(v)


def wide_union(group, reverse: bool, placement: str, size: int, family: str, struct, struct_front: bool, merged: bool):
    g = [ty.Lit(v) for v in (group[::-1] if reverse else group)]
    n_fill = size - len(g) - (0 if struct is None else 1)
    if n_fill < 0:
        return None
    fill = [_lit_or_none(v) for v in FILLER_FAMILIES[family][:n_fill]]
    if placement == "front":
        lits = g + fill
    elif placement == "back":
        lits = fill + g
    else:
        lits = g[:1] + fill + g[1:]
    members = lits if struct is None else ([struct] + lits if struct_front else lits + [struct])
    t = ty.UnionOf(members, merged)
    return t if t.kind == "Union" and _ok(t) else None


def wide_union_space() -> list:
    """The whole parameter space, as argument tuples of wide_union (deterministic order)."""
    out = []
    for group in COLLIDING_GROUPS:
        for reverse in ((False, True) if group else (False,)):
            for placement in (WIDE_PLACEMENTS if group else ("front",)):
                for size in WIDE_SIZES:
                    for family in FILLER_FAMILIES:
                        for struct in WIDE_STRUCTS:
                            for struct_front in ((False, True) if struct is not None else (False,)):
                                for merged in (False, True):
                                    out.append((group, reverse, placement, size, family, struct, struct_front, merged))
    return out


def wide_unions_core() -> list:
    """Seed-independent part: every colliding group in both orders x sizes just below / at / above 10 x placements
    (no structural member), and every structural member x the same sizes x two filler families."""
    out, seen = [], set()

    def add(*args):
        t = wide_union(*args)
        if t is not None and ty.render(t) not in seen:
            seen.add(ty.render(t))
            out.append(t)

    i = 0
    for group in COLLIDING_GROUPS:
        for reverse in ((False, True) if group else (False,)):
            for size in (9, 10, 13):
                for placement in (("front", "split") if group else ("front",)):
                    i += 1
                    add(group, reverse, placement, size, ("ints", "mixed", "strs")[i % 3], None, False, bool(i % 2))
    for struct in WIDE_STRUCTS[1:]:
        for size in (9, 10, 13):
            i += 1
            add(COLLIDING_GROUPS[i % len(COLLIDING_GROUPS)], False, "front", size, ("ints", "mixed")[i % 2], struct,
                bool((i // 2) % 2), bool(i % 2))
    return out


def wide_unions(rng, n_sampled: int) -> list:
    out = wide_unions_core()
    seen = {ty.render(t) for t in out}
    space = wide_union_space()
    for args in rng.sample(space, min(len(space), 3 * n_sampled)):
        if n_sampled <= 0:
            break
        t = wide_union(*args)
        if t is not None and ty.render(t) not in seen:
            seen.add(ty.render(t))
            out.append(t)
            n_sampled -= 1
    return out


# ---------------------------------------------------------------------------
# user-defined generic classes of the prelude, specialised over a small atom set

GEN_ATOMS = [ty.Cls(int), ty.Cls(str), ty.Cls(float), ty.Cls(bool)]


def generic_terms() -> list:
    out = []
    for cls, views in ty.GEN_VIEWS.items():
        for args in itertools.product(GEN_ATOMS, repeat=len(views)):
            out.append(ty.Gen(cls, *args))
    # arguments that are themselves structured
    out.append(ty.Gen(prelude.GPair, ty.List(ty.Cls(int)), ty.Union(ty.Cls(int), ty.NONE)))
    out.append(ty.Gen(prelude.GBox, ty.List(ty.Cls(int))))
    out.append(ty.Gen(prelude.GBox, ty.List(ty.Cls(str))))
    out.append(ty.Gen(prelude.GBox, ty.Gen(prelude.GBox, ty.Cls(int))))
    return out


# ---------------------------------------------------------------------------
# TypedDict inheritance family (classes generated in vp.prelude; membership read from CPython's own bookkeeping)


def typeddict_family(rng=None, n_second_level: int = None) -> list:
    """TypedDict terms of the prelude's inheritance family: every root (total / total=False x own key qualifiers),
    every one-level subclass (x total / total=False x own qualifier or none), every two-base class, and the two-level
    subclasses (all of them, or a sample of n_second_level drawn with rng)."""
    first, second = [], []
    for name in prelude.TDI_NAMES:
        (second if name.count("_") >= 3 else first).append(name)
    if n_second_level is not None and rng is not None and n_second_level < len(second):
        second = rng.sample(second, n_second_level)
    return [ty.typeddict_from_class(getattr(prelude, n)) for n in first + second]


def typeddict_family_dicts(t: Ty) -> list:
    """(source, dict) candidates around a TypedDict term: all keys / none / all but one / exactly one / one value of the
    wrong type / required only / optional only / one undeclared key more."""
    good = {int: ("1", 1), str: ("'x'", "x"), float: ("1.5", 1.5), bool: ("True", True)}
    bad = {int: ("'x'", "x"), str: ("1", 1), float: ("'x'", "x"), bool: ("'x'", "x")}
    fields = t.args[0]
    keys = [n for n, _ in fields]
    ftype = {n: ft.extra for n, (ft, _r) in fields}
    req = [n for n, (_ft, r) in fields if r]
    opt = [n for n, (_ft, r) in fields if not r]

    def mk(present, wrong=None, extra=False):
        items = [(k, (bad if k == wrong else good)[ftype[k]]) for k in present]
        if extra:
            items.append(("zz", ("0", 0)))
        return ("{" + ", ".join(f"{k!r}: {v[0]}" for k, v in items) + "}", {k: v[1] for k, v in items})

    out = [mk(keys), mk([]), mk(req), mk(opt), mk(keys, extra=True)]
    for k in keys:
        out.append(mk([x for x in keys if x != k]))
        out.append(mk([k]))
        out.append(mk(keys, wrong=k))
        out.append(mk(req + [k] if k not in req else req, wrong=k))
    seen, res = set(), []
    for src, obj in out:
        if src not in seen:
            seen.add(src)
            res.append((src, obj))
    return res


# ---------------------------------------------------------------------------
# classes with a finite (or finitely NAMED) set of instances vs. unions of literals

FINITE_CLASSES = [bool, prelude.Color, prelude.Num, prelude.FPerm, prelude.IMode]


def finite_class_kind(c) -> str:
    import enum

    if c is bool:
        return "bool"
    for base, name in ((enum.IntFlag, "IntFlag"), (enum.Flag, "Flag"), (enum.IntEnum, "IntEnum"), (enum.Enum, "Enum")):
        if isinstance(c, type) and issubclass(c, base):
            return name
    return "other"


def finite_named_members(c) -> list:
    """What iterating the class yields (bool: both values). For Flag classes these are the single-bit members only."""
    return [True, False] if c is bool else list(c)


def finite_literal_unions() -> list:
    """(description, Ty) per finite class: the union of ALL named members (member-wise and merged spelling), every union
    missing exactly one named member, the full union with one more member (None / a literal of another class / a
    class), the full union plus every further instance CPython hands out (Flag: composite and zero values), and the
    single-literal terms."""
    import itertools

    out = []
    for c in FINITE_CLASSES:
        kind = finite_class_kind(c)
        named = finite_named_members(c)
        lits = [ty.Lit(m) for m in named]
        out.append((f"{kind}:full", ty.UnionOf(lits)))
        out.append((f"{kind}:full-merged", ty.UnionOf(lits, merged=True)))
        out.append((f"{kind}:full-reversed", ty.UnionOf(lits[::-1])))
        if len(lits) > 1:
            for i in range(len(lits)):
                out.append((f"{kind}:all-but-one", ty.UnionOf(lits[:i] + lits[i + 1:], merged=bool(i % 2))))
        for extra_name, extra in (("None", ty.NONE), ("other-literal", ty.Lit("a")), ("str", ty.Cls(str))):
            out.append((f"{kind}:full+{extra_name}", ty.UnionOf(lits + [extra])))
        if kind in ("Flag", "IntFlag"):
            every = []
            top = 0
            for m in named:
                top |= m._value_
            for v in range(0, top + 1):
                try:
                    every.append(c(v))
                except ValueError:
                    pass
            out.append((f"{kind}:every-value-up-to-all-bits", ty.UnionOf([ty.Lit(m) for m in every])))
            out.append((f"{kind}:named+zero", ty.UnionOf(lits + [ty.Lit(c(0))])))
    return out


# ---------------------------------------------------------------------------
# callable signature types (vp.ty.CallSig): <=2 named parameters called a / b in either order, every kind, with or
# without default, optional *args / **kw, every annotation int or str

_CS_RANK = {ty.PO: 0, ty.PK: 1, ty.VA: 2, ty.KO: 3, ty.VK: 4}
_CS_TYPES = tuple(ty.CALLSIG_TYPES)


def callsig_canon(ps) -> tuple:
    return tuple(sorted((tuple(p) for p in ps), key=lambda p: _CS_RANK[p[1]]))  # stable: keeps the order inside a kind


def callsig_valid(ps) -> bool:
    names = [p[0] for p in ps]
    if len(set(names)) != len(names):
        return False
    if sum(1 for p in ps if p[1] == ty.VA) > 1 or sum(1 for p in ps if p[1] == ty.VK) > 1:
        return False
    if sum(1 for p in ps if p[1] in (ty.PO, ty.PK, ty.KO)) > 2:
        return False
    seen_default = False
    for p in ps:
        if p[1] in (ty.PO, ty.PK):
            if p[2]:
                seen_default = True
            elif seen_default:
                return False
    return True


def callsig_space(both_namings: bool = True) -> list:
    """Every signature of the space, in a fixed order. both_namings=False: the first named parameter is `a`."""
    named = [None] + [(k, d, t) for k in (ty.PO, ty.PK, ty.KO) for d in (False, True) for t in _CS_TYPES]
    out = {}
    for s1 in named:
        for s2 in named:
            if s1 is None and s2 is not None:
                continue
            for nm in ((("a", "b"), ("b", "a")) if (s1 and both_namings) else (("a", "b"),)):
                for va in (None,) + _CS_TYPES:
                    for vk in (None,) + _CS_TYPES:
                        ps = []
                        if s1:
                            ps.append((nm[0],) + s1)
                        if s2:
                            ps.append((nm[1],) + s2)
                        if va:
                            ps.append(("args", ty.VA, False, va))
                        if vk:
                            ps.append(("kw", ty.VK, False, vk))
                        ps = callsig_canon(ps)
                        if callsig_valid(ps):
                            out[ps] = None
    return list(out)


def callsig_edits(ps) -> list:
    """Every valid signature one edit away: drop a parameter; flip one annotation; toggle one default; change one
    parameter's kind (placed first or last in its new group); rename one parameter (swapping when the name is taken);
    add a named parameter (any kind / default / annotation, first or last in its group); add *args or **kw."""
    ps = [tuple(p) for p in ps]
    out = []
    for i, (n, k, d, t) in enumerate(ps):
        rest = ps[:i] + ps[i + 1:]
        out.append(rest)
        for t2 in _CS_TYPES:
            if t2 != t:
                out.append(ps[:i] + [(n, k, d, t2)] + ps[i + 1:])
        if k in (ty.PO, ty.PK, ty.KO):
            out.append(ps[:i] + [(n, k, not d, t)] + ps[i + 1:])
            for k2 in (ty.PO, ty.PK, ty.KO):
                if k2 != k:
                    out.append(rest + [(n, k2, d, t)])
                    out.append([(n, k2, d, t)] + rest)
            n2 = "b" if n == "a" else "a"
            q = [((n if x[0] == n2 else x[0]),) + x[1:] for x in ps]
            q[i] = (n2, k, d, t)
            out.append(q)
    used = {p[0] for p in ps}
    for n in ("a", "b"):
        if n not in used:
            for k in (ty.PO, ty.PK, ty.KO):
                for d in (False, True):
                    for t in _CS_TYPES:
                        out.append(ps + [(n, k, d, t)])
                        out.append([(n, k, d, t)] + ps)
    if not any(p[1] == ty.VA for p in ps):
        out.extend(ps + [("args", ty.VA, False, t)] for t in _CS_TYPES)
    if not any(p[1] == ty.VK for p in ps):
        out.extend(ps + [("kw", ty.VK, False, t)] for t in _CS_TYPES)
    res, seen = [], {callsig_canon(ps)}
    for q in out:
        c = callsig_canon(q)
        if c not in seen and callsig_valid(c):
            seen.add(c)
            res.append(c)
    return res
