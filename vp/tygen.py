"""Enumeration / sampling of Ty terms over a fixed leaf vocabulary."""
from __future__ import annotations

import itertools

from vp import prelude, ty
from vp.ty import Ty

LEAVES = [
    ty.Cls(int), ty.Cls(bool), ty.Cls(float), ty.Cls(complex), ty.Cls(str), ty.Cls(bytes), ty.NONE, ty.OBJECT,
    ty.Cls(prelude.A), ty.Cls(prelude.B), ty.Cls(prelude.C), ty.Cls(prelude.Color), ty.Cls(prelude.Num),
    ty.Lit(1), ty.Lit(True), ty.Lit("a"), ty.Lit(b"a"), ty.Lit(prelude.Color.RED), ty.Lit(0),
]
SPECIAL = [
    ty.TypedDictT("TD1", {"a": (ty.Cls(int), True), "b": (ty.Cls(str), False)}),
    ty.TypedDictT("TD2", {"a": (ty.Cls(int), True), "c": (ty.Cls(prelude.A), True)}),
    ty.TypedDictT("TD3", {"a": (ty.Union(ty.Cls(int), ty.NONE), True), "b": (ty.Union(ty.Cls(str), ty.NONE), False)}),
    ty.NewTypeT("NT", int), ty.NewTypeT("NS", str),
    ty.Cls(list), ty.Cls(tuple), ty.Cls(dict), ty.Cls(prelude.DC),
]
CORE_LEAVES = [ty.Cls(int), ty.Cls(bool), ty.Cls(float), ty.Cls(str), ty.NONE, ty.Cls(prelude.A), ty.Cls(prelude.B),
               ty.Lit(1), ty.Lit("a"), ty.Cls(prelude.Color), ty.OBJECT, ty.Cls(bytes)]

UNARY = [ty.List, ty.Set, ty.FrozenSet, ty.Seq, ty.Iter, ty.VarTuple, ty.TypeOf,
         lambda t: ty.Union(t, ty.NONE), lambda t: ty.Tuple(t), lambda t: ty.Coll(t)]
BINARY = [ty.Dict, ty.Map, lambda a, b: ty.Tuple(a, b), lambda a, b: ty.Union(a, b),
          lambda a, b: ty.MixTuple([a], b, []), lambda a, b: ty.MixTuple([], a, [b])]


def _ok(t: Ty) -> bool:
    try:
        ty.render(t)
    except ValueError:
        return False
    # sets / dict keys need hashable members: fine for typing purposes; TypeOf only of classes/unions
    if t.kind == "TypeOf" and t.args[0].kind not in ("Cls", "Union", "Object", "Any"):
        return False
    if t.kind == "TypeOf" and t.args[0].kind == "Union" and any(a.kind not in ("Cls", "Object") for a in t.args[0].args):
        return False
    return True


def depth1() -> list:
    out = list(LEAVES) + list(SPECIAL) + [ty.Tuple()]
    return [t for t in out if _ok(t)]


def depth2(leaves=None) -> list:
    leaves = leaves or CORE_LEAVES
    out = []
    for u in UNARY:
        for a in leaves:
            out.append(u(a))
    for b in BINARY:
        for a1 in leaves:
            for a2 in leaves:
                out.append(b(a1, a2))
    out.append(ty.Tuple(ty.Cls(int), ty.Cls(str), ty.Cls(float)))
    out.append(ty.MixTuple([ty.Cls(int)], ty.Cls(str), [ty.Cls(float)]))
    out.append(ty.Union(ty.Cls(int), ty.Cls(str), ty.NONE))
    seen = []
    s = set()
    for t in out:
        if _ok(t):
            r = ty.render(t)
            if r not in s:
                s.add(r)
                seen.append(t)
    return seen


def random_ty(rng, depth: int, leaves=None) -> Ty:
    leaves = leaves or (LEAVES + SPECIAL)
    for _ in range(20):
        if depth <= 0 or rng.random() < 0.25:
            t = rng.choice(leaves)
        elif rng.random() < 0.55:
            t = rng.choice(UNARY)(random_ty(rng, depth - 1, leaves))
        else:
            t = rng.choice(BINARY)(random_ty(rng, depth - 1, leaves), random_ty(rng, depth - 1, leaves))
        if _ok(t):
            return t
    return ty.Cls(int)
